(* C18 — handshake: greeting accepted iff valid (this file: the greeting; the password exchange is
   stated over the loop model in LoopProofs).  Statements only. *)
From MPD Require Import Bytes Tables ParserModel BuilderModel ConnModel ParserProofs ConnProofs GrammarProofs.
Open Scope N_scope.

(* total classification of the first line by the byte string alone *)
Theorem c18_valid : forall v rest,
  v <> [] -> no_lf_b v = true -> utf8_valid v = true ->
  p_greeting (GP ++ v ++ LF :: rest) = ROk (length GP + length v + 1) v.
Proof. exact greeting_valid. Qed.

Theorem c18_bad_version : forall v rest,
  no_lf_b v = true -> (v = [] \/ utf8_valid v = false) -> p_greeting (GP ++ v ++ LF :: rest) = RError.
Proof. exact greeting_bad_version. Qed.

Theorem c18_wrong_prefix : forall i, is_prefix GP i = false -> is_prefix i GP = false -> p_greeting i = RError.
Proof. exact greeting_wrong_prefix. Qed.

Theorem c18_incomplete_prefix : forall p, is_prefix p GP = true -> p <> GP -> p_greeting p = RIncomplete.
Proof. exact greeting_incomplete_prefix. Qed.

Theorem c18_incomplete_version : forall v, no_lf_b v = true -> p_greeting (GP ++ v) = RIncomplete.
Proof. exact greeting_incomplete_version. Qed.

(* ... and connect, for both buffer policies and every segmentation, returns exactly that verdict
   on the whole stream: version verbatim / invalid message / unexpected EOF (or the I/O error),
   keeping the bytes after the greeting *)
Theorem c18_connect_is_reference : forall p r,
  wf_reader r -> pol_ok p 0 ->
  let '(o, r') := connect p r in
  conn_matches o r' (ref_connect (concat (chunks r)) (rtail r)) (rtail r).
Proof. exact connect_ref. Qed.

Example c18_ex :
  ref_connect (b "OK MPD 0.23.5" ++ [LF] ++ b "x") TEof = RConnected (b "0.23.5") (b "x") /\
  ref_connect (b "OK MPD " ++ [255]) TEof = RConnEof /\
  ref_connect (b "OK MPD " ++ [255; LF]) TEof = RConnInvalid /\
  ref_connect (b "OK MPD " ++ [LF]) TEof = RConnInvalid /\
  ref_connect (b "OK MPX") TEof = RConnInvalid /\
  fst (connect (Blocking 3) (mkReader [b "OK M"; b "PD 1" ++ [LF] ++ b "OK" ++ [LF]] TEof)) =
    Connected (b "1") (mkConn (Blocking 24) (b "OK" ++ [LF]) Initial).
Proof. repeat split; vm_compute; reflexivity. Qed.

Print Assumptions c18_valid.
Print Assumptions c18_bad_version.
Print Assumptions c18_wrong_prefix.
Print Assumptions c18_incomplete_prefix.
Print Assumptions c18_incomplete_version.
Print Assumptions c18_connect_is_reference.
