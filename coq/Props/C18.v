(* C18 — handshake: greeting accepted iff valid (this file: the greeting; the password exchange is
   stated over the loop model in LoopProofs).  Statements only. *)
From MPD Require Import Bytes Tables ParserModel BuilderModel ConnModel ParserProofs ConnProofs GrammarProofs CommandModel LoopModel.
Open Scope N_scope.

(* total classification of the first line by the byte string alone *)
Theorem c18_valid : forall v rest,
  v <> [] -> no_lf_b v = true -> utf8_valid v = true ->
  p_greeting (GP ++ v ++ LF :: rest) = ROk (length GP + length v + 1) v.
Proof. exact greeting_valid. Qed.

Theorem c18_bad_version : forall v rest,
  no_lf_b v = true -> (v = [] \/ utf8_valid v = false) -> p_greeting (GP ++ v ++ LF :: rest) = RError.
Proof. exact greeting_bad_version. Qed.

Theorem c18_wrong_prefix : forall i, is_prefix GP i = false -> is_prefix i GP = false -> p_greeting i = RError.
Proof. exact greeting_wrong_prefix. Qed.

Theorem c18_incomplete_prefix : forall p, is_prefix p GP = true -> p <> GP -> p_greeting p = RIncomplete.
Proof. exact greeting_incomplete_prefix. Qed.

Theorem c18_incomplete_version : forall v, no_lf_b v = true -> p_greeting (GP ++ v) = RIncomplete.
Proof. exact greeting_incomplete_version. Qed.

(* ... and connect, for both buffer policies and every segmentation, returns exactly that verdict
   on the whole stream: version verbatim / invalid message / unexpected EOF (or the I/O error),
   keeping the bytes after the greeting *)
Theorem c18_connect_is_reference : forall p r,
  wf_reader r -> pol_ok p 0 ->
  let '(o, r') := connect p r in
  conn_matches o r' (ref_connect (concat (chunks r)) (rtail r)) (rtail r).
Proof. exact connect_ref. Qed.

Example c18_ex :
  ref_connect (b "OK MPD 0.23.5" ++ [LF] ++ b "x") TEof = RConnected (b "0.23.5") (b "x") /\
  ref_connect (b "OK MPD " ++ [255]) TEof = RConnEof /\
  ref_connect (b "OK MPD " ++ [255; LF]) TEof = RConnInvalid /\
  ref_connect (b "OK MPD " ++ [LF]) TEof = RConnInvalid /\
  ref_connect (b "OK MPX") TEof = RConnInvalid /\
  fst (connect (Blocking 3) (mkReader [b "OK M"; b "PD 1" ++ [LF] ++ b "OK" ++ [LF]] TEof)) =
    Connected (b "1") (mkConn (Blocking 24) (b "OK" ++ [LF]) Initial).
Proof. repeat split; vm_compute; reflexivity. Qed.

(* ---- the password half: do_connect as the sequential program it is (LoopModel) ---- *)

(* with a password, the only thing written after the greeting is the password command, and the
   run loop (whose first act is to write idle) is NOT started yet *)
Theorem c18_password_first : forall pw v line,
  password_line pw = Some line ->
  after_greeting false (Some pw) v = (HPassword v, [OWrite line], None, false).
Proof. intros pw v line H. unfold after_greeting. rewrite H. reflexivity. Qed.

(* the password command line is "password" + the escaped argument (byte-level fidelity: C06) *)
Theorem c18_password_line : forall pw,
  validate_argument (escape_argument pw) = None ->
  password_line pw = Some (b "password" ++ [SP] ++ escape_argument pw ++ [LF]).
Proof.
  intros pw H. unfold password_line, add_str, add_argument_raw. rewrite H. unfold send_bytes.
  rewrite <- !app_assoc. reflexivity.
Qed.

(* without a password the loop starts at once and its first write is idle *)
Theorem c18_no_password : forall v,
  after_greeting false None v = (HDone, [], Some (ConnOk v), true) /\ loop_entry false = (PIdle, [OWrite idle_line]).
Proof. intros; split; reflexivity. Qed.

(* the verdict on the password: ANY error response is the incorrect-password error and nothing
   further happens (the loop is not started, so nothing more is written); a close, cut, garbage or
   I/O error is the protocol error; only a success response starts the loop *)
Theorem c18_password_verdict : forall v r,
  after_password v r =
  match r with
  | RResp x => match r_error x with
               | Some _ => (Some ConnBadPassword, false)
               | None => (Some (ConnOk v), true)
               end
  | RClean => (Some (ConnErr EUeof), false)
  | RErr e => (Some (ConnErr e), false)
  end.
Proof. intros v [x | | e]; cbn; [destruct (r_error x)|..]; reflexivity. Qed.

(* if the password cannot even be written, the error is returned and the loop is not started *)
Theorem c18_password_write_fails : forall pw v line,
  password_line pw = Some line ->
  after_greeting true (Some pw) v = (HDone, [], Some (ConnErr EIo), false).
Proof. intros pw v line H. unfold after_greeting. rewrite H. reflexivity. Qed.

Example c18_pw_ex :
  password_line (b "pass word") = Some (b "password ""pass word""" ++ [LF]) /\
  password_line (b "a" ++ [LF]) = None.
Proof. split; vm_compute; reflexivity. Qed.

Print Assumptions c18_valid.
Print Assumptions c18_bad_version.
Print Assumptions c18_wrong_prefix.
Print Assumptions c18_incomplete_prefix.
Print Assumptions c18_incomplete_version.
Print Assumptions c18_connect_is_reference.
Print Assumptions c18_password_first.
Print Assumptions c18_password_line.
Print Assumptions c18_no_password.
Print Assumptions c18_password_verdict.
