(* C01 — every request is answered with its own reply, in issue order.  Statements only. *)
From MPD Require Import Bytes Tables BuilderModel LoopModel LoopProofs LoopSpec LoopSpecProofs.
Open Scope N_scope.

(* for EVERY schedule: whatever a responder is handed is the server's reply to the bytes of a request
   that was issued with that responder's id - never an idle/noidle reply, never another request's *)
Theorem c01_own_reply : forall reply_fn sch id x,
  Forall wf_label sch -> In (id, x) (a_replies (arun reply_fn sch)) ->
  exists q, In q (a_issued (arun reply_fn sch)) /\ q_id q = id /\ x = reply_fn (q_bytes q).
Proof. exact own_reply. Qed.

(* requests reach the wire in the order they were issued: written ++ held ++ queued = issued *)
Theorem c01_issue_order : forall reply_fn sch,
  Forall wf_label sch ->
  a_sent (arun reply_fn sch) ++ held (a_pt (arun reply_fn sch)) ++ a_queue (arun reply_fn sch) = a_issued (arun reply_fn sch).
Proof. exact fifo. Qed.

(* a list failing part-way: the caller gets the error with exactly the completed frames (the
   builder keeps completed frames and drops the partial one), a single command gets no frames *)
Theorem c01_partial_failure : forall cur done e,
  split_list (b_error (ListInProgress cur done) e) = CRAck e done /\
  split_single (b_error (InProgress cur) e) = CRAck e [].
Proof. intros; split; reflexivity. Qed.

Theorem c01_success_frames : forall cur done,
  split_list (b_finish (ListInProgress cur done)) = CROk done.
Proof. reflexivity. Qed.

(* cancellation is invisible to the loop: its step function has no input describing whether a
   caller still listens, so the replies of the others cannot depend on it *)
Theorem c01_step_ignores_liveness : forall wf p i, exists p' outs, cstep wf p i = (p', outs).
Proof. intros. destruct (cstep wf p i) as [p' outs]. eauto. Qed.

Example c01_two_callers :
  let q1 := mkReq 1 (b "status" ++ [LF]) in
  let q2 := mkReq 2 (b "stats" ++ [LF]) in
  let rf := fun bs => mkResp [mkFrame [(b "echo", bs)] None] None in
  let s := arun rf [LIssue q1; LIssue q2; LServe; LTake; LServe; LRecv; LServe; LRecv; LTake; LServe; LRecv] in
  a_replies s = [(1, rf (q_bytes q1)); (2, rf (q_bytes q2))] /\ a_sent s = [q1; q2].
Proof. vm_compute. auto. Qed.

Print Assumptions c01_own_reply.
Print Assumptions c01_issue_order.
Print Assumptions c01_partial_failure.
