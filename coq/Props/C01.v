(* C01 — every request is answered with its own reply, in issue order.  Statements only. *)
From MPD Require Import Bytes Tables BuilderModel LoopModel LoopProofs LoopSpec LoopSpecProofs ServerModel DriverLoop LoopRefine LoopRefineProofs LoopCancel LoopCancelProofs LoopMute LoopMuteProofs.
Open Scope N_scope.

(* for EVERY schedule: whatever a responder is handed is the server's reply to the bytes of a request
   that was issued with that responder's id - never an idle/noidle reply, never another request's *)
Theorem c01_own_reply : forall reply_fn sch id x,
  Forall wf_label sch -> In (id, x) (a_replies (arun reply_fn sch)) ->
  exists q, In q (a_issued (arun reply_fn sch)) /\ q_id q = id /\ x = reply_fn (q_bytes q).
Proof. exact own_reply. Qed.

(* requests reach the wire in the order they were issued: written ++ held ++ queued = issued *)
Theorem c01_issue_order : forall reply_fn sch,
  Forall wf_label sch ->
  a_sent (arun reply_fn sch) ++ held (a_pt (arun reply_fn sch)) ++ a_queue (arun reply_fn sch) = a_issued (arun reply_fn sch).
Proof. exact fifo. Qed.

(* a list failing part-way: the caller gets the error with exactly the completed frames (the
   builder keeps completed frames and drops the partial one), a single command gets no frames *)
Theorem c01_partial_failure : forall cur done e,
  split_list (b_error (ListInProgress cur done) e) = CRAck e done /\
  split_single (b_error (InProgress cur) e) = CRAck e [].
Proof. intros; split; reflexivity. Qed.

Theorem c01_success_frames : forall cur done,
  split_list (b_finish (ListInProgress cur done)) = CROk done.
Proof. reflexivity. Qed.

(* cancellation is invisible to the loop: its step function has no input describing whether a
   caller still listens, so the replies of the others cannot depend on it (the statement about whole runs of the
   executable system is c01_cancel_erasure below) *)
Theorem c01_step_ignores_liveness : forall wf p i, exists p' outs, cstep wf p i = (p', outs).
Proof. intros. destruct (cstep wf p i) as [p' outs]. eauto. Qed.

(* liveness and functional correctness together: take ANY schedule, then let the client and the
   server run - in any order, any enabled step - until nothing more can happen.  That takes at most
   [mu_sys] steps (8 per queued request + 3 per pending change + the phase of the exchange in
   progress), and then every request ever issued has been handed exactly the server's reply to its
   own bytes, in issue order, and nothing else.  (Fairness assumption: enabled steps are taken.) *)
Theorem c01_all_answered_in_order : forall reply_fn sch n s',
  Forall wf_label sch -> iruns reply_fn n (arun reply_fn sch) s' ->
  (forall l, internal l = true -> astep reply_fn s' l = s') ->
  a_replies s' = map (R reply_fn) (a_issued s') /\ (n <= mu_sys (arun reply_fn sch))%nat.
Proof. exact all_answered_in_order. Qed.

(* no deadlock: while anything is queued, in flight or pending, some step is enabled and it
   strictly decreases the measure *)
Theorem c01_progress : forall reply_fn s,
  Inv reply_fn s -> (0 < mu_sys s)%nat ->
  exists l, internal l = true /\ (mu_sys (astep reply_fn s l) < mu_sys s)%nat.
Proof. exact positive_measure_can_step. Qed.

Example c01_two_callers :
  let q1 := mkReq 1 (b "status" ++ [LF]) in
  let q2 := mkReq 2 (b "stats" ++ [LF]) in
  let rf := fun bs => mkResp [mkFrame [(b "echo", bs)] None] None in
  let s := arun rf [LIssue q1; LIssue q2; LServe; LTake; LServe; LRecv; LServe; LRecv; LTake; LServe; LRecv] in
  a_replies s = [(1, rf (q_bytes q1)); (2, rf (q_bytes q2))] /\ a_sent s = [q1; q2].
Proof. vm_compute. auto. Qed.

(* ---- the EXECUTABLE system (see Props/C05.v, c05_exec_refines) ----
   For every label sequence of the fault-free fragment — single commands AND command lists —, the
   results the callers are handed, in the order they are handed out, are the server's replies (echo,
   ACK, binary ...; for a list: the frames of the commands that succeeded, then the error if one
   failed — [res_of]) to a PREFIX of the issued requests in issue order: every caller gets the
   decoded reply to its own request, no reply is skipped, duplicated or given to another caller. *)
Theorem c01_exec_own_replies : forall cf labs gls, in_fragment cf labs gls ->
  exists k, flat_map g_res (snd (xrun (xinit cf) labs)) = map (echo_result cf) (firstn k (flat_map issued_of gls)).
Proof. exact exec_own_replies. Qed.

(* what the caller of a list is handed when its second command fails: the frame of the first, then the error *)
Example c01_exec_partial_list :
  res_of (list_bytes [b "status"; b "fail 5 x"; b "stats"]) (echo_reply ex_cf (list_bytes [b "status"; b "fail 5 x"; b "stats"])) =
  CRAck (mkErr 5 1 (Some (b "fail")) (b "boom")) [mkFrame [(b "line", b "status")] None] /\
  good ex_cf (GIssueL 7 [b "status"; b "fail 5 x"; b "stats"]) = true.
Proof. split; vm_compute; reflexivity. Qed.

Example c01_exec_example :
  flat_map g_res (snd (xrun (xinit ex_cf) ex_labs)) =
    map (echo_result ex_cf) [mkReq 1 (b "status" ++ [LF]); mkReq 2 (b "stats" ++ [LF]); mkReq 3 (b "currentsong" ++ [LF])] /\
  flat_map g_ev (snd (xrun (xinit ex_cf) ex_labs)) = map ev_text [b "player"; b "mixer"].
Proof. exact ex_outcome. Qed.

(* ---- cancellation in the EXECUTABLE system (LoopCancel.v) ----
   A caller that gives up (label x<id>) changes nothing but the absence of its own result.  [hide c x] is the state x without the
   callers whose ids are in c, [hide_run] runs the labels with every x<id> replaced by a no-op and hides the cancelled callers'
   results, segment by segment.  The statement holds from ANY connected state, for EVERY label list without h (handle dropped) and
   a (album art: a caller with follow-up requests) whose request ids are distinct — all fault labels (e, r, w, G:, p/u, q/Q/Z, k)
   included: cancellation commutes with faults too. *)
Theorem c01_cancel_erasure : forall ls seen c x, CInv seen x -> incl c seen -> cancel_ok seen ls = true ->
  xrun (hide c x) ls = hide_run seen c x ls.
Proof. exact cancel_erasure. Qed.

(* from the start of a session, segment by segment: the same writes, events, connection results and panics; the results are those
   of the run without cancellations minus (some) results of cancelled callers; the end states differ in the live callers only *)
Theorem c01_exec_cancel : forall cf ls, cancel_ok [] ls = true ->
  Forall2 (seg_hidden (cancels ls)) (snd (xrun (xinit cf) ls)) (snd (xrun (xinit cf) (map erase_label ls))) /\
  exists c, incl c (cancels ls) /\ fst (xrun (xinit cf) ls) = hide c (fst (xrun (xinit cf) (map erase_label ls))).
Proof. exact exec_cancel. Qed.

(* nobody but a cancelled caller loses its result, and no result appears that the run without cancellations does not hand out *)
Theorem c01_exec_cancel_others : forall cf ls r, cancel_ok [] ls = true ->
  In r (flat_map g_res (snd (xrun (xinit cf) (map erase_label ls)))) -> ~ In (fst r) (cancels ls) ->
  In r (flat_map g_res (snd (xrun (xinit cf) ls))).
Proof. exact exec_cancel_others. Qed.

(* with the refinement: inside the fault-free fragment the results handed out while callers cancel are, in order, the replies to a
   prefix of the issued requests with only results of cancelled callers missing ([dropped]); the wire and the events are those of
   the run without cancellation; the server is never violated; nothing panics *)
Theorem c01_exec_cancel_session : forall cf ls gls, cancel_ok [] ls = true -> in_fragment cf (map erase_label ls) gls ->
  let segs := snd (xrun (xinit cf) ls) in
  let plain := snd (xrun (xinit cf) (map erase_label ls)) in
  (exists k, dropped (cancels ls) (flat_map g_res segs) (map (echo_result cf) (firstn k (flat_map issued_of gls)))) /\
  map g_w segs = map g_w plain /\ map g_ev segs = map g_ev plain /\
  Forall (fun g => g_panic g = false) segs /\
  s_violated (x_srv (fst (xrun (xinit cf) ls))) = false.
Proof. exact exec_cancel_session. Qed.

(* the in-flight caller and a queued caller give up: only the third request is handed a result, all three reach the wire *)
Example c01_cancel_example :
  cancel_ok [] ex_cancel_labs = true /\ cancels ex_cancel_labs = [1; 2] /\
  in_fragment ex_cf (map erase_label ex_cancel_labs) ex_cancel_gls /\
  flat_map g_res (snd (xrun (xinit ex_cf) ex_cancel_labs)) = map (echo_result ex_cf) [mkReq 3 (b "currentsong" ++ [LF])] /\
  flat_map g_w (snd (xrun (xinit ex_cf) ex_cancel_labs)) =
    noidle_line ++ b "status" ++ [LF] ++ b "stats" ++ [LF] ++ b "currentsong" ++ [LF].
Proof. exact ex_cancel_summary. Qed.

(* the application dropping its ConnectionEvents does not touch the replies: segment by segment the same results, the same writes, the
   same panics as in the run in which the listener is kept (LoopMute.v; the statement about whole states is c05_listener_erasure) *)
Theorem c01_exec_listener_dropped : forall cf ls, mute_ok ls = true ->
  map g_res (snd (xrun (xinit cf) ls)) = map g_res (snd (xrun (xinit cf) (map mute_label ls))) /\
  map g_w (snd (xrun (xinit cf) ls)) = map g_w (snd (xrun (xinit cf) (map mute_label ls))) /\
  map g_panic (snd (xrun (xinit cf) ls)) = map g_panic (snd (xrun (xinit cf) (map mute_label ls))).
Proof. exact exec_mute_results. Qed.

Print Assumptions c01_own_reply.
Print Assumptions c01_issue_order.
Print Assumptions c01_partial_failure.
Print Assumptions c01_all_answered_in_order.
Print Assumptions c01_progress.
Print Assumptions c01_exec_own_replies.
Print Assumptions c01_cancel_erasure.
Print Assumptions c01_exec_cancel.
Print Assumptions c01_exec_cancel_others.
Print Assumptions c01_exec_cancel_session.
Print Assumptions c01_exec_listener_dropped.
