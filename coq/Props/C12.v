From MPD Require Import Bytes.
