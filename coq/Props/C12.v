(* C12 — Typed response conversion is total: never panics on any server reply.  Statements only.

   In TypedModel every panic site that is still in the code is an explicit TPanic:
   Tag::try_from(key).unwrap() in List::from_frame, songs.unwrap()/playtime.unwrap() in
   build_grouped_values, the array index grouping_values[idx] in GroupedListValuesIter::next.
   (parse_duration uses Duration::try_from_secs_f64 and the typed lists return
   TypedResponseError::other since the repairs 9b21408 / 1288aae, so those sites are gone; their
   regression witnesses stay in the corpus of tools/props/c12.py.)  The song listings
   (SongBuilder: Queue, Find, ...) are modelled and proved by C14; C12's harness still walks them. *)
From MPD Require Import Bytes Tables ParserModel BuilderModel FrameModel TagModel TypedModel TypedProofs.
From MPD Require SongStd SongModel SongProofs.
Open Scope N_scope.

(* every predefined command of the model, every frame whose field names the parser could have
   produced, however many fields, whatever values: a value or a typed-response error *)
Theorem c12_response : forall cmd frame,
  Forall (fun kv => parser_key (fst kv)) (f_fields frame) -> response_model cmd frame <> TPanic.
Proof. exact response_total. Qed.

(* ... and then reading the value back (List::grouped_values is the only accessor that computes) *)
Theorem c12_consume : forall v, consume_model v <> TPanic.
Proof. exact consume_total. Qed.

Theorem c12_grouped_iter_total : forall l, grouped_values l <> TPanic.
Proof. exact grouped_values_total. Qed.

(* typed command lists, Vec and every tuple arity generated from the macro invocations: NO
   hypothesis relating the number of frames to the number of commands *)
Theorem c12_lists : forall shape cmds frames,
  Forall (fun f => Forall (fun kv => parser_key (fst kv)) (f_fields f)) frames ->
  responses_model shape cmds frames <> TPanic.
Proof. exact responses_total. Qed.

(* the macro invocations (regenerated) cover arities 1..8 and element i uses field i: the
   "no such tuple field" branch of the model is never taken for a tuple of a listed arity *)
Theorem c12_tuple_impls_shape :
  map (@length nat) tuple_impls = [1; 2; 3; 4; 5; 6; 7; 8]%nat /\
  Forall (fun idxs => idxs = seq 0 (length idxs)) tuple_impls.
Proof. split; [vm_compute; reflexivity | repeat constructor]. Qed.

(* the hypothesis is exactly what the protocol parser guarantees for every field it emits ... *)
Theorem c12_parser_emits_parser_keys : forall i n k v, parse_component i = ROk n (CField k v) -> parser_key k.
Proof. exact parsed_field_has_parser_key. Qed.

(* ... and it discharges the unwrap: both alphabets come from the regenerated Tables.v *)
Theorem c12_parser_keys_are_tags : forall k, parser_key k -> exists t, tag_try_from k = TagOk t.
Proof. exact parser_key_is_tag. Qed.

(* the individual sites *)
Theorem c12_duration_total : forall v field, parse_duration v field <> TPanic.
Proof. exact parse_duration_np. Qed.
Theorem c12_count_grouped_total : forall g fields, count_grouped_model g fields <> TPanic.
Proof. intros g fields. apply count_grouped_np. Qed.

(* non-vacuity: the regression witnesses evaluate to errors / values, not panics, in the model *)
Example c12_ex_duration : parse_duration (b "18446744073709551616") (b "duration") = TErr (KInvalid (b "duration")).
Proof. vm_compute. reflexivity. Qed.
Example c12_ex_grouped :
  tbind (list_model (Named T_Title) [Named T_Album] [(b "Album", b "a"); (b "Artist", b "x"); (b "Title", b "t")]) grouped_values
  = TOk [(b "t", [b "a"])].
Proof. vm_compute. reflexivity. Qed.
Example c12_ex_lists :
  responses_model LTuple [CUnit; CUnit] [empty_frame] = TErr KOther /\
  responses_model LVec [CUnit; CUnit] [empty_frame] = TErr KOther /\
  responses_model LTuple [CStatus; CUnit] [empty_frame; empty_frame; empty_frame] = TErr (KMissing (b "state")).
Proof. repeat split; vm_compute; reflexivity. Qed.
(* a key outside the alphabet WOULD reach the unwrap: the hypothesis is not idle *)
Example c12_ex_unwrap_site : list_model (Named T_Title) [] [(b "a1", b "x")] = TPanic.
Proof. vm_compute. reflexivity. Qed.

(* the song-listing commands (Queue, QueueRange, CurrentSong, Find, GetPlaylist, ListAllIn ...): the
   SongBuilder model of C14 never panics on fields whose keys the parser can produce - the
   Tag::try_from(..).unwrap() and the assert!(!url.is_empty()) are unreachable *)
Theorem c12_song_listings : forall ch fields, Forall SongProofs.parser_key (map fst fields) ->
  SongModel.qsongs_model ch fields <> SongModel.Panic /\
  SongModel.songs_model ch fields <> SongModel.Panic /\
  SongModel.single_model ch fields <> SongModel.Panic.
Proof. exact SongProofs.no_panic. Qed.

Print Assumptions c12_response.
Print Assumptions c12_consume.
Print Assumptions c12_grouped_iter_total.
Print Assumptions c12_lists.
Print Assumptions c12_tuple_impls_shape.
Print Assumptions c12_parser_emits_parser_keys.
Print Assumptions c12_parser_keys_are_tags.
Print Assumptions c12_duration_total.
Print Assumptions c12_count_grouped_total.
Print Assumptions c12_song_listings.
