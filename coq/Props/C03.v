(* C03 — well-formed server output is decoded exactly.  Statements only.
   Proved so far (the rest is the correspondence/oracle run; see the manifest's level_note):
   what follows a complete response is neither consumed nor able to change it; payloads are cut by
   length and never scanned. *)
From MPD Require Import Bytes Tables ParserModel BuilderModel ConnModel ParserProofs ConnProofs GrammarProofs.
Open Scope N_scope.

(* a response completed on a prefix of the stream is THE response, and the bytes after it are left
   untouched for the next receive — whatever those bytes are *)
Theorem c03_rest_not_consumed : forall buf st x st' rest r,
  bparse_all st buf = (st', rest, Complete r) ->
  bparse_all st (buf ++ x) = (st', rest ++ x, Complete r).
Proof.
  intros buf st x st' rest r B.
  pose proof (bparse_app (length buf) buf st x (le_n _)) as A. unfold app_verdict in A.
  rewrite B in A. exact A.
Qed.

(* decoding is incremental: feeding a prefix and then the remainder equals feeding everything *)
Theorem c03_incremental : forall buf st x st' rest,
  bparse_all st buf = (st', rest, NeedMore) ->
  bparse_all st (buf ++ x) = bparse_all st' (rest ++ x).
Proof.
  intros buf st x st' rest B.
  pose proof (bparse_app (length buf) buf st x (le_n _)) as A. unfold app_verdict in A.
  rewrite B in A. exact A.
Qed.

(* non-vacuity and the look-alike values of the property, by computation on the model *)
Example c03_ex :
  let s := b "a: OK" ++ [LF] ++ b "b: list_OK" ++ [LF] ++ b "c: ACK [5@0] {} x" ++ [LF] ++ b "d: binary: 3" ++ [LF] ++
           b "e: " ++ [LF] ++ b "binary: 10" ++ [LF] ++ b "OK" ++ [LF] ++ b "ACK" ++ [LF; 0; 255; LF] ++ [LF] ++
           b "list_OK" ++ [LF] ++ b "ACK [50@1] {play} No such song" ++ [LF] ++ b "next: 1" in
  ref_receive s TEof =
    (Resp (mkResp [mkFrame [(b "a", b "OK"); (b "b", b "list_OK"); (b "c", b "ACK [5@0] {} x"); (b "d", b "binary: 3"); (b "e", [])]
                           (Some (b "OK" ++ [LF] ++ b "ACK" ++ [LF; 0; 255; LF]))]
                  (Some (mkErr 50 1 (Some (b "play")) (b "No such song")))),
     b "next: 1").
Proof. vm_compute. reflexivity. Qed.

Print Assumptions c03_rest_not_consumed.
Print Assumptions c03_incremental.
