(* C03 — statements (under construction) *)
From MPD Require Import Bytes Tables ParserModel BuilderModel ConnModel ParserProofs ConnProofs.
