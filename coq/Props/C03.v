(* C03 — well-formed server output is decoded exactly.  Statements only.
   Spec side: Grammar.v (abstract responses [aresp], the boolean well-formedness [wf_resp], the wire
   encoder [enc], the expected decoding [decoded]).  Proved for ALL well-formed abstract responses:
   decode (enc r) = r, whatever follows; back-to-back responses come out one per receive, in order;
   what follows a complete response is neither consumed nor able to change it; payloads are cut by
   length and never scanned. *)
From MPD Require Import Bytes Tables ParserModel BuilderModel Grammar ConnModel ParserProofs ConnProofs GrammarProofs RoundTripProofs.
Open Scope N_scope.

(* ---------- the round trip ---------- *)

(* One component of each kind.  The value of a field is ANY valid UTF-8 without LF (so OK, list_OK,
   "ACK [5@0] {} x", "binary: 3", the empty string are values like any other); the payload is ANY
   byte string; [rest] is anything. *)
Theorem c03_field_line : forall k v rest,
  wf_field (k, v) = true ->
  parse_component (enc_field k v ++ rest) = ROk (length (enc_field k v)) (CField k v).
Proof. exact rt_field. Qed.

Theorem c03_binary_part : forall d rest,
  wf_payload d = true ->
  parse_component (enc_binary d ++ rest) = ROk (length (enc_binary d)) (CBinary (length d)).
Proof. exact rt_binary. Qed.

Theorem c03_error_line : forall e rest,
  wf_err e = true ->
  parse_component (enc_error e ++ rest) =
  ROk (length (enc_error e)) (CError (e_code e) (e_index e) (e_command e) (e_message e)).
Proof. exact rt_error. Qed.

(* One response: single or list form, ending in OK or in (a partial frame, dropped, and) ACK.  The
   builder returns exactly the frames, field order, values, payload bytes and error that were
   encoded, is back in its initial state, and leaves every byte of [rest] — for ANY [rest], so
   nothing after a response is consumed and nothing after it can change it. *)
Theorem c03_roundtrip_one : forall r rest,
  wf_resp r = true ->
  bparse_all Initial (enc r ++ rest) = (Initial, rest, Complete (decoded r)).
Proof. exact roundtrip_one. Qed.

(* Several responses back to back, then anything: the segmentation-free reference run returns them
   one per receive, in order, and then continues on exactly the bytes that follow.  No hypothesis on
   [rest] is needed (it may be empty, garbage, or the beginning of a further response). *)
Theorem c03_roundtrip_stream : forall rs rest t fuel,
  Forall (fun r => wf_resp r = true) rs ->
  ref_run (length rs + fuel) (flat_map enc rs ++ rest) t =
  map (fun r => Resp (decoded r)) rs ++ ref_run fuel rest t.
Proof. exact roundtrip_stream. Qed.

(* in the words of DESIGN.md 3.C03 *)
Theorem c03_roundtrip_stream_firstn : forall rs rest t fuel,
  Forall (fun r => wf_resp r = true) rs -> (length rs <= fuel)%nat ->
  firstn (length rs) (ref_run fuel (flat_map enc rs ++ rest) t) = map (fun r => Resp (decoded r)) rs.
Proof. exact roundtrip_stream_firstn. Qed.

(* With C02 (c02_run_is_reference): the same for the modelled connections themselves, under EVERY
   segmentation of the stream into reads ([rd] is any list of non-empty chunks whose concatenation,
   after the bytes already buffered, is the stream) and for both flavours (blocking with any
   capacity >= 1 and its doubling, async). *)
Theorem c03_roundtrip_connection : forall rs rest fuel c rd,
  wf_reader rd -> pol_ok (c_policy c) (length (c_buf c)) -> c_state c = Initial ->
  stream (c_buf c) rd = flat_map enc rs ++ rest ->
  Forall (fun r => wf_resp r = true) rs ->
  run (length rs + fuel) 0 c rd = map (fun r => Resp (decoded r)) rs ++ ref_run fuel rest (rtail rd).
Proof. exact roundtrip_connection. Qed.

(* the one ambiguity of the wire format, excluded by [wf_shape]: the reply to an empty command list
   is the three bytes "OK\n" and is decoded as ONE empty frame *)
Theorem c03_empty_list_reply : forall rest,
  enc (mkAResp FList [] None None) = enc (mkAResp FSingle [mkAFrame [] None 0] None None) /\
  bparse_all Initial (enc (mkAResp FList [] None None) ++ rest) = (Initial, rest, Complete (mkResp [empty_frame] None)).
Proof. exact empty_list_reply_is_one_empty_frame. Qed.

(* non-vacuity: list form, three frames (look-alike values, a key "binary" whose value is not a
   numeral, a payload that contains protocol lines, NUL and 0xFF, written in the middle of the
   fields), then a partial frame that the client drops, then an ACK with all four error fields *)
Definition c03_ex_frame : aframe :=
  mkAFrame [(b "a", b "OK"); (b "b", b "list_OK"); (b "c", b "ACK [5@0] {} x"); (b "d", b "binary: 3"); (b "e", []);
            (b "f", [195; 164; 195; 182]); (b "binary", b "3x"); (b "binary", b "18446744073709551616"); (b "OK", b "OK")]
           (Some (b "OK" ++ [LF] ++ b "ACK" ++ [LF; 0; 255])) 4.
Definition c03_ex_resp : aresp :=
  mkAResp FList [c03_ex_frame; mkAFrame [] None 0; c03_ex_frame]
          (Some (mkErr 50 18446744073709551615 (Some (b "play")) (b "No such song"))) (Some c03_ex_frame).

Example c03_roundtrip_ex :
  wf_resp c03_ex_resp = true /\
  wf_resp (mkAResp FSingle [c03_ex_frame] None None) = true /\
  (* the line "binary: 3" as a FIELD is the exclusion *)
  wf_field (b "binary", b "3") = false /\ wf_field (b "binary", b "3x") = true /\
  firstn 39 (enc c03_ex_resp) = b "a: OK" ++ [LF] ++ b "b: list_OK" ++ [LF] ++ b "c: ACK [5@0] {} x" ++ [LF] ++ b "d: b" /\
  r_frames (decoded c03_ex_resp) = [dec_frame c03_ex_frame; empty_frame; dec_frame c03_ex_frame] /\
  forall rest, bparse_all Initial (enc c03_ex_resp ++ rest) = (Initial, rest, Complete (decoded c03_ex_resp)).
Proof.
  split; [vm_compute; reflexivity|]. split; [vm_compute; reflexivity|].
  split; [vm_compute; reflexivity|]. split; [vm_compute; reflexivity|].
  split; [vm_compute; reflexivity|]. split; [vm_compute; reflexivity|].
  intros rest. apply c03_roundtrip_one. vm_compute. reflexivity.
Qed.

(* ---------- non-consumption and incrementality for arbitrary (not only well-formed) streams ---------- *)

(* a response completed on a prefix of the stream is THE response, and the bytes after it are left
   untouched for the next receive — whatever those bytes are *)
Theorem c03_rest_not_consumed : forall buf st x st' rest r,
  bparse_all st buf = (st', rest, Complete r) ->
  bparse_all st (buf ++ x) = (st', rest ++ x, Complete r).
Proof.
  intros buf st x st' rest r B.
  pose proof (bparse_app (length buf) buf st x (le_n _)) as A. unfold app_verdict in A.
  rewrite B in A. exact A.
Qed.

(* decoding is incremental: feeding a prefix and then the remainder equals feeding everything *)
Theorem c03_incremental : forall buf st x st' rest,
  bparse_all st buf = (st', rest, NeedMore) ->
  bparse_all st (buf ++ x) = bparse_all st' (rest ++ x).
Proof.
  intros buf st x st' rest B.
  pose proof (bparse_app (length buf) buf st x (le_n _)) as A. unfold app_verdict in A.
  rewrite B in A. exact A.
Qed.

(* non-vacuity and the look-alike values of the property, by computation on the model *)
Example c03_ex :
  let s := b "a: OK" ++ [LF] ++ b "b: list_OK" ++ [LF] ++ b "c: ACK [5@0] {} x" ++ [LF] ++ b "d: binary: 3" ++ [LF] ++
           b "e: " ++ [LF] ++ b "binary: 10" ++ [LF] ++ b "OK" ++ [LF] ++ b "ACK" ++ [LF; 0; 255; LF] ++ [LF] ++
           b "list_OK" ++ [LF] ++ b "ACK [50@1] {play} No such song" ++ [LF] ++ b "next: 1" in
  ref_receive s TEof =
    (Resp (mkResp [mkFrame [(b "a", b "OK"); (b "b", b "list_OK"); (b "c", b "ACK [5@0] {} x"); (b "d", b "binary: 3"); (b "e", [])]
                           (Some (b "OK" ++ [LF] ++ b "ACK" ++ [LF; 0; 255; LF]))]
                  (Some (mkErr 50 1 (Some (b "play")) (b "No such song")))),
     b "next: 1").
Proof. vm_compute. reflexivity. Qed.

Print Assumptions c03_field_line.
Print Assumptions c03_binary_part.
Print Assumptions c03_error_line.
Print Assumptions c03_roundtrip_one.
Print Assumptions c03_roundtrip_stream.
Print Assumptions c03_roundtrip_stream_firstn.
Print Assumptions c03_roundtrip_connection.
Print Assumptions c03_empty_list_reply.
Print Assumptions c03_rest_not_consumed.
Print Assumptions c03_incremental.
