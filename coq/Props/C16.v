(* C16 — Status, stats, count, list, playlist and sticker replies decode faithfully.  Statements only.

   Spec side (TypedSpec.v, independent of the client): abstract replies with option fields and the
   encoder to the ordered field list MPD prints.  Code side (TypedModel.v): the decoders.  The
   theorems say: decoding the encoding of ANY well-formed abstract reply — in MPD's order or, where
   the decoder reads by key, in any permutation — returns exactly the abstract values; and, for
   arbitrary frames, a decoded status reflects field by field the first occurrence of each key, is
   absent exactly where the server omitted the field, and is an error whenever a value is outside
   its domain.

   Domain restrictions (stated in the wf predicates): durations are exact for whole seconds < 2^53 and for
   seconds.milliseconds < 2^22 s (TypedModel.exact_nanos: where f64 + round-to-nearest provably
   return the decimal; std's float code itself is trusted and differential-tested); timestamps are
   accepted in the canonical form YYYY-MM-DDTHH:MM:SSZ (chrono is an oracle elsewhere). *)
From Coq Require Import Permutation.
From MPD Require Import Bytes Tables BuilderModel FrameModel TagModel TypedModel TypedSpec TypedProofs.
Open Scope N_scope.

(* ---------- status ---------- *)

Theorem c16_status : forall s fields,
  wf_status s -> Permutation (enc_status s) fields -> exec status_prog fields = TOk (expected_status s).
Proof. exact status_roundtrip. Qed.

(* the decoder reads each key of Status::from_frame (list regenerated from the source) once, so it
   is a function of the first occurrence of each key, whatever the order of the reply *)
Theorem c16_status_reads_by_key : forall fields, exec status_prog fields = runL status_prog (s_find fields).
Proof. exact status_is_lookup. Qed.
Theorem c16_status_keys_are_source : status_keys = status_fields_read /\ NoDup status_fields_read.
Proof. split; [exact status_keys_are_source | exact status_keys_nodup]. Qed.

(* for EVERY frame: what a successful decode says about each field *)
Theorem c16_status_sound : forall fields r, exec status_prog fields = TOk r -> status_facts (s_find fields) r.
Proof. exact status_sound. Qed.

Theorem c16_status_absent_iff_omitted : forall fields r, exec status_prog fields = TOk r ->
  let omitted k := ~ In k (map fst fields) in
  (st_elapsed r = None <-> omitted (b "elapsed")) /\
  (st_bitrate r = None <-> omitted (b "bitrate")) /\
  (st_update_job r = None <-> omitted (b "updating_db")) /\
  (st_error r = None <-> omitted (b "error")) /\
  (st_partition r = None <-> omitted (b "partition")) /\
  (st_current_song r = None <-> omitted (b "song")) /\
  (st_next_song r = None <-> omitted (b "nextsong")) /\
  (st_duration r = None <-> omitted (b "duration") /\ omitted (b "Time")).
Proof. exact status_absent_iff. Qed.

(* a value outside the field's domain (first occurrence of the key) makes the result an error *)
Theorem c16_status_domain : forall fields k,
  In k [b "volume"; b "playlistlength"; b "playlist"; b "song"; b "songid"; b "nextsong"; b "nextsongid";
        b "bitrate"; b "updating_db"; b "state"; b "repeat"; b "random"; b "consume"; b "single";
        b "elapsed"; b "xfade"; b "duration"] ->
  forall v, s_find fields k = Some v ->
  (In k [b "volume"] -> parse_uint 8 v = None) ->
  (In k [b "playlist"] -> parse_uint 32 v = None) ->
  (In k [b "playlistlength"; b "song"; b "songid"; b "nextsong"; b "nextsongid"; b "bitrate"; b "updating_db"] -> parse_uint 64 v = None) ->
  (In k [b "state"] -> lookup_spelling playstate_spellings v = None) ->
  (In k [b "repeat"; b "random"; b "consume"] -> lookup_spelling bool_spellings v = None) ->
  (In k [b "single"] -> lookup_spelling single_spellings v = None) ->
  (In k [b "elapsed"; b "xfade"; b "duration"] -> forall d, parse_duration v k <> TOk d) ->
  (k = b "songid" -> s_find fields (b "song") <> None) -> (k = b "nextsongid" -> s_find fields (b "nextsong") <> None) ->
  exists e, exec status_prog fields = TErr e.
Proof. exact status_domain. Qed.

(* ---------- domains of the primitive readers ---------- *)

Theorem c16_uint_canonical_iff : forall bits n, parse_uint bits (render_dec n) = Some n <-> n < 2 ^ bits.
Proof. exact parse_uint_render_iff. Qed.
Theorem c16_uint_never_wraps : forall bits s n, parse_uint bits s = Some n -> n < 2 ^ bits.
Proof. exact parse_uint_sound. Qed.
Theorem c16_uint_overflow_is_error : forall bits n f, 2 ^ bits <= n -> from_uint bits (render_dec n) f = TErr (KInvalid f).
Proof. exact from_uint_overflow. Qed.
Theorem c16_bool_domain : forall v f x, from_bool v f = TOk x -> v = bool_wire x.
Proof. exact bool_domain. Qed.
Theorem c16_playstate_domain : forall v f i, from_playstate v f = TOk i -> exists x, v = playstate_wire x /\ i = playstate_ident x.
Proof. exact playstate_domain. Qed.
Theorem c16_single_domain : forall v f i, from_enum single_spellings v f = TOk i -> exists x, v = single_wire x /\ i = single_ident x.
Proof. exact single_domain. Qed.
Theorem c16_replay_gain_domain : forall v f i, from_replaygain v f = TOk i -> exists x, v = rgmode_wire x /\ i = rgmode_ident x.
Proof. exact rgmode_domain. Qed.
Theorem c16_duration_seconds : forall n f, n < 2 ^ 53 -> parse_duration (render_dec n) f = TOk (Some (n * 10 ^ 9)).
Proof. exact parse_duration_secs. Qed.
Theorem c16_duration_milliseconds : forall ms f, ms < 2 ^ 22 * 1000 -> parse_duration (ms_wire ms) f = TOk (Some (ms * 10 ^ 6)).
Proof. exact parse_duration_ms. Qed.

(* ---------- stats, count, ids, replay gain ---------- *)

Theorem c16_stats : forall s fields,
  wf_stats s -> Permutation (enc_stats s) fields -> exec stats_prog fields = TOk (expected_stats s).
Proof. exact stats_roundtrip. Qed.

Theorem c16_count : forall c fields,
  wf_count c -> Permutation (enc_count c) fields -> exec count_prog fields = TOk (c_songs c, secs_dur (c_playtime c)).
Proof. exact count_roundtrip. Qed.

(* any sequence of groups: repeated and changing group values, songs/playtime in either order *)
Theorem c16_count_grouped : forall tagname groups, Forall (fun g => wf_count (snd (fst g))) groups ->
  count_grouped tagname None [] (enc_count_grouped tagname groups) = TOk (map expected_group groups).
Proof. intros tagname groups H. exact (count_grouped_roundtrip tagname groups H []). Qed.

Theorem c16_update : forall job, job < 2 ^ 64 -> exec update_prog (enc_update job) = TOk job.
Proof. exact update_roundtrip. Qed.
Theorem c16_addid : forall id, id < 2 ^ 64 -> exec addid_prog (enc_addid id) = TOk id.
Proof. exact addid_roundtrip. Qed.
Theorem c16_replay_gain : forall m, exec replaygain_prog (enc_replay_gain m) = TOk (rgmode_ident m).
Proof. exact replay_gain_roundtrip. Qed.

(* ---------- list ---------- *)

Theorem c16_list : forall primary values, tag_rt primary ->
  tmap list_values (list_model primary [] (map (fun v => (tag_as_str primary, v)) values)) = TOk values.
Proof. exact list_plain_roundtrip. Qed.

(* grouped: the iterator yields, for each primary value, the latest value seen for each grouping
   tag — whichever header lines the server chose to print, as long as they keep the running group
   values equal to the row's (rows_ok) *)
Theorem c16_list_grouped : forall primary groups rows,
  tag_rt primary -> Forall tag_rt groups -> NoDup (map tag_as_str (primary :: groups)) ->
  rows_ok (length groups) (map (fun _ => []) groups) rows ->
  tbind (list_model primary groups (enc_list (tag_as_str primary) (map tag_as_str groups) rows)) grouped_values
  = TOk (map row_value rows).
Proof. exact list_grouped_roundtrip. Qed.

(* ---------- playlists, stickers, channels, messages, tag types, album art ---------- *)

Theorem c16_playlists : forall l, Forall (fun p => canonical_timestamp (snd p) = true) l ->
  playlists_model (enc_playlists l) = TOk l.
Proof. intros l H. exact (playlists_roundtrip l H []). Qed.

Theorem c16_sticker_get : forall name value, sticker_name_ok name ->
  sticker_get_model (enc_sticker_get name value) = TOk value.
Proof. exact sticker_get_roundtrip. Qed.
Theorem c16_sticker_list : forall l, Forall (fun p => sticker_name_ok (fst p)) l -> NoDup (map fst l) ->
  sticker_list_model (enc_sticker_list l) = TOk l.
Proof. intros l H ND. exact (sticker_list_roundtrip l H [] ND). Qed.
Theorem c16_sticker_find : forall name l, sticker_name_ok name -> NoDup (map fst l) ->
  sticker_find_model (enc_sticker_find name l) = TOk l.
Proof. intros name l H ND. exact (sticker_find_roundtrip name l H [] [] ND). Qed.

Theorem c16_channels : forall l, channels_model (enc_channels l) = TOk l.
Proof. exact channels_roundtrip. Qed.
Theorem c16_messages : forall l, messages_model (enc_messages l) = TOk l.
Proof. exact messages_roundtrip. Qed.
Theorem c16_tagtypes : forall names tags, Forall2 (fun n t => tag_try_from n = TagOk t) names tags ->
  tagtypes_model (enc_tagtypes names) = TOk tags.
Proof. exact tagtypes_roundtrip. Qed.
Theorem c16_albumart : forall size mime data, size < 2 ^ 64 ->
  albumart_model (mkFrame (enc_fields [(b "size", Some (render_dec size)); (b "type", mime)]) (Some data))
  = TOk (Some (size, mime, data)).
Proof. exact albumart_roundtrip. Qed.

(* ---------- non-vacuity ---------- *)

Definition ex_status : status :=
  mkSt (Some 100) true false SingleOneshot false (Some (b "default")) 7 3 (Some (b "0.000000")) SPlay (Some 5) None
       (Some (1, 9)) (Some (b "12:200")) (Some 12345) (Some 320) (Some 200000) (Some (b "44100:16:2")) (Some 4)
       (Some (b "oops")) None.
Example c16_ex_wf : wf_status ex_status.
Proof.
  unfold wf_status, opt_lt, pair_lt, ex_status; cbn.
  repeat split; intros; repeat match goal with H : Some _ = Some _ |- _ => inversion H; clear H; subst end;
    try discriminate; cbn; try reflexivity.
Qed.
Example c16_ex_status : exec status_prog (rev (enc_status ex_status)) = TOk (expected_status ex_status)
                        /\ st_update_job (expected_status ex_status) = Some 4
                        /\ st_elapsed (expected_status ex_status) = Some (Some 12345000000).
Proof. repeat split; vm_compute; reflexivity. Qed.
Example c16_ex_sticker : sticker_get_model (enc_sticker_get (b "rating") (b "a=b=c")) = TOk (b "a=b=c").
Proof. vm_compute. reflexivity. Qed.
Example c16_ex_list_grouped :
  let rows : list list_row :=
    [ ([(1%nat, b "Foo"); (0%nat, b "Bar")], b "T1", [b "Bar"; b "Foo"]); ([], b "T2", [b "Bar"; b "Foo"]);
      ([(0%nat, b "Quz")], b "T3", [b "Quz"; b "Foo"]); ([(1%nat, b "Asdf"); (0%nat, b "Qwert")], b "T4", [b "Qwert"; b "Asdf"]) ] in
  rows_ok 2 [[]; []] rows /\
  tbind (list_model (Named T_Title) [Named T_Album; Named T_AlbumArtist]
           (enc_list (b "Title") [b "Album"; b "AlbumArtist"] rows)) grouped_values
  = TOk [(b "T1", [b "Bar"; b "Foo"]); (b "T2", [b "Bar"; b "Foo"]); (b "T3", [b "Quz"; b "Foo"]); (b "T4", [b "Qwert"; b "Asdf"])].
Proof. split; [cbn; repeat split; repeat constructor|vm_compute; reflexivity]. Qed.
Example c16_ex_count_grouped :
  count_grouped (b "Album") None [] (enc_count_grouped (b "Album") [(b "a", mkCount 1 2, false); (b "a", mkCount 3 4, true)])
  = TOk [(b "a", (1, Some 2000000000)); (b "a", (3, Some 4000000000))].
Proof. vm_compute. reflexivity. Qed.
Example c16_ex_domain : exists e, exec status_prog [(b "state", b "play"); (b "repeat", b "1"); (b "random", b "0"); (b "consume", b "0"); (b "volume", b "256")] = TErr e.
Proof. eexists. vm_compute. reflexivity. Qed.

Print Assumptions c16_status.
Print Assumptions c16_status_reads_by_key.
Print Assumptions c16_status_keys_are_source.
Print Assumptions c16_status_sound.
Print Assumptions c16_status_absent_iff_omitted.
Print Assumptions c16_status_domain.
Print Assumptions c16_uint_canonical_iff.
Print Assumptions c16_uint_never_wraps.
Print Assumptions c16_uint_overflow_is_error.
Print Assumptions c16_bool_domain.
Print Assumptions c16_playstate_domain.
Print Assumptions c16_single_domain.
Print Assumptions c16_replay_gain_domain.
Print Assumptions c16_duration_seconds.
Print Assumptions c16_duration_milliseconds.
Print Assumptions c16_stats.
Print Assumptions c16_count.
Print Assumptions c16_count_grouped.
Print Assumptions c16_update.
Print Assumptions c16_addid.
Print Assumptions c16_replay_gain.
Print Assumptions c16_list.
Print Assumptions c16_list_grouped.
Print Assumptions c16_playlists.
Print Assumptions c16_sticker_get.
Print Assumptions c16_sticker_list.
Print Assumptions c16_sticker_find.
Print Assumptions c16_channels.
Print Assumptions c16_messages.
Print Assumptions c16_tagtypes.
Print Assumptions c16_albumart.
