(* C13 — command lists are framed as one batch and typed replies pair positionally.  Statements only. *)
From Coq Require Import Arith.
From MPD Require Import Bytes Tables BuilderModel CommandModel CommandProofs LoopModel CallerModel CallerProofs.
Open Scope N_scope.

(* framing: N <> 1 commands are one command_list_ok_begin .. command_list_end block holding the N
   lines in order; one command is that bare line (for every list of LF-free commands, C07) *)
Theorem c13_framing_list : forall cmds,
  Forall no_lf cmds -> length cmds <> 1%nat ->
  lines (render_list cmds) = [b "command_list_ok_begin"] ++ cmds ++ [b "command_list_end"].
Proof. exact lines_render_list. Qed.

Theorem c13_framing_single : forall c, no_lf c -> lines (render_list [c]) = [c].
Proof. exact lines_render_single. Qed.

(* an empty typed list writes nothing and yields the empty result *)
Theorem c13_empty : typed_list_start [] = LSNothing /\ vec_responses [] [] = TROk [].
Proof. exact empty_list_sends_nothing. Qed.

(* Vec: the i-th typed value is decoded by the i-th command from the i-th frame *)
Theorem c13_vec_pairing : forall cmds frames l,
  vec_responses cmds frames = TROk l ->
  length frames = length cmds /\ length l = length cmds /\
  forall i c, nth_error cmds i = Some c ->
    exists f v, nth_error frames i = Some f /\ nth_error l i = Some v /\ any_response c f = Some v.
Proof. exact vec_pairing. Qed.

(* tuples: the index lists of every impl_command_list_tuple! invocation (regenerated from the
   source) are 0..n-1 in order, hence every arity decodes positionally like the vector *)
Theorem c13_tuple_indices : tuple_impls = map (fun n => seq 0 n) [1; 2; 3; 4; 5; 6; 7; 8]%nat.
Proof. exact tuple_impls_are_identity. Qed.

Theorem c13_tuple_pairing : forall cmds frames,
  (1 <= length cmds <= 8)%nat ->
  tuple_responses cmds frames =
  match zip_decode cmds frames with Some l => TROk l | None => TRErr CRTyped end.
Proof. exact tuple_is_positional. Qed.

Example c13_ex :
  let f := fun n => mkFrame [(b "updating_db", render_dec n)] None in
  tuple_responses [AUpd (b "a"); AStop; AResc (b "c")] [f 7; empty_frame; f 9] = TROk [Some 7; None; Some 9] /\
  vec_responses [AUpd (b "a"); AResc (b "c")] [f 7] = TRErr CRTyped.
Proof. split; vm_compute; reflexivity. Qed.

Print Assumptions c13_framing_list.
Print Assumptions c13_empty.
Print Assumptions c13_vec_pairing.
Print Assumptions c13_tuple_indices.
Print Assumptions c13_tuple_pairing.
