(* C15 — predefined commands render to the documented MPD request for all parameters.
   Statements only.  [model]/[run_predef] (CommandsModel.v) is the code side: one function per
   `impl Command`, one constructor of [predef] per public constructor/builder path; [spec]/[sat]
   (CommandsSpec.v) is the MPD reference side: command word, argument positions, meanings. *)
From MPD Require Import Bytes Tables TagModel CommandModel MpdTokenizer EscapeProofs
                        CommandsParams CommandsModel CommandsSpec CommandsProofs.
Open Scope N_scope.

(* (d) every constructor path, all parameter values: the constructor panics exactly where the
   documentation says so; otherwise the command word is the documented one and the arguments are,
   in number and order, the documented ones, each token carrying the meaning of the Rust value:
   numbers numerically, ranges and single positions as the same set of queue positions (below
   usize::MAX), relative positions with their sign, times within the millisecond rounding,
   booleans/keywords/enum spellings literally, strings/tags/filters as that one token. *)
Theorem c15_all : forall x : predef, params_in_domain x ->
  match model x, spec x with
  | None, None => True
  | Some (w, args), Some (w', ms) => w = w' /\ Forall2 sat ms (map arg_token args)
  | _, _ => False
  end.
Proof. exact model_meets_spec. Qed.

(* (a) positions and ranges: all nine combinations of Rust bounds, every endpoint value, every
   position below usize::MAX: membership in the Rust range = membership in what MPD reads from
   the rendered START:END / START: (saturating_add written out as min (x+1) (2^64-1)) *)
Theorem c15_range : forall (lo hi : bound),
  exists f, denote_range (render_range (song_range_new lo hi)) = Some f /\
            forall p, p < 2 ^ 64 - 1 -> f p = in_rust_range lo hi p.
Proof. exact range_denotes. Qed.

(* (b) Delete::position / Move::position: pos..=pos denotes exactly {pos} *)
Theorem c15_position : forall p,
  exists f, denote_range (render_range (song_range_new (Included p) (Included p))) = Some f /\
            forall q, q < 2 ^ 64 - 1 -> f q = (q =? p).
Proof. exact position_denotes. Qed.

(* empty and inverted ranges denote the empty set on both sides *)
Theorem c15_range_empty_or_inverted : forall a z p, z <= a -> p < 2 ^ 64 - 1 ->
  in_rust_range (Included a) (Excluded z) p = false /\
  exists f, denote_range (render_range (song_range_new (Included a) (Excluded z))) = Some f /\ f p = false.
Proof. exact range_empty_or_inverted. Qed.

(* saturation at usize::MAX instead of wrapping to 0 *)
Theorem c15_range_saturates : forall p, p < 2 ^ 64 - 1 ->
  exists f, denote_range (render_range (song_range_new Unbounded (Included (2 ^ 64 - 1)))) = Some f /\ f p = true.
Proof. exact range_saturates. Qed.

(* (c) SetVolume: what is sent is min v 100, inside MPD's domain, and v itself when v is in it *)
Theorem c15_volume : forall v,
  N.min v volume_max <= 100 /\ N.min v volume_max = (if v <=? 100 then v else 100) /\
  (v <= 100 -> N.min v volume_max = v).
Proof. exact volume_clamped. Qed.

(* (f) durations, the WHOLE domain of Duration (secs < 2^64, nanos < 10^9): the text written by
   `{:.3}` of as_secs_f64 — modelled on exact integers: nearest double (53-bit significand, ties
   to even) of secs, of nanos/1e9 and of their sum, then the exact value rounded half-even to three
   decimals — reads back as a millisecond count ms with
       | ms*10^6 - (secs*10^9 + nanos) |  <=  500000 + (secs*10^9 + nanos)/2^52 + 2   (nanoseconds),
   i.e. half a millisecond plus the relative precision of a double (below 1 microsecond for
   secs < 2^32). *)
Theorem c15_duration : forall secs nanos, secs < 2 ^ 64 /\ nanos < 1000000000 ->
  exists ms, denote_time_ms (render_duration secs nanos) = Some ms /\ time_close secs nanos ms = true.
Proof. exact duration_close. Qed.

(* (e) one token per argument: for every constructor path whose caller-supplied strings are
   outside C06's recorded class K and free of LF/NUL, whose raw-written tags consist of bytes the
   unquoted form carries (all named tags do) and whose filter values hold no double quote (C11's
   recorded finding): the call does not panic and MPD's tokenizer splits the written line into the
   command word and exactly the argument tokens — each string parameter the very bytes given *)
Theorem c15_one_token_per_argument : forall x q,
  model x = Some q -> Forall input_ok (inputs x) ->
  exists w, run_predef x = Sent w /\ mpd_tokenize w = Some (fst q :: map arg_token (snd q)).
Proof. exact predef_tokenizes. Qed.

(* the same for ANY request made of escaped strings, plain raw renderings and filters *)
Theorem c15_request_tokenizes : forall name args,
  wf_bytes name -> build name = inr name -> Forall user_ok args ->
  exists w, render_request (name, args) = Sent w /\ mpd_tokenize w = Some (name :: map arg_token args).
Proof. exact tokenize_request. Qed.

(* a call panics only where that is documented: the constructor (Move::range with an open end,
   TagTypes::enable/disable of an empty list) or an argument holding LF/NUL (C07) *)
Theorem c15_panics_only_documented : forall x,
  run_predef x = Panic ->
  spec x = None \/
  exists q a, model x = Some q /\ In a (snd q) /\ Exists (fun c => argument_reject c = true) (arg_rendered a).
Proof. exact predef_panics_only_documented. Qed.

(* the RawCommand::new literals of definitions.rs (regenerated into Tables.v on every run) are
   exactly the documented command words, and the builder accepts each *)
Theorem c15_command_words :
  forallb (fun w => existsb (beq w) documented_words) predefined_command_words = true /\
  forallb (fun w => existsb (beq w) predefined_command_words) documented_words = true /\
  forallb builds documented_words = true.
Proof. exact source_words_are_documented. Qed.

(* enum spellings, from the regenerated match tables *)
Theorem c15_single_spellings :
  single_str SingleDisabled = b "0" /\ single_str SingleEnabled = b "1" /\ single_str SingleOneshot = b "oneshot".
Proof. exact single_spellings_documented. Qed.
Theorem c15_replay_gain_spellings :
  rg_str RgOff = b "off" /\ rg_str RgTrack = b "track" /\ rg_str RgAlbum = b "album" /\ rg_str RgAuto = b "auto".
Proof. exact replay_gain_spellings_documented. Qed.

(* pins of the hand-modelled renderers that the translator decides over a complete finite universe
   (saturation of x+1 at usize::MAX; Tag's raw rendering), regenerated from the repository on every run.
   The text formats "{}:{}" and "{:.3}" of as_secs_f64 are tripwires in the evidence, not statements:
   the correspondence run and the oracle decide them on every run. *)
Theorem c15_renderer_pins :
  range_saturating = true /\ pin_tag_argument = true.
Proof. exact renderer_pins. Qed.

(* numbers are talked about numerically: reading a rendered numeral gives the number back *)
Theorem c15_decimal : forall n,
  dec_value (render_dec n) = n /\ forallb is_digit (render_dec n) = true /\ render_dec n <> [].
Proof. exact render_dec_spec. Qed.

(* every named tag is written as bytes the unquoted form carries *)
Theorem c15_named_tags_plain : forallb (fun v => plain (tag_name v)) all_tagv = true.
Proof. exact named_tags_plain. Qed.

(* ---------- non-vacuity ---------- *)

Definition ex_filter : sfilter := mk_filter (Named T_Artist) Op_Equal (b "AC\DC live") false.
Definition ex_find : predef := PFind ex_filter (Some (Named T_Album)) (Some (Unbounded, Included 5)).

Example c15_ex_find :
  Forall input_ok (inputs ex_find) /\
  run_predef ex_find = Sent (b "find ""(Artist == \""AC\\\\DC live\"")"" sort Album window 0:6" ++ [LF]) /\
  mpd_tokenize (b "find ""(Artist == \""AC\\\\DC live\"")"" sort Album window 0:6" ++ [LF])
  = Some [b "find"; b "(Artist == ""AC\\DC live"")"; b "sort"; b "Album"; b "window"; b "0:6"].
Proof.
  split; [|split; vm_compute; reflexivity].
  repeat constructor; try (vm_compute; reflexivity); intro; discriminate.
Qed.

Example c15_ex_strings :
  let x := PStickerSet (b "dir/my song.flac") (b "rating") (b "say ""5""  ") in
  Forall input_ok (inputs x) /\
  exists w, run_predef x = Sent w /\
            mpd_tokenize w = Some [b "sticker"; b "set"; b "song"; b "dir/my song.flac"; b "rating"; b "say ""5""  "].
Proof.
  split; [repeat constructor; try (vm_compute; reflexivity); intro; discriminate|].
  eexists. split; vm_compute; reflexivity.
Qed.

Example c15_ex_ranges :
  render_range (song_range_new (Included 3) (Included 7)) = b "3:8" /\
  render_range (song_range_new (Excluded 3) Unbounded) = b "4:" /\
  render_range (song_range_new (Excluded (2 ^ 64 - 1)) (Included (2 ^ 64 - 1))) = b "18446744073709551615:18446744073709551615" /\
  render_range (song_range_new (Included 7) (Excluded 3)) = b "7:3" /\
  (exists f, denote_range (b "3:8") = Some f /\ f 2 = false /\ f 3 = true /\ f 7 = true /\ f 8 = false).
Proof. repeat split; try (vm_compute; reflexivity). eexists. repeat split; vm_compute; reflexivity. Qed.

Example c15_ex_durations :
  render_duration 0 500000 = b "0.001" /\ render_duration 1 500000 = b "1.000" /\
  render_duration 0 62500000 = b "0.062" /\ render_duration 2 345670000 = b "2.346" /\
  render_duration (2 ^ 64 - 1) 999999999 = b "18446744073709551616.000" /\
  run_predef (PSeek SeekBackward 1 999500000) = Sent (b "seekcur -2.000" ++ [LF]).
Proof. repeat split; vm_compute; reflexivity. Qed.

Example c15_ex_panics :
  run_predef (PMove (MfRange (Included 1) Unbounded) (Absolute 3)) = Panic /\
  spec (PMove (MfRange (Included 1) Unbounded) (Absolute 3)) = None /\
  run_predef (PTagTypesEnable []) = Panic /\ spec (PTagTypesEnable []) = None /\
  run_predef (PClearPlaylist [97; LF; 98]) = Panic /\
  run_predef (PSetVolume 255) = Sent (b "setvol 100" ++ [LF]).
Proof. repeat split; vm_compute; reflexivity. Qed.

Print Assumptions c15_all.
Print Assumptions c15_range.
Print Assumptions c15_position.
Print Assumptions c15_range_empty_or_inverted.
Print Assumptions c15_range_saturates.
Print Assumptions c15_volume.
Print Assumptions c15_duration.
Print Assumptions c15_one_token_per_argument.
Print Assumptions c15_request_tokenizes.
Print Assumptions c15_panics_only_documented.
Print Assumptions c15_command_words.
Print Assumptions c15_single_spellings.
Print Assumptions c15_replay_gain_spellings.
Print Assumptions c15_renderer_pins.
Print Assumptions c15_decimal.
Print Assumptions c15_named_tags_plain.
