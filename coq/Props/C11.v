(* C11 — filter expressions mean on the server what was built on the client.  Statements only.

   Code side: FilterModel.v (the FilterType tree, the public constructors, rendering; operator
   spellings and the replacement list of escape_filter_value regenerated into Tables.v).
   Spec side: MpdTokenizer.v (MPD's request tokenizer) and MpdFilter.v (MPD's filter grammar, with the
   flag [lenient] for the one point of the grammar the port is unsure of; everything is proved for
   both values).  [shape_of f] is the expression [f] denotes: same tags (protocol names), same
   operators, same nesting, byte-identical values. *)
From MPD Require Import Bytes Tables TagModel CommandModel MpdTokenizer MpdFilter FilterModel CommandProofs EscapeProofs FilterProofs.
Open Scope N_scope.

(* (a) What the public constructors guarantee: every AND list is flat (no AND directly inside an AND)
   and has at least two items; conversely every such tree can be built.  Hence the
   assert!(inner.len() >= 2) of FilterType::render never fires on a filter built through the API. *)
Theorem c11_and_inv : forall f, built f <-> wfb f = true.
Proof. intros f. split; [apply built_wf | apply wf_built]. Qed.

Theorem c11_render_never_panics : forall f, built f -> render_filter f = Rendered ([DQ] ++ render_ftype f ++ [DQ]).
Proof. intros f H. unfold render_filter. rewrite (wf_and_ok f (built_wf f H)). reflexivity. Qed.

(* (b) The round trip.  For every filter built through the API whose tags are MPD words, whose values
   hold no double quote (the witnessed failing class, c11_refuted_quote) and are shorter than MPD's
   4096-byte buffer for a quoted value, and which Command::argument accepted (it panics on LF / NUL):
   MPD's tokenizer splits the written line into the command name and ONE argument e, and MPD's filter
   grammar reads e, completely, as the expression that was built. *)
Theorem c11_roundtrip : forall lenient name c0 c f,
  wf_bytes name -> build name = inr c0 ->
  built f -> Forall value_ok (leaves f) ->
  argument_filter c0 f = Sent c ->
  exists e, mpd_tokenize (send_bytes c) = Some [name; e] /\
            mpd_parse_filter_gen lenient e = Some (shape_of f, []).
Proof.
  intros lenient name c0 c f Wn Hb Hf Hv Hs. exists (inner_text f).
  apply (filter_roundtrip lenient name c0 c f Wn Hb (built_wf f Hf) Hv Hs).
Qed.

(* the same with the grammar exactly as ported *)
Theorem c11_roundtrip_mpd : forall name c0 c f,
  wf_bytes name -> build name = inr c0 ->
  built f -> Forall value_ok (leaves f) ->
  argument_filter c0 f = Sent c ->
  exists e, mpd_tokenize (send_bytes c) = Some [name; e] /\ mpd_parse_filter e = Some (shape_of f, []).
Proof. exact (c11_roundtrip false). Qed.

(* Command::argument accepts the filter exactly as rendered whenever no value holds LF or NUL (where it
   panics, as documented); so the round trip needs no hypothesis about sending: *)
Theorem c11_roundtrip_clean : forall lenient name c0 f,
  wf_bytes name -> build name = inr c0 ->
  built f -> Forall value_ok (leaves f) ->
  Forall (fun tv => Forall (fun x => x < 256 /\ x <> LF /\ x <> 0) (snd tv)) (leaves f) ->
  exists c e, argument_filter c0 f = Sent c /\
              mpd_tokenize (send_bytes c) = Some [name; e] /\
              mpd_parse_filter_gen lenient e = Some (shape_of f, []).
Proof.
  intros lenient name c0 f Wn Hb Hf Hv Hc.
  pose proof (sent_when_clean c0 f (built_wf f Hf) Hv Hc) as S.
  eexists. exists (inner_text f). split; [exact S|].
  apply (filter_roundtrip lenient name c0 _ f Wn Hb (built_wf f Hf) Hv S).
Qed.

(* The filter among other string arguments (list <tag> <filter>, count <filter> group <tag>, find <filter>
   sort <tag> window <range>): MPD sees the name, the arguments before, ONE argument for the filter, the
   arguments after, and reads that one argument back as the expression.  [K] is C06's failing class. *)
Theorem c11_roundtrip_args : forall lenient name pre post b0 c0 c1 c f,
  wf_bytes name -> Forall wf_bytes pre -> Forall wf_bytes post ->
  Forall (fun a => K a = false) pre -> Forall (fun a => K a = false) post ->
  build name = inr b0 -> add_all_str b0 pre = Some c0 ->
  built f -> Forall value_ok (leaves f) -> argument_filter c0 f = Sent c1 ->
  add_all_str c1 post = Some c ->
  exists e, mpd_tokenize (send_bytes c) = Some (name :: pre ++ [e] ++ post) /\
            mpd_parse_filter_gen lenient e = Some (shape_of f, []).
Proof.
  intros lenient name pre post b0 c0 c1 c f Wn Wpre Wpost Kpre Kpost Hb Hpre Hf Hv Hs Hpost.
  exists (inner_text f).
  apply (filter_roundtrip_args lenient name pre post b0 c0 c1 c f Wn Wpre Wpost Kpre Kpost Hb Hpre (built_wf f Hf) Hv Hs Hpost).
Qed.

(* tags: every named variant, and everything Tag::try_from accepts, is an MPD word *)
Theorem c11_tags_valid : (forall v, valid_tagb (Named v) = true) /\
  (forall s t, wf_bytes s -> tag_try_from s = TagOk t -> valid_tagb t = true).
Proof. split; [exact named_valid | exact try_from_valid]. Qed.

(* The two layers separately.  What is written between the argument's quotes is the inner text
   escaped once (this is where the double quote fails) ... *)
Theorem c11_render_is_outer_escape : forall f,
  Forall (fun tv => valid_tagb (fst tv) = true /\ no_dq (snd tv) = true) (leaves f) ->
  render_ftype f = esc (inner_text f).
Proof. exact render_is_outer_escape. Qed.

(* ... both of MPD's unquoting steps undo that escaping on EVERY byte string ... *)
Theorem c11_unquote_layers : forall a,
  (forall tail, sep_tail tail -> string_body (esc a ++ DQ :: tail) = Some (a, strip_left tail)) /\
  (forall tail, quoted_body DQ (esc a ++ DQ :: tail) = Some (a, tail)).
Proof. intros a. split; [apply string_body_esc | apply quoted_body_esc]. Qed.

(* ... and the grammar reads the inner text of every tree back, for ALL values (quotes included). *)
Theorem c11_grammar_reads_inner_text : forall lenient f,
  built f -> Forall leaf_ok (leaves f) ->
  mpd_parse_filter_gen lenient (inner_text f) = Some (shape_of f, []).
Proof. intros lenient f H. apply parse_filter_inner_text. apply built_wf. exact H. Qed.

(* (c) Flattening changes the shape only up to associativity of AND: [and] is conjunction and is
   associative on the nose; negate is negation; exists / absent are the documented tests against the empty value. *)
Theorem c11_and_assoc : forall leaf a c,
  eval leaf (shape_of (filter_and a c)) = eval leaf (shape_of a) && eval leaf (shape_of c).
Proof. exact eval_filter_and. Qed.

Theorem c11_and_associative : forall a c d, filter_and (filter_and a c) d = filter_and a (filter_and c d).
Proof. exact filter_and_assoc. Qed.

Theorem c11_negate : forall leaf a, eval leaf (shape_of (filter_negate a)) = negb (eval leaf (shape_of a)).
Proof. exact eval_filter_negate. Qed.

Theorem c11_exists_absent : forall t,
  shape_of (filter_tag_exists t) = FLeaf (tag_as_str t) FNe [] /\
  shape_of (filter_tag_absent t) = FLeaf (tag_as_str t) FEq [] /\
  forall v, shape_of (filter_tag t v) = FLeaf (tag_as_str t) FEq v.
Proof. intros t. repeat split. Qed.

(* (d) The failing class is real.  The literal pinned by mpd_client::filter::tests::filter_escaping,
   the value foo's bar followed by a double quote: the written line is rejected by MPD's tokenizer (the
   quote is rendered as two backslashes and a quote, which closes the argument early), although the
   correctly escaped text would be read back. *)
Definition quote_witness : ftype := filter_tag (Named T_Artist) (b "foo's bar" ++ [DQ]).

Theorem c11_refuted_quote :
  built quote_witness /\ ~ Forall value_ok (leaves quote_witness) /\
  (exists c, argument_filter (b "find") quote_witness = Sent c /\ mpd_tokenize (send_bytes c) = None) /\
  render_ftype quote_witness <> esc (inner_text quote_witness) /\
  mpd_tokenize (send_bytes (b "find " ++ [DQ] ++ esc (inner_text quote_witness) ++ [DQ]))
    = Some [b "find"; inner_text quote_witness].
Proof.
  split; [apply built_tag|]. split.
  - intros H. inversion H as [|? ? (_ & D & _) _]; subst. vm_compute in D. discriminate.
  - split; [eexists; split; vm_compute; reflexivity|]. split; [vm_compute; discriminate | vm_compute; reflexivity].
Qed.

(* ... and the class is EXACT: every filter (built through the API, MPD-word tags, accepted by
   Command::argument) with a double quote in some value is rejected by MPD's tokenizer; so, among the
   filters that were sent and respect MPD's length limit, the server reads back what was built if and
   only if no value holds a double quote. *)
Theorem c11_quote_always_rejected : forall name c0 c f,
  wf_bytes name -> build name = inr c0 ->
  built f -> Forall (fun tv => valid_tagb (fst tv) = true) (leaves f) ->
  has_dq f = true ->
  argument_filter c0 f = Sent c ->
  mpd_tokenize (send_bytes c) = None.
Proof. intros name c0 c f Wn Hb Hf. apply (dquote_rejected name c0 c f Wn Hb (built_wf f Hf)). Qed.

Theorem c11_roundtrip_iff : forall lenient name c0 c f,
  wf_bytes name -> build name = inr c0 -> built f ->
  Forall leaf_ok (leaves f) ->
  argument_filter c0 f = Sent c ->
  ((exists e, mpd_tokenize (send_bytes c) = Some [name; e] /\ mpd_parse_filter_gen lenient e = Some (shape_of f, []))
   <-> has_dq f = false).
Proof. intros lenient name c0 c f Wn Hb Hf. apply (roundtrip_iff lenient name c0 c f Wn Hb (built_wf f Hf)). Qed.

(* non-vacuity: and / negate / exists nested, all three associations of and, values with blanks,
   parentheses, the word AND, a single quote, backslashes, non-ASCII bytes and the empty value *)
Definition ex_filter : ftype :=
  filter_and
    (filter_and (filter_tag (Named T_Artist) (b "a b"))
                (filter_negate (filter_and (filter_new (Named T_Album) Op_Contain (b "(x) AND 'y'"))
                                           (filter_tag_exists tag_any))))
    (filter_and (filter_new (Named T_Title) Op_Match [92; 195; 169; 92; 92])
                (filter_and (filter_tag_absent (Other (b "x-y_Z"))) (filter_new (Named T_Genre) Op_NotMatch (b " ) AND ( ")))).

Example c11_ex :
  built ex_filter /\ Forall value_ok (leaves ex_filter) /\
  exists c e, argument_filter (b "find") ex_filter = Sent c /\
              mpd_tokenize (send_bytes c) = Some [b "find"; e] /\
              mpd_parse_filter e = Some (shape_of ex_filter, []) /\
              mpd_parse_filter_gen true e = Some (shape_of ex_filter, []).
Proof.
  split; [repeat (first [apply built_and | apply built_negate | apply built_new])|].
  split; [repeat constructor|].
  do 2 eexists. split; [vm_compute; reflexivity|]. repeat split; vm_compute; reflexivity.
Qed.

(* the filter inside list <tag> <filter> and count <filter> group <tag> *)
Example c11_ex_args :
  exists c0 c1 c e, add_all_str (b "list") [b "Album"] = Some c0 /\ argument_filter c0 ex_filter = Sent c1 /\
    add_all_str c1 [b "group"; b "Artist"] = Some c /\
    mpd_tokenize (send_bytes c) = Some [b "list"; b "Album"; e; b "group"; b "Artist"] /\
    mpd_parse_filter e = Some (shape_of ex_filter, []).
Proof. do 4 eexists. repeat split; vm_compute; reflexivity. Qed.

(* the exact class, non-vacuously: a quote deep inside a nested filter, followed by a blank *)
Example c11_ex_quote :
  let f := filter_and (filter_tag (Named T_Album) (b "x")) (filter_negate (filter_tag (Named T_Title) (b "a" ++ [DQ] ++ b " b"))) in
  built f /\ has_dq f = true /\ Forall leaf_ok (leaves f) /\
  exists c, argument_filter (b "find") f = Sent c /\ mpd_tokenize (send_bytes c) = None.
Proof.
  cbv zeta. split; [repeat (first [apply built_and | apply built_negate | apply built_new])|].
  split; [reflexivity|]. split; [repeat constructor|]. eexists. split; vm_compute; reflexivity.
Qed.

Print Assumptions c11_and_inv.
Print Assumptions c11_render_never_panics.
Print Assumptions c11_roundtrip.
Print Assumptions c11_roundtrip_mpd.
Print Assumptions c11_roundtrip_clean.
Print Assumptions c11_roundtrip_args.
Print Assumptions c11_tags_valid.
Print Assumptions c11_render_is_outer_escape.
Print Assumptions c11_unquote_layers.
Print Assumptions c11_grammar_reads_inner_text.
Print Assumptions c11_and_assoc.
Print Assumptions c11_and_associative.
Print Assumptions c11_negate.
Print Assumptions c11_exists_absent.
Print Assumptions c11_refuted_quote.
Print Assumptions c11_quote_always_rejected.
Print Assumptions c11_roundtrip_iff.
Print Assumptions c11_ex.
Print Assumptions c11_ex_args.
Print Assumptions c11_ex_quote.
