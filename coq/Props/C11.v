(* C11 — filter expressions mean on the server what was built on the client.  Statements only. *)
From MPD Require Import Bytes Tables TagModel CommandModel MpdTokenizer MpdFilter FilterModel CommandProofs EscapeProofs FilterProofs.
Open Scope N_scope.

(* the literal pinned by mpd_client::filter::tests::filter_escaping: MPD's tokenizer rejects the line *)
Theorem c11_refuted_quote :
  argument_filter (b "find") (filter_tag (Named T_Artist) (b "foo's bar" ++ [DQ])) =
    Sent (b "find " ++ [DQ] ++ b "(Artist == \" ++ [DQ] ++ b "foo's bar\\" ++ [DQ; BS; DQ; 41; DQ]) /\
  mpd_tokenize (send_bytes (b "find " ++ [DQ] ++ b "(Artist == \" ++ [DQ] ++ b "foo's bar\\" ++ [DQ; BS; DQ; 41; DQ])) = None.
Proof. split; vm_compute; reflexivity. Qed.

Print Assumptions c11_refuted_quote.
