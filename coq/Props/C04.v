(* C04 — subsystem-change notifications are delivered exactly once and in order.  Statements only. *)
From MPD Require Import Bytes Tables ParserModel BuilderModel ConnModel ConnProofs LoopModel LoopProofs LoopSpec LoopSpecProofs ServerModel DriverLoop LoopRefine LoopRefineProofs LoopCancel LoopCancelProofs LoopMute LoopMuteProofs.
Open Scope N_scope.

(* for EVERY schedule: the names delivered as events, followed by the names in replies still on
   their way to the client, are exactly the names the server has written in changed: lines *)
Theorem c04_exactly_once : forall reply_fn sch,
  Forall wf_label sch ->
  a_delivered (arun reply_fn sch) ++ flat_map names_of (a_s2c (arun reply_fn sch)) = a_reported (arun reply_fn sch).
Proof. exact exactly_once. Qed.

Theorem c04_quiescent : forall reply_fn sch,
  Forall wf_label sch -> a_s2c (arun reply_fn sch) = [] ->
  a_delivered (arun reply_fn sch) = a_reported (arun reply_fn sch).
Proof. exact quiescent_all_delivered. Qed.

(* one event per changed field, in order, carrying the name verbatim (Subsystem::from_frame) *)
Theorem c04_every_changed_field : forall ns, changed_of (idle_frame ns) = ns.
Proof. exact changed_idle_frame. Qed.

(* events come only from the changed fields of the reply being handled: none is invented *)
Theorem c04_no_invention : forall wf p i p' outs n,
  cstep wf p i = (p', outs) -> In (OEvent n) outs ->
  exists r f, i = InRecv (RResp r) /\ single_frame r = Some (inl f) /\ In n (changed_of f).
Proof. exact events_come_from_reply. Qed.

(* why a receive may be treated as atomic although the loop cancels it inside select!: whatever part
   of a reply was consumed before the cancellation is parked (builder state + unconsumed bytes) and
   the next receive continues exactly as if everything had arrived in one piece *)
Theorem c04_partial_reply_is_kept : forall buf st x st' rest,
  bparse_all st buf = (st', rest, NeedMore) ->
  bparse_all st (buf ++ x) = bparse_all st' (rest ++ x).
Proof.
  intros buf st x st' rest B.
  pose proof (bparse_app (length buf) buf st x (le_n _)) as A. unfold app_verdict in A.
  rewrite B in A. exact A.
Qed.

(* under fairness every reported change is delivered: in the quiescent state nothing is in flight *)
Theorem c04_all_delivered_eventually : forall reply_fn sch n s',
  Forall wf_label sch -> iruns reply_fn n (arun reply_fn sch) s' ->
  (forall l, internal l = true -> astep reply_fn s' l = s') ->
  a_delivered s' = a_reported s'.
Proof.
  intros reply_fn sch n s' Hw Hr Hmax.
  pose proof (inv_run reply_fn sch Hw) as HI.
  destruct (internal_runs_bounded reply_fn n _ s' HI Hr) as [_ (_ & _ & _ & _ & He & _)].
  destruct (maximal_run_is_quiescent reply_fn n _ s' HI Hr Hmax) as (_ & _ & _ & Hs & _).
  rewrite Hs in He. cbn in He. rewrite app_nil_r in He. exact He.
Qed.

Example c04_two_in_one_reply :
  let rf := fun bs => mkResp [mkFrame [] None] None in
  let s := arun rf [LNotify (b "player"); LNotify (b "mixer"); LServe; LRecv] in
  a_delivered s = [b "player"; b "mixer"] /\ a_reported s = [b "player"; b "mixer"].
Proof. vm_compute. auto. Qed.

(* ---- the EXECUTABLE system (see Props/C05.v, c05_exec_refines) ----
   For every label sequence of the fault-free fragment, the events the application is handed, in
   order, are a prefix of the names the simulated server wrote in changed: lines (the rest is still
   in flight): none lost, none duplicated, none invented, order kept — through the idle replies,
   the cancelled idles and the noidle race alike. *)
Theorem c04_exec_events : forall cf labs gls, in_fragment cf labs gls ->
  exists ne rest, flat_map g_ev (snd (xrun (xinit cf) labs)) = map ev_text ne /\
                  ne ++ rest = s_reported (x_srv (fst (xrun (xinit cf) labs))).
Proof. exact exec_events. Qed.

(* callers giving up (x<id>) do not touch the event stream: label by label, the events of the run with cancellations are those of the
   run in which every x<id> is replaced by a no-op — for every label list without h / a and with distinct request ids, faults
   included (the cancellation theorem, Props/C01.v c01_cancel_erasure) *)
Theorem c04_exec_cancel_events : forall cf ls, cancel_ok [] ls = true ->
  map g_ev (snd (xrun (xinit cf) ls)) = map g_ev (snd (xrun (xinit cf) (map erase_label ls))).
Proof. exact exec_cancel_ev. Qed.

(* ---- the application drops its ConnectionEvents (label Z) — LoopMute.v ----
   Segment by segment, the run with the listener dropped shows either exactly the events of the run in which it is kept, or none
   (after the drop); for every label list without q / Q — faults, cancellations, handle drop, typed lists and album art included.
   No event is invented, reordered or moved to a later segment by the drop. *)
Theorem c04_exec_listener_dropped : forall cf ls, mute_ok ls = true ->
  Forall2 (fun a b0 => g_ev a = g_ev b0 \/ g_ev a = []) (snd (xrun (xinit cf) ls)) (snd (xrun (xinit cf) (map mute_label ls))).
Proof. exact exec_mute_events. Qed.

Print Assumptions c04_exactly_once.
Print Assumptions c04_quiescent.
Print Assumptions c04_every_changed_field.
Print Assumptions c04_no_invention.
Print Assumptions c04_partial_reply_is_kept.
Print Assumptions c04_all_delivered_eventually.
Print Assumptions c04_exec_events.
Print Assumptions c04_exec_cancel_events.
Print Assumptions c04_exec_listener_dropped.
