(* C07 — user-supplied strings can never add a command or change list framing.  Statements only. *)
From MPD Require Import Bytes Tables CommandModel MpdTokenizer CommandProofs.
Open Scope N_scope.

(* a name is accepted exactly when it is non-empty, inside the builder's alphabet and does not
   start with the command-list prefix; the accepted command is the name itself *)
Theorem c07_name_iff : forall s c,
  build s = inr c <->
  c = s /\ first_ok s /\ Forall (fun x => command_charset x = true) s /\ is_prefix command_list_prefix s = false.
Proof. exact build_ok_iff. Qed.

Theorem c07_name_rejects : forall s,
  ~ first_ok s \/ Exists (fun x => command_charset x = false) s \/ is_prefix command_list_prefix s = true ->
  exists e, build s = inl e.
Proof. exact build_rejects. Qed.

(* the builder's alphabet lies inside MPD's command-word alphabet and contains no blank, LF or NUL *)
Theorem c07_alphabet_word : forall c, c < 256 -> command_charset c = true -> valid_word_char c = true.
Proof. exact command_charset_word. Qed.
Theorem c07_alphabet_plain : forall c, c < 256 -> command_charset c = true ->
  is_ws c = false /\ c <> LF /\ c <> 0 /\ c <> SP.
Proof. exact command_charset_plain. Qed.

Theorem c07_first_is_letter : forall c, c < 256 -> command_first_charset c = true -> valid_word_first c = true.
Proof. exact first_charset_letter. Qed.

Theorem c07_framing_literals :
  command_list_begin = b "command_list_ok_begin" ++ [LF] /\
  command_list_end = b "command_list_end" ++ [LF] /\
  command_list_prefix = b "command_list" /\
  command_list_test_is_prefix = true.
Proof. exact framing_literals. Qed.

(* add_argument for an ARBITRARY rendered byte string r (any Argument impl): rejected iff r holds a
   rejected byte, and then the command is exactly as before; accepted => one blank and r appended *)
Theorem c07_argument : forall c r,
  (exists i, add_argument_raw c r = (Some i, c) /\ Exists (fun x => argument_reject x = true) r) \/
  (add_argument_raw c r = (None, c ++ [SP] ++ r) /\ Forall (fun x => argument_reject x = false) r).
Proof. exact add_argument_raw_cases. Qed.

Theorem c07_lf_rejected : argument_reject LF = true.
Proof. exact argument_reject_lf. Qed.
Theorem c07_nul_rejected : argument_reject 0 = true.
Proof. exact argument_reject_nul. Qed.

(* every command reachable by build and any sequence of accepted/rejected add_argument calls *)
Theorem c07_reachable_no_lf : forall name c, reach name c -> no_lf c.
Proof. exact reach_no_lf. Qed.

Theorem c07_reachable_first_word : forall name c, reach name c ->
  is_prefix command_list_prefix name = false /\ (c = name \/ exists rest, c = name ++ SP :: rest) /\
  Forall (fun x => x <> SP) name.
Proof. exact reach_first_word. Qed.

(* what is written: one line per command; lists are framed by the list length alone *)
Theorem c07_lines_send : forall c, no_lf c -> lines (send_bytes c) = [c].
Proof. exact lines_send. Qed.
Theorem c07_lines_single : forall c, no_lf c -> lines (render_list [c]) = [c].
Proof. exact lines_render_single. Qed.
Theorem c07_lines_list : forall cmds,
  Forall no_lf cmds -> length cmds <> 1%nat ->
  lines (render_list cmds) = [b "command_list_ok_begin"] ++ cmds ++ [b "command_list_end"].
Proof. exact lines_render_list. Qed.

(* non-vacuity *)
Example c07_ex_reach : reach (b "find") (b "find" ++ SP :: b "x").
Proof.
  eapply (reach_add (b "find") (b "find") (b "x") None).
  - apply reach_build; [repeat constructor | vm_compute; reflexivity].
  - repeat constructor.
  - vm_compute. reflexivity.
Qed.
Example c07_ex_rejected : exists e, build (b "command_list_end") = inl e.
Proof. eexists. vm_compute. reflexivity. Qed.

Print Assumptions c07_name_iff.
Print Assumptions c07_name_rejects.
Print Assumptions c07_alphabet_word.
Print Assumptions c07_alphabet_plain.
Print Assumptions c07_framing_literals.
Print Assumptions c07_argument.
Print Assumptions c07_reachable_no_lf.
Print Assumptions c07_reachable_first_word.
Print Assumptions c07_lines_send.
Print Assumptions c07_lines_single.
Print Assumptions c07_lines_list.
