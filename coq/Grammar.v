(* Grammar.v — SPEC side of C03: what an MPD server writes.  Abstract responses, their
   well-formedness and their wire encoding, written independently of the parser (no parser
   combinator occurs below except [parse_digits], Rust's [str::parse::<u64>], which is needed to say
   which lines ARE binary headers).  Mirror of tools/mpdgen.py (dict {form, frames, error, partial},
   enc_frame / enc_error / enc_response); the driver kind [enc] (DriverGrammar.v) ties the two on
   every generated response.  No proofs in this file. *)
From MPD Require Import Bytes Tables BuilderModel.
Open Scope N_scope.

(* ---------- abstract server output ---------- *)

(* A frame as the server writes it: the fields in order, at most one binary payload (by
   construction), and the position among the field lines at which the binary part is written
   (Python's [list.insert]: a position beyond the last field means "after the last field"). *)
Record aframe := mkAFrame { af_fields : list (bytes * bytes); af_bin : option bytes; af_binpos : nat }.

Inductive aform := FSingle | FList.

(* single form: one frame then OK | an optional partial frame (dropped by the client) then ACK
   list form:   frames each closed by list_OK, then OK | an optional partial frame then ACK
   The decoded form of an error reuses BuilderModel's [err]. *)
Record aresp := mkAResp {
  a_form : aform;
  a_frames : list aframe;
  a_error : option err;
  a_partial : option aframe   (* only meaningful (and only encoded) when [a_error] is [Some] *)
}.

(* ---------- wire encoding ---------- *)

Definition enc_field (k v : bytes) : bytes := k ++ b ": " ++ v ++ [LF].

Definition enc_binary (d : bytes) : bytes :=
  b "binary: " ++ render_dec (N.of_nat (length d)) ++ [LF] ++ d ++ [LF].

Definition enc_ok : bytes := b "OK" ++ [LF].
Definition enc_list_ok : bytes := b "list_OK" ++ [LF].

Definition enc_error (e : err) : bytes :=
  b "ACK [" ++ render_dec (e_code e) ++ b "@" ++ render_dec (e_index e) ++ b "] {" ++
  match e_command e with Some c => c | None => [] end ++ b "} " ++ e_message e ++ [LF].

(* the parts of a frame in wire order *)
Inductive part := PField (k v : bytes) | PBinary (d : bytes).

Definition enc_part (p : part) : bytes :=
  match p with PField k v => enc_field k v | PBinary d => enc_binary d end.

Definition frame_parts (f : aframe) : list part :=
  let fs := map (fun kv => PField (fst kv) (snd kv)) (af_fields f) in
  match af_bin f with
  | None => fs
  | Some d => firstn (af_binpos f) fs ++ PBinary d :: skipn (af_binpos f) fs
  end.

Definition enc_frame (f : aframe) : bytes := flat_map enc_part (frame_parts f).

Definition enc_partial (p : option aframe) : bytes :=
  match p with Some f => enc_frame f | None => [] end.

(* the end of a response: OK, or (partial frame +) ACK *)
Definition enc_end (r : aresp) : bytes :=
  match a_error r with
  | None => enc_ok
  | Some e => enc_partial (a_partial r) ++ enc_error e
  end.

Definition enc (r : aresp) : bytes :=
  match a_form r with
  | FSingle =>
    match a_error r with
    | None => enc_partial (hd_error (a_frames r)) ++ enc_ok
    | Some _ => enc_end r
    end
  | FList => flat_map (fun f => enc_frame f ++ enc_list_ok) (a_frames r) ++ enc_end r
  end.

(* ---------- what the client must decode ---------- *)

(* fields in order, payload separately; the position of the binary part is not observable *)
Definition dec_frame (f : aframe) : frame := mkFrame (af_fields f) (af_bin f).

(* the frames and the error the server encoded; the partial frame before an ACK is dropped *)
Definition decoded (r : aresp) : response := mkResp (map dec_frame (a_frames r)) (a_error r).

(* ---------- well-formedness (all boolean) ---------- *)

Definition no_lf (s : bytes) : bool := forallb (fun c => negb (c =? LF)) s.

(* values and messages: any valid UTF-8 without a line feed (may be empty, may look like OK,
   list_OK, an ACK line, "binary: 3", ...) *)
Definition wf_text (s : bytes) : bool := utf8_valid s && no_lf s.

(* keys: [A-Za-z_-]+ *)
Definition wf_key (k : bytes) : bool := negb (beq k []) && forallb parser_key_charset k.

(* THE exclusion: the line "binary: <numeral that fits u64>" IS the header of a binary part.
   [parse_digits 64 v = Some _] iff v is a non-empty string of ASCII digits whose value is < 2^64;
   so "binary: 3x", "binary: ", "binary: +3" and "binary: 18446744073709551616" are plain fields. *)
Definition is_binary_header (k v : bytes) : bool :=
  beq k (b "binary") && match parse_digits 64 v with Some _ => true | None => false end.

Definition wf_field (kv : bytes * bytes) : bool :=
  wf_key (fst kv) && wf_text (snd kv) && negb (is_binary_header (fst kv) (snd kv)).

(* payload: ARBITRARY bytes (not even required to be < 256: they are never looked at); only the
   length must be expressible, i.e. fit the u64 the client parses it into *)
Definition wf_payload (d : bytes) : bool := N.of_nat (length d) <? 2 ^ 64.

Definition wf_frame (f : aframe) : bool :=
  forallb wf_field (af_fields f) && match af_bin f with Some d => wf_payload d | None => true end.

(* current command: absent, or [A-Za-z_]+ ([Some []] would be written as "{}" = absent) *)
Definition wf_command (c : option bytes) : bool :=
  match c with
  | None => true
  | Some c => negb (beq c []) && forallb parser_command_charset c
  end.

(* error code and command index are both parsed as u64 *)
Definition wf_err (e : err) : bool :=
  (e_code e <? 2 ^ 64) && (e_index e <? 2 ^ 64) && wf_command (e_command e) && wf_text (e_message e).

(* shape: single+OK has exactly one frame; single+ACK has none (the frame in progress is the
   partial one); list+OK has at least one frame (an EMPTY list reply is the three bytes "OK\n",
   which is also the single form of an empty frame: the wire format does not distinguish them and
   the client decodes one empty frame); list+ACK has any number of completed frames. *)
Definition wf_shape (r : aresp) : bool :=
  match a_form r, a_error r with
  | FSingle, None => Nat.eqb (length (a_frames r)) 1
  | FSingle, Some _ => Nat.eqb (length (a_frames r)) 0
  | FList, None => negb (Nat.eqb (length (a_frames r)) 0)
  | FList, Some _ => true
  end.

Definition wf_end (r : aresp) : bool :=
  match a_error r with
  | None => true
  | Some e => wf_err e && match a_partial r with Some f => wf_frame f | None => true end
  end.

Definition wf_resp (r : aresp) : bool :=
  wf_shape r && forallb wf_frame (a_frames r) && wf_end r.
