(* RoundTripProofs.v — C03: decode (enc r) = r for every well-formed abstract response.
   One evaluation lemma per component kind (field line, binary part, list_OK, OK, ACK) on
   [parse_component], with the ordered choice made explicit (the earlier alternatives answer
   RError — not RIncomplete, not RFailure — on a later alternative's well-formed line); then frames
   and responses through the builder; then streams of responses through the reference run. *)
From Coq Require Import ZifyBool ZifyN ZifyNat PeanoNat.
From MPD Require Import Bytes Tables ParserModel BuilderModel Grammar ConnModel ParserProofs ConnProofs GrammarProofs.
Open Scope N_scope.

Ltac len_tac := repeat first [rewrite app_length | progress cbn [length]]; lia.

(* ---------- sequencing without skipn ---------- *)

Definition shift {A} (n : nat) (r : res A) : res A :=
  match r with ROk m w => ROk (n + m) w | RIncomplete => RIncomplete | RError => RError | RFailure => RFailure end.

Lemma bind_app {A B} (p : parser A) (f : A -> parser B) a r v :
  p (a ++ r) = ROk (length a) v -> p_bind p f (a ++ r) = shift (length a) (f v r).
Proof. intros H. unfold p_bind. rewrite H, skipn_app_exact. destruct (f v r); reflexivity. Qed.

Lemma bind_cons {A B} (p : parser A) (f : A -> parser B) c r v :
  p (c :: r) = ROk 1 v -> p_bind p f (c :: r) = shift 1 (f v r).
Proof. intros H. exact (bind_app p f [c] r v H). Qed.

Lemma bind_error {A B} (p : parser A) (f : A -> parser B) i : p i = RError -> p_bind p f i = RError.
Proof. intros H. unfold p_bind. rewrite H. reflexivity. Qed.

Lemma map_res_app {A B} (p : parser A) (f : A -> option B) i n v w :
  p i = ROk n v -> f v = Some w -> p_map_res p f i = ROk n w.
Proof. intros H F. unfold p_map_res. rewrite H, F. reflexivity. Qed.

Lemma map_res_none {A B} (p : parser A) (f : A -> option B) i n v :
  p i = ROk n v -> f v = None -> p_map_res p f i = RError.
Proof. intros H F. unfold p_map_res. rewrite H, F. reflexivity. Qed.

Lemma map_res_error {A B} (p : parser A) (f : A -> option B) i : p i = RError -> p_map_res p f i = RError.
Proof. intros H. unfold p_map_res. rewrite H. reflexivity. Qed.

Lemma alt_error {A} (p q : parser A) i : p i = RError -> p_alt p q i = q i.
Proof. intros H. unfold p_alt. rewrite H. reflexivity. Qed.

Lemma char_exact c r : p_char c (c :: r) = ROk 1 tt.
Proof. unfold p_char. rewrite N.eqb_refl. reflexivity. Qed.

Lemma char_error c x r : x <> c -> p_char c (x :: r) = RError.
Proof. intros H. unfold p_char. apply N.eqb_neq in H. rewrite H. reflexivity. Qed.

Lemma take_while_exact p s c r :
  forallb p s = true -> p c = false -> p_take_while p (s ++ c :: r) = ROk (length s) s.
Proof.
  intros H Hc. unfold p_take_while. rewrite (span_len_all p s H c r Hc), firstn_app_exact. reflexivity.
Qed.

(* ---------- decimal numerals: render then parse ---------- *)

Lemma rt_dec_acc_snoc ds : forall a d, dec_acc a (ds ++ [d]) = dec_acc a ds * 10 + digit_val d.
Proof. induction ds as [|x ds IH]; intros a d; cbn [dec_acc app]; [reflexivity | apply IH]. Qed.

Lemma rt_digit n : is_digit (48 + n mod 10) = true /\ digit_val (48 + n mod 10) = n mod 10.
Proof.
  pose proof (N.mod_upper_bound n 10 ltac:(lia)) as U.
  unfold is_digit, in_range, digit_val. split; lia.
Qed.

Lemma rt_render_aux_S f n acc :
  render_dec_aux (S f) n acc =
  if n / 10 =? 0 then (48 + n mod 10) :: acc else render_dec_aux f (n / 10) ((48 + n mod 10) :: acc).
Proof. reflexivity. Qed.

Lemma rt_render_aux : forall f n acc, n < 2 ^ N.of_nat (S f) ->
  exists ds, render_dec_aux (S f) n acc = ds ++ acc /\ ds <> [] /\ forallb is_digit ds = true /\ dec_value ds = n.
Proof.
  induction f as [|f IH]; intros n acc B.
  - (* n < 2: one digit *)
    change (2 ^ N.of_nat 1) with 2 in B.
    exists [48 + n mod 10]. rewrite rt_render_aux_S.
    assert (E : n / 10 = 0) by (apply N.div_small; lia). rewrite E. change (0 =? 0) with true. cbv iota.
    destruct (rt_digit n) as [D V].
    repeat split; [discriminate | cbn [forallb]; rewrite D; reflexivity |].
    unfold dec_value. cbn [dec_acc]. rewrite V. rewrite N.mod_small by lia. lia.
  - rewrite rt_render_aux_S. destruct (n / 10 =? 0) eqn:E.
    + apply N.eqb_eq in E. exists [48 + n mod 10]. destruct (rt_digit n) as [D V].
      repeat split; [discriminate | cbn [forallb]; rewrite D; reflexivity |].
      unfold dec_value. cbn [dec_acc]. rewrite V.
      pose proof (N.div_mod n 10 ltac:(lia)) as M. lia.
    + apply N.eqb_neq in E.
      assert (B2 : n / 10 < 2 ^ N.of_nat (S f)).
      { replace (N.of_nat (S (S f))) with (N.succ (N.of_nat (S f))) in B by lia.
        rewrite N.pow_succ_r' in B.
        apply N.div_lt_upper_bound; lia. }
      destruct (IH (n / 10) ((48 + n mod 10) :: acc) B2) as (ds & R & Ne & D & V).
      exists (ds ++ [48 + n mod 10]). destruct (rt_digit n) as [D1 V1].
      repeat split.
      * rewrite R, <- app_assoc. reflexivity.
      * destruct ds; discriminate.
      * rewrite forallb_app, D. cbn [forallb]. rewrite D1. reflexivity.
      * unfold dec_value in *. rewrite rt_dec_acc_snoc, V, V1.
        pose proof (N.div_mod n 10 ltac:(lia)) as M. lia.
Qed.

(* the decimal rendering of n is a non-empty digit string whose value is n *)
Lemma rt_render_parse n :
  render_dec n <> [] /\ forallb is_digit (render_dec n) = true /\ dec_value (render_dec n) = n.
Proof.
  assert (B : n < 2 ^ N.of_nat (S (N.to_nat (N.log2 n)))).
  { replace (N.of_nat (S (N.to_nat (N.log2 n)))) with (N.succ (N.log2 n)) by lia.
    destruct n as [|p]; [reflexivity|]. apply N.log2_spec. lia. }
  destruct (rt_render_aux _ n [] B) as (ds & R & Ne & D & V).
  unfold render_dec. rewrite R, app_nil_r. auto.
Qed.

Lemma rt_parse_digits_render bits n : n < 2 ^ bits -> parse_digits bits (render_dec n) = Some n.
Proof.
  intros B. destruct (rt_render_parse n) as (Ne & D & V). unfold parse_digits.
  destruct (render_dec n) as [|x ds] eqn:E; [congruence|]. rewrite D, V.
  apply N.ltb_lt in B. rewrite B. reflexivity.
Qed.

(* p_number on a rendered numeral followed by a non-digit *)
Lemma rt_number bits n c r :
  n < 2 ^ bits -> is_digit c = false ->
  p_number bits (render_dec n ++ c :: r) = ROk (length (render_dec n)) n.
Proof.
  intros B C. destruct (rt_render_parse n) as (Ne & D & V). unfold p_number.
  eapply map_res_app; [apply take_while1_exact; assumption | apply rt_parse_digits_render; exact B].
Qed.

(* ---------- character classes ---------- *)

Lemma key_char_ascii c : parser_key_charset c = true -> c <? 128 = true.
Proof. unfold parser_key_charset, is_alpha, is_upper, is_lower, in_range. lia. Qed.

Lemma cmd_char_ascii c : parser_command_charset c = true -> c <? 128 = true.
Proof. unfold parser_command_charset, is_alpha, is_upper, is_lower, in_range. lia. Qed.

Lemma ascii_utf8 s : forallb (fun c => c <? 128) s = true -> utf8_valid s = true.
Proof.
  induction s as [|a s IH]; intros H; [reflexivity|]. cbn [forallb] in H.
  apply andb_true_iff in H as [H1 H2]. cbn [utf8_valid]. rewrite H1. exact (IH H2).
Qed.

Lemma forallb_impl {A} (p q : A -> bool) s :
  (forall c, p c = true -> q c = true) -> forallb p s = true -> forallb q s = true.
Proof.
  intros I. induction s as [|a s IH]; intros H; [reflexivity|]. cbn [forallb] in *.
  apply andb_true_iff in H as [H1 H2]. rewrite (I a H1), (IH H2). reflexivity.
Qed.

Lemma key_utf8 k : forallb parser_key_charset k = true -> utf8 k = Some k.
Proof.
  intros H. unfold utf8. rewrite ascii_utf8; [reflexivity|]. exact (forallb_impl _ _ k key_char_ascii H).
Qed.

Lemma cmd_utf8 k : forallb parser_command_charset k = true -> utf8 k = Some k.
Proof.
  intros H. unfold utf8. rewrite ascii_utf8; [reflexivity|]. exact (forallb_impl _ _ k cmd_char_ascii H).
Qed.

(* ---------- a tag against a line that starts with a key and a colon ---------- *)

(* tag = w x …, line = k ':' …, both w and k over the key charset, x neither a key character nor
   the colon: the tag answers RError — it cannot match and it cannot be waiting for more bytes,
   because the line already differs from it at or before the position of its colon. *)
Lemma tag_vs_key w : forall x t k r,
  forallb parser_key_charset w = true -> parser_key_charset x = false -> x <> 58 ->
  forallb parser_key_charset k = true ->
  p_tag (w ++ x :: t) (k ++ 58 :: r) = RError.
Proof.
  induction w as [|a w IH]; intros x t k r W X X58 K.
  - destruct k as [|c k]; cbn [app p_tag].
    + assert (E : (x =? 58) = false) by (apply N.eqb_neq; exact X58). rewrite E. reflexivity.
    + cbn [forallb] in K. apply andb_true_iff in K as [K1 K2].
      assert (E : (x =? c) = false) by (apply N.eqb_neq; intros ->; congruence). rewrite E. reflexivity.
  - cbn [forallb] in W. apply andb_true_iff in W as [W1 W2].
    destruct k as [|c k]; cbn [app p_tag].
    + assert (E : (a =? 58) = false) by (apply N.eqb_neq; intros ->; discriminate W1). rewrite E. reflexivity.
    + cbn [forallb] in K. apply andb_true_iff in K as [K1 K2].
      destruct (a =? c); [|reflexivity].
      rewrite (IH x t k r W2 X X58 K2). reflexivity.
Qed.

(* tag = w ':' …, line = k ':' … with w <> k: RError as well *)
Lemma tag_other_key w : forall t k r,
  forallb parser_key_charset w = true -> forallb parser_key_charset k = true -> w <> k ->
  p_tag (w ++ 58 :: t) (k ++ 58 :: r) = RError.
Proof.
  induction w as [|a w IH]; intros t k r W K N.
  - destruct k as [|c k]; [congruence|]. cbn [app p_tag].
    cbn [forallb] in K. apply andb_true_iff in K as [K1 K2].
    assert (E : (58 =? c) = false) by (apply N.eqb_neq; intros <-; discriminate K1). rewrite E. reflexivity.
  - cbn [forallb] in W. apply andb_true_iff in W as [W1 W2].
    destruct k as [|c k]; cbn [app p_tag].
    + assert (E : (a =? 58) = false) by (apply N.eqb_neq; intros ->; discriminate W1). rewrite E. reflexivity.
    + cbn [forallb] in K. apply andb_true_iff in K as [K1 K2].
      destruct (a =? c) eqn:E; [|reflexivity]. apply N.eqb_eq in E. subst c.
      rewrite (IH t k r W2 K2); [reflexivity | congruence].
Qed.

(* the first three alternatives of parse_component on any line "key: …" *)
Lemma not_ok_line k r : forallb parser_key_charset k = true ->
  p_map (p_tag (b "OK" ++ [LF])) (fun _ => EndOfResponse) (k ++ 58 :: r) = RError.
Proof.
  intros K. apply map_res_error. apply (tag_vs_key (b "OK") LF [] k r); [reflexivity | reflexivity | discriminate | exact K].
Qed.

Lemma not_list_ok_line k r : forallb parser_key_charset k = true ->
  p_map (p_tag (b "list_OK" ++ [LF])) (fun _ => EndOfFrame) (k ++ 58 :: r) = RError.
Proof.
  intros K. apply map_res_error. apply (tag_vs_key (b "list_OK") LF [] k r); [reflexivity | reflexivity | discriminate | exact K].
Qed.

Lemma not_ack_line k r : forallb parser_key_charset k = true -> p_error (k ++ 58 :: r) = RError.
Proof.
  intros K. unfold p_error. apply bind_error.
  apply (tag_vs_key (b "ACK") SP [] k r); [reflexivity | reflexivity | discriminate | exact K].
Qed.

(* ---------- the field line ---------- *)

Lemma forallb_false_split {A} (p : A -> bool) s :
  forallb p s = false -> exists s1 c s2, s = s1 ++ c :: s2 /\ forallb p s1 = true /\ p c = false.
Proof.
  induction s as [|a s IH]; intros H; [discriminate|]. cbn [forallb] in H.
  destruct (p a) eqn:E.
  - destruct (IH H) as (s1 & c & s2 & -> & H1 & H2). exists (a :: s1), c, s2.
    cbn [forallb app]. rewrite E. auto.
  - exists [], a, s. auto.
Qed.

Lemma no_lf_app s1 c s2 : no_lf (s1 ++ c :: s2) = true -> c <> LF.
Proof.
  unfold no_lf. rewrite forallb_app. cbn [forallb]. intros H.
  apply andb_true_iff in H as [_ H]. apply andb_true_iff in H as [H _]. intros ->. discriminate H.
Qed.

(* "binary: v\n" with v not a u64 numeral is not a binary header: the prefix parser answers RError
   (so the cut behind it is never reached) *)
Lemma binary_prefix_error v rest :
  no_lf v = true -> parse_digits 64 v = None ->
  p_binary_prefix (b "binary: " ++ v ++ LF :: rest) = RError.
Proof.
  intros L P. unfold p_binary_prefix. rewrite (bind_app _ _ (b "binary: ") _ tt (tag_exact _ _)).
  cbn [shift]. enough (E : p_bind (p_number 64) (fun n => p_newline;;; p_ret n) (v ++ LF :: rest) = RError) by (rewrite E; reflexivity).
  destruct (forallb is_digit v) eqn:D.
  - (* all digits: empty, or overflow *)
    apply bind_error. unfold p_number.
    destruct v as [|x v'].
    + apply map_res_error. apply take_while1_empty. reflexivity.
    + eapply map_res_none; [apply take_while1_exact; [discriminate | exact D | reflexivity] | exact P].
  - (* a non-digit c (not LF) inside v *)
    destruct (forallb_false_split _ _ D) as (ds & c & v2 & -> & D1 & D2).
    pose proof (no_lf_app _ _ _ L) as CL. rewrite <- app_assoc. cbn [app].
    destruct ds as [|x ds'].
    + apply bind_error. unfold p_number. apply map_res_error. apply take_while1_empty. exact D2.
    + destruct (parse_digits 64 (x :: ds')) as [n|] eqn:PD.
      * assert (N : p_number 64 ((x :: ds') ++ c :: v2 ++ LF :: rest) = ROk (length (x :: ds')) n).
        { unfold p_number. eapply map_res_app; [apply take_while1_exact; [discriminate | exact D1 | exact D2] | exact PD]. }
        rewrite (bind_app _ _ _ _ _ N).
        unfold p_newline. rewrite (bind_error _ _ _ (char_error LF c _ CL)). reflexivity.
      * apply bind_error. unfold p_number.
        eapply map_res_none; [apply take_while1_exact; [discriminate | exact D1 | exact D2] | exact PD].
Qed.

Lemma not_binary_line k v rest :
  forallb parser_key_charset k = true -> no_lf v = true -> is_binary_header k v = false ->
  p_binary (k ++ b ": " ++ v ++ LF :: rest) = RError.
Proof.
  intros K L H. unfold p_binary. apply bind_error.
  destruct (beq k (b "binary")) eqn:E.
  - apply beq_eq in E. subst k. unfold is_binary_header in H. rewrite beq_refl in H. cbn [andb] in H.
    destruct (parse_digits 64 v) eqn:P; [discriminate|].
    exact (binary_prefix_error v rest L P).
  - unfold p_binary_prefix. apply bind_error.
    apply (tag_other_key (b "binary") [SP] k); [reflexivity | exact K |].
    intros <-. rewrite beq_refl in E. discriminate.
Qed.

Lemma key_value_line k v rest :
  k <> [] -> forallb parser_key_charset k = true -> wf_text v = true ->
  p_key_value (k ++ b ": " ++ v ++ LF :: rest) = ROk (length (enc_field k v)) (CField k v).
Proof.
  intros N K T. unfold wf_text in T. apply andb_true_iff in T as [U L].
  unfold p_key_value.
  assert (P1 : p_map_res (p_take_while1 parser_key_charset) utf8 (k ++ b ": " ++ v ++ LF :: rest) = ROk (length k) k).
  { eapply map_res_app; [apply take_while1_exact; [exact N | exact K | reflexivity] | apply key_utf8; exact K]. }
  rewrite (bind_app _ _ _ _ _ P1).
  rewrite (bind_app _ _ (b ": ") _ tt (tag_exact _ _)).
  assert (P2 : p_map_res p_field_value utf8 (v ++ LF :: rest) = ROk (length (v ++ [LF])) v).
  { eapply map_res_app; [|unfold utf8; rewrite U; reflexivity].
    unfold p_field_value.
    rewrite (bind_app _ _ v _ v (take_while_exact _ v LF rest L ltac:(reflexivity))).
    rewrite (bind_cons _ _ LF rest tt (char_exact LF rest)). unfold p_ret. cbn [shift].
    f_equal. rewrite app_length. cbn [length]. lia. }
  replace (v ++ LF :: rest) with ((v ++ [LF]) ++ rest) in * by (rewrite <- app_assoc; reflexivity).
  rewrite (bind_app _ _ _ _ _ P2). unfold p_ret. cbn [shift]. f_equal.
  unfold enc_field. len_tac.
Qed.

Lemma wf_field_parts k v : wf_field (k, v) = true ->
  k <> [] /\ forallb parser_key_charset k = true /\ wf_text v = true /\ no_lf v = true /\ is_binary_header k v = false.
Proof.
  unfold wf_field, wf_key. cbn [fst snd]. intros H.
  apply andb_true_iff in H as [H H3]. apply andb_true_iff in H as [H H2]. apply andb_true_iff in H as [H0 H1].
  repeat split; try assumption.
  - intros ->. discriminate H0.
  - unfold wf_text in H2. apply andb_true_iff in H2 as [_ H2]. exact H2.
  - destruct (is_binary_header k v); [discriminate | reflexivity].
Qed.

Lemma enc_field_shape k v rest : enc_field k v ++ rest = k ++ b ": " ++ v ++ LF :: rest.
Proof. unfold enc_field. rewrite <- !app_assoc. reflexivity. Qed.

(* C03, component 1: a well-formed field line is a Field — whatever its value looks like *)
Theorem rt_field k v rest :
  wf_field (k, v) = true ->
  parse_component (enc_field k v ++ rest) = ROk (length (enc_field k v)) (CField k v).
Proof.
  intros W. destruct (wf_field_parts k v W) as (N & K & T & L & H).
  rewrite enc_field_shape. unfold parse_component.
  set (i := k ++ b ": " ++ v ++ LF :: rest).
  assert (A1 : p_map (p_tag (b "OK" ++ [LF])) (fun _ => EndOfResponse) i = RError)
    by exact (not_ok_line k (SP :: v ++ LF :: rest) K).
  assert (A2 : p_map (p_tag (b "list_OK" ++ [LF])) (fun _ => EndOfFrame) i = RError)
    by exact (not_list_ok_line k (SP :: v ++ LF :: rest) K).
  assert (A3 : p_error i = RError) by exact (not_ack_line k (SP :: v ++ LF :: rest) K).
  rewrite (alt_error _ _ _ A1), (alt_error _ _ _ A2), (alt_error _ _ _ A3). subst i.
  rewrite (alt_error _ _ _ (not_binary_line k v rest K L H)).
  exact (key_value_line k v rest N K T).
Qed.

(* ---------- the binary part ---------- *)

Lemma bind_nil {A B} (p : parser A) (f : A -> parser B) r v :
  p r = ROk 0 v -> p_bind p f r = shift 0 (f v r).
Proof. intros H. exact (bind_app p f [] r v H). Qed.

Lemma take_exact d r : p_take (N.of_nat (length d)) (d ++ r) = ROk (length d) d.
Proof.
  unfold p_take. rewrite app_length.
  assert (E : (N.of_nat (length d + length r) <? N.of_nat (length d)) = false) by lia.
  rewrite E, Nat2N.id, firstn_app_exact. reflexivity.
Qed.

Definition bin_header (n : N) : bytes := b "binary: " ++ render_dec n ++ [LF].

Lemma binary_prefix_exact n r :
  n < 2 ^ 64 -> p_binary_prefix (bin_header n ++ r) = ROk (length (bin_header n)) n.
Proof.
  intros B. unfold p_binary_prefix, bin_header. rewrite <- !app_assoc.
  rewrite (bind_app _ _ (b "binary: ") _ tt (tag_exact _ _)).
  cbn [app]. rewrite (bind_app _ _ _ _ _ (rt_number 64 n LF r B ltac:(reflexivity))).
  unfold p_newline. rewrite (bind_cons _ _ LF r tt (char_exact LF r)). unfold p_ret. cbn [shift].
  f_equal. len_tac.
Qed.

Lemma enc_binary_shape d : enc_binary d = bin_header (N.of_nat (length d)) ++ d ++ [LF].
Proof. unfold enc_binary, bin_header. rewrite <- !app_assoc. reflexivity. Qed.

(* C03, component 2: the binary part.  The payload is cut by its announced length and never
   scanned: no hypothesis on its bytes. *)
Theorem rt_binary d rest :
  wf_payload d = true ->
  parse_component (enc_binary d ++ rest) = ROk (length (enc_binary d)) (CBinary (length d)).
Proof.
  intros W. unfold wf_payload in W. apply N.ltb_lt in W.
  set (n := N.of_nat (length d)) in *.
  assert (K : forallb parser_key_charset (b "binary") = true) by reflexivity.
  assert (S : enc_binary d ++ rest = b "binary" ++ 58 :: SP :: render_dec n ++ LF :: d ++ LF :: rest).
  { unfold enc_binary. fold n. rewrite <- !app_assoc. reflexivity. }
  unfold parse_component.
  assert (A1 : p_map (p_tag (b "OK" ++ [LF])) (fun _ => EndOfResponse) (enc_binary d ++ rest) = RError)
    by (rewrite S; exact (not_ok_line _ _ K)).
  assert (A2 : p_map (p_tag (b "list_OK" ++ [LF])) (fun _ => EndOfFrame) (enc_binary d ++ rest) = RError)
    by (rewrite S; exact (not_list_ok_line _ _ K)).
  assert (A3 : p_error (enc_binary d ++ rest) = RError) by (rewrite S; exact (not_ack_line _ _ K)).
  rewrite (alt_error _ _ _ A1), (alt_error _ _ _ A2), (alt_error _ _ _ A3). clear A1 A2 A3 S.
  rewrite enc_binary_shape. fold n. rewrite <- app_assoc.
  unfold p_alt, p_binary.
  rewrite (bind_app _ _ _ _ _ (binary_prefix_exact n ((d ++ [LF]) ++ rest) W)).
  unfold p_cut. rewrite <- app_assoc. unfold n at 1.
  rewrite (bind_app _ _ _ _ _ (take_exact d ([LF] ++ rest))).
  unfold p_newline. cbn [app]. rewrite (bind_cons _ _ LF rest tt (char_exact LF rest)).
  unfold p_ret. cbn [shift]. subst n. f_equal. len_tac.
Qed.

(* ---------- OK, list_OK ---------- *)

(* C03, component 3: the end of a response *)
Theorem rt_ok rest : parse_component (enc_ok ++ rest) = ROk (length enc_ok) EndOfResponse.
Proof.
  unfold parse_component, p_alt, p_map, p_map_res, enc_ok. rewrite tag_exact. reflexivity.
Qed.

(* C03, component 4: the end of a frame of a command list *)
Theorem rt_list_ok rest : parse_component (enc_list_ok ++ rest) = ROk (length enc_list_ok) EndOfFrame.
Proof.
  unfold parse_component.
  rewrite alt_error by reflexivity.
  unfold p_alt, p_map, p_map_res, enc_list_ok. rewrite tag_exact. reflexivity.
Qed.

(* ---------- the ACK line ---------- *)

Definition ci_bytes (c i : N) : bytes := [91] ++ render_dec c ++ [64] ++ render_dec i ++ [93].
Definition cmd_text (c : option bytes) : bytes := match c with Some x => x | None => [] end.
Definition cmd_bytes (c : option bytes) : bytes := [123] ++ cmd_text c ++ [125].

Lemma code_and_index_exact c i r :
  c < 2 ^ 64 -> i < 2 ^ 64 ->
  p_code_and_index (ci_bytes c i ++ r) = ROk (length (ci_bytes c i)) (c, i).
Proof.
  intros C I. unfold ci_bytes. rewrite <- !app_assoc. cbn [app]. unfold p_code_and_index.
  rewrite (bind_cons _ _ 91 _ tt (char_exact 91 _)).
  rewrite (bind_app _ _ _ _ _ (rt_number 64 c 64 _ C ltac:(reflexivity))).
  rewrite (bind_cons _ _ 64 _ tt (char_exact 64 _)).
  rewrite (bind_app _ _ _ _ _ (rt_number 64 i 93 _ I ltac:(reflexivity))).
  rewrite (bind_cons _ _ 93 _ tt (char_exact 93 _)).
  unfold p_ret. cbn [shift]. f_equal. len_tac.
Qed.

Lemma current_command_exact c r :
  wf_command c = true -> p_current_command (cmd_bytes c ++ r) = ROk (length (cmd_bytes c)) c.
Proof.
  intros W. unfold cmd_bytes. rewrite <- !app_assoc. cbn [app]. unfold p_current_command.
  rewrite (bind_cons _ _ 123 _ tt (char_exact 123 _)).
  destruct c as [c|]; cbn [cmd_text wf_command] in *.
  - apply andb_true_iff in W as [N C].
    assert (NE : c <> []) by (intros ->; discriminate N).
    assert (P : p_opt (p_map_res (p_take_while1 parser_command_charset) utf8) (c ++ 125 :: r) = ROk (length c) (Some c)).
    { unfold p_opt. erewrite map_res_app; [reflexivity | apply take_while1_exact; [exact NE | exact C | reflexivity] | apply cmd_utf8; exact C]. }
    rewrite (bind_app _ _ _ _ _ P).
    rewrite (bind_cons _ _ 125 _ tt (char_exact 125 _)).
    unfold p_ret. cbn [shift]. f_equal. len_tac.
  - cbn [app].
    assert (P : p_opt (p_map_res (p_take_while1 parser_command_charset) utf8) (125 :: r) = ROk 0 None).
    { unfold p_opt. rewrite map_res_error; [reflexivity | apply take_while1_empty; reflexivity]. }
    rewrite (bind_nil _ _ _ _ P).
    rewrite (bind_cons _ _ 125 _ tt (char_exact 125 _)).
    unfold p_ret. cbn [shift]. reflexivity.
Qed.

Lemma enc_error_shape e :
  enc_error e = b "ACK " ++ ci_bytes (e_code e) (e_index e) ++ [SP] ++ cmd_bytes (e_command e) ++ [SP] ++ e_message e ++ [LF].
Proof. unfold enc_error, ci_bytes, cmd_bytes, cmd_text. rewrite <- !app_assoc. reflexivity. Qed.

Lemma wf_err_parts e : wf_err e = true ->
  e_code e < 2 ^ 64 /\ e_index e < 2 ^ 64 /\ wf_command (e_command e) = true /\
  utf8_valid (e_message e) = true /\ no_lf (e_message e) = true.
Proof.
  unfold wf_err, wf_text. intros H.
  apply andb_true_iff in H as [H H4]. apply andb_true_iff in H as [H H3]. apply andb_true_iff in H as [H1 H2].
  apply andb_true_iff in H4 as [H4 H5]. apply N.ltb_lt in H1. apply N.ltb_lt in H2. auto.
Qed.

(* C03, component 5: the ACK line — code, command index, optional current command, message *)
Theorem rt_error e rest :
  wf_err e = true ->
  parse_component (enc_error e ++ rest) =
  ROk (length (enc_error e)) (CError (e_code e) (e_index e) (e_command e) (e_message e)).
Proof.
  intros W. destruct (wf_err_parts e W) as (C & I & CM & U & L).
  rewrite enc_error_shape. rewrite <- !app_assoc.
  unfold parse_component.
  rewrite alt_error by reflexivity.
  rewrite alt_error by reflexivity.
  unfold p_alt, p_error.
  rewrite (bind_app _ _ (b "ACK ") _ tt (tag_exact _ _)).
  rewrite (bind_app _ _ _ _ _ (code_and_index_exact _ _ _ C I)).
  cbn [app]. rewrite (bind_cons _ _ SP _ tt (char_exact SP _)).
  rewrite (bind_app _ _ _ _ _ (current_command_exact _ _ CM)).
  rewrite (bind_cons _ _ SP _ tt (char_exact SP _)).
  assert (P : p_map_res (p_take_while (fun c => negb (c =? LF))) utf8 (e_message e ++ LF :: rest) = ROk (length (e_message e)) (e_message e)).
  { eapply map_res_app; [apply take_while_exact; [exact L | reflexivity] | unfold utf8; rewrite U; reflexivity]. }
  rewrite (bind_app _ _ _ _ _ P).
  unfold p_newline. rewrite (bind_cons _ _ LF rest tt (char_exact LF rest)).
  unfold p_ret. cbn [shift fst snd]. f_equal. len_tac.
Qed.

(* ---------- one builder step per component ---------- *)

Lemma parsed_nonempty buf n c : parse_component buf = ROk n c -> buf <> [].
Proof.
  intros H. destruct (parse_ok_stable buf n c H) as [[L1 L2] _]. intros ->. cbn [length] in L2. lia.
Qed.

Lemma bparse_step st buf n c :
  parse_component buf = ROk n c -> bparse_all st buf = bstep_ne st buf bparse_all.
Proof. intros H. rewrite bparse_all_unfold. apply bstep_nonempty. exact (parsed_nonempty buf n c H). Qed.

Lemma step_field st k v rest :
  wf_field (k, v) = true -> bparse_all st (enc_field k v ++ rest) = bparse_all (b_field st k v) rest.
Proof.
  intros W. pose proof (rt_field k v rest W) as P.
  rewrite (bparse_step _ _ _ _ P). unfold bstep_ne. rewrite P, skipn_app_exact. reflexivity.
Qed.

Lemma step_binary st d rest :
  wf_payload d = true -> bparse_all st (enc_binary d ++ rest) = bparse_all (b_binary st d) rest.
Proof.
  intros W. pose proof (rt_binary d rest W) as P.
  rewrite (bparse_step _ _ _ _ P). unfold bstep_ne. rewrite P, skipn_app_exact, firstn_app_exact.
  (* the payload is the [length d] bytes that precede the final line feed of the part *)
  replace (firstn (length d) (skipn (length (enc_binary d) - (length d + 1)) (enc_binary d))) with d; [reflexivity|].
  rewrite enc_binary_shape.
  replace (length (bin_header (N.of_nat (length d)) ++ d ++ [LF]) - (length d + 1))%nat
    with (length (bin_header (N.of_nat (length d)))) by len_tac.
  rewrite skipn_app_exact, firstn_app_exact. reflexivity.
Qed.

Lemma step_list_ok st rest :
  bparse_all st (enc_list_ok ++ rest) = bparse_all (b_finish_frame st) rest.
Proof.
  pose proof (rt_list_ok rest) as P.
  rewrite (bparse_step _ _ _ _ P). unfold bstep_ne. rewrite P, skipn_app_exact. reflexivity.
Qed.

Lemma step_ok st rest : bparse_all st (enc_ok ++ rest) = (Initial, rest, Complete (b_finish st)).
Proof.
  pose proof (rt_ok rest) as P.
  rewrite (bparse_step _ _ _ _ P). unfold bstep_ne. rewrite P, skipn_app_exact. reflexivity.
Qed.

Lemma step_error st e rest :
  wf_err e = true -> bparse_all st (enc_error e ++ rest) = (Initial, rest, Complete (b_error st e)).
Proof.
  intros W. pose proof (rt_error e rest W) as P.
  rewrite (bparse_step _ _ _ _ P). unfold bstep_ne. rewrite P, skipn_app_exact. destruct e; reflexivity.
Qed.

(* ---------- frames: the parts in wire order through the builder ---------- *)

Definition b_part (st : bstate) (p : part) : bstate :=
  match p with PField k v => b_field st k v | PBinary d => b_binary st d end.

Definition add_part (f : frame) (p : part) : frame :=
  match p with PField k v => push_field f k v | PBinary d => set_binary f d end.

Definition wf_part (p : part) : bool :=
  match p with PField k v => wf_field (k, v) | PBinary d => wf_payload d end.

Lemma parts_run : forall ps st rest,
  forallb wf_part ps = true ->
  bparse_all st (flat_map enc_part ps ++ rest) = bparse_all (fold_left b_part ps st) rest.
Proof.
  induction ps as [|p ps IH]; intros st rest W; [reflexivity|].
  cbn [forallb] in W. apply andb_true_iff in W as [W1 W2].
  cbn [flat_map fold_left]. rewrite <- app_assoc.
  destruct p as [k v|d]; cbn [enc_part wf_part b_part] in *.
  - rewrite (step_field st k v _ W1). apply IH. exact W2.
  - rewrite (step_binary st d _ W1). apply IH. exact W2.
Qed.

(* what the builder state is made of: the frame being built, the frames completed so far, and
   whether a list_OK was seen (Initial behaves as "an empty frame in progress") *)
Definition cur_of (st : bstate) : frame :=
  match st with Initial => empty_frame | InProgress c => c | ListInProgress c _ => c end.
Definition done_of (st : bstate) : list frame :=
  match st with ListInProgress _ d => d | _ => [] end.
Definition is_list (st : bstate) : bool :=
  match st with ListInProgress _ _ => true | _ => false end.

Lemma b_part_view st p :
  cur_of (b_part st p) = add_part (cur_of st) p /\ done_of (b_part st p) = done_of st /\ is_list (b_part st p) = is_list st.
Proof. destruct st, p; repeat split; reflexivity. Qed.

Lemma fold_b_part_view : forall ps st,
  cur_of (fold_left b_part ps st) = fold_left add_part ps (cur_of st) /\
  done_of (fold_left b_part ps st) = done_of st /\
  is_list (fold_left b_part ps st) = is_list st.
Proof.
  induction ps as [|p ps IH]; intros st; [repeat split; reflexivity|].
  cbn [fold_left]. destruct (IH (b_part st p)) as (I1 & I2 & I3). destruct (b_part_view st p) as (V1 & V2 & V3).
  rewrite I1, I2, I3, V1, V2, V3. repeat split; reflexivity.
Qed.

Lemma b_finish_view st : b_finish st = mkResp (if is_list st then done_of st else [cur_of st]) None.
Proof. destruct st; reflexivity. Qed.
Lemma b_error_view st e : b_error st e = mkResp (done_of st) (Some e).
Proof. destruct st; reflexivity. Qed.
Lemma b_finish_frame_view st : b_finish_frame st = ListInProgress empty_frame (done_of st ++ [cur_of st]).
Proof. destruct st; reflexivity. Qed.

Definition field_part (kv : bytes * bytes) : part := PField (fst kv) (snd kv).

Lemma fold_add_fields : forall fs c,
  fold_left add_part (map field_part fs) c = mkFrame (f_fields c ++ fs) (f_binary c).
Proof.
  induction fs as [|[k v] fs IH]; intros c.
  - cbn [map fold_left]. rewrite app_nil_r. destruct c; reflexivity.
  - cbn [map fold_left]. rewrite IH. unfold field_part, add_part, push_field. cbn [fst snd f_fields f_binary].
    rewrite <- app_assoc. reflexivity.
Qed.

(* the decoded frame: fields in order, payload set once — wherever the binary part stood *)
Lemma frame_fold f c :
  fold_left add_part (frame_parts f) c =
  mkFrame (f_fields c ++ af_fields f) (match af_bin f with Some d => Some d | None => f_binary c end).
Proof.
  unfold frame_parts. fold field_part. destruct (af_bin f) as [d|].
  - rewrite fold_left_app. cbn [fold_left]. rewrite firstn_map, skipn_map, !fold_add_fields.
    unfold add_part, set_binary. cbn [f_fields f_binary]. rewrite <- app_assoc, firstn_skipn. reflexivity.
  - apply fold_add_fields.
Qed.

Lemma frame_fold_empty f : fold_left add_part (frame_parts f) empty_frame = dec_frame f.
Proof. rewrite frame_fold. unfold dec_frame, empty_frame. cbn [f_fields f_binary app]. destruct (af_bin f); reflexivity. Qed.

Lemma forallb_firstn_skipn {A} (p : A -> bool) n l :
  forallb p l = true -> forallb p (firstn n l) = true /\ forallb p (skipn n l) = true.
Proof. intros H. rewrite <- (firstn_skipn n l), forallb_app in H. apply andb_true_iff in H. exact H. Qed.

Lemma wf_frame_parts f : wf_frame f = true -> forallb wf_part (frame_parts f) = true.
Proof.
  unfold wf_frame, frame_parts. fold field_part. intros H. apply andb_true_iff in H as [F B].
  assert (M : forallb wf_part (map field_part (af_fields f)) = true).
  { clear B. induction (af_fields f) as [|[k v] fs IH]; [reflexivity|]. cbn [forallb map] in *.
    apply andb_true_iff in F as [F1 F2]. unfold field_part at 1. cbn [wf_part fst snd]. rewrite F1. exact (IH F2). }
  destruct (af_bin f) as [d|]; [|exact M].
  destruct (forallb_firstn_skipn wf_part (af_binpos f) _ M) as [M1 M2].
  rewrite forallb_app. cbn [forallb wf_part]. rewrite M1, M2, B. reflexivity.
Qed.

(* C03, frames: the encoded frame drives the builder from the frame [cur_of st] to that frame
   extended by the fields in order and the payload *)
Lemma frame_run st f rest :
  wf_frame f = true ->
  bparse_all st (enc_frame f ++ rest) = bparse_all (fold_left b_part (frame_parts f) st) rest.
Proof. intros W. unfold enc_frame. apply parts_run. apply wf_frame_parts. exact W. Qed.

(* ---------- responses ---------- *)

Definition enc_list_frames (fs : list aframe) : bytes := flat_map (fun f => enc_frame f ++ enc_list_ok) fs.

(* one frame of a command list, closed by list_OK *)
Lemma list_frame_run st f rest :
  wf_frame f = true -> cur_of st = empty_frame ->
  bparse_all st (enc_frame f ++ enc_list_ok ++ rest) =
  bparse_all (ListInProgress empty_frame (done_of st ++ [dec_frame f])) rest.
Proof.
  intros W C. rewrite (frame_run st f _ W), step_list_ok, b_finish_frame_view.
  destruct (fold_b_part_view (frame_parts f) st) as (V1 & V2 & _).
  rewrite V1, V2, C, frame_fold_empty. reflexivity.
Qed.

Definition after_list (st : bstate) (fs : list aframe) : bstate :=
  match fs with
  | [] => st
  | _ => ListInProgress empty_frame (done_of st ++ map dec_frame fs)
  end.

Lemma list_frames_run : forall fs st rest,
  forallb wf_frame fs = true -> cur_of st = empty_frame ->
  bparse_all st (enc_list_frames fs ++ rest) = bparse_all (after_list st fs) rest.
Proof.
  induction fs as [|f fs IH]; intros st rest W C; [reflexivity|].
  cbn [forallb] in W. apply andb_true_iff in W as [W1 W2].
  unfold enc_list_frames. cbn [flat_map]. fold (enc_list_frames fs). rewrite <- !app_assoc.
  rewrite (list_frame_run st f _ W1 C).
  rewrite (IH (ListInProgress empty_frame (done_of st ++ [dec_frame f])) rest W2 eq_refl).
  unfold after_list. destruct fs as [|g fs]; [reflexivity|].
  cbn [done_of map]. rewrite <- app_assoc. reflexivity.
Qed.

Lemma after_list_view st fs :
  cur_of st = empty_frame ->
  cur_of (after_list st fs) = empty_frame /\
  done_of (after_list st fs) = done_of st ++ map dec_frame fs /\
  (fs <> [] -> is_list (after_list st fs) = true).
Proof.
  intros C. destruct fs as [|f fs]; cbn [after_list map].
  - rewrite app_nil_r. repeat split; [exact C | congruence].
  - repeat split; reflexivity.
Qed.

(* the end of a response: OK, or a partial frame (dropped) and ACK *)
Lemma end_run st r rest :
  wf_end r = true ->
  bparse_all st (enc_end r ++ rest) =
  (Initial, rest, Complete (match a_error r with
                            | None => b_finish st
                            | Some e => mkResp (done_of st) (Some e)
                            end)).
Proof.
  unfold wf_end, enc_end. intros W. destruct (a_error r) as [e|]; [|apply step_ok].
  apply andb_true_iff in W as [WE WP]. rewrite <- app_assoc.
  destruct (a_partial r) as [f|]; cbn [enc_partial].
  - rewrite (frame_run st f _ WP), (step_error _ e rest WE), b_error_view.
    destruct (fold_b_part_view (frame_parts f) st) as (_ & V2 & _). rewrite V2. reflexivity.
  - cbn [app]. rewrite (step_error _ e rest WE), b_error_view. reflexivity.
Qed.

Lemma wf_resp_parts r : wf_resp r = true ->
  wf_shape r = true /\ forallb wf_frame (a_frames r) = true /\ wf_end r = true.
Proof.
  unfold wf_resp. intros H. apply andb_true_iff in H as [H H3]. apply andb_true_iff in H as [H1 H2]. auto.
Qed.

(* C03, one response: the encoding of a well-formed abstract response, followed by ANY bytes, is
   decoded into exactly that response; the builder is back in its initial state and the bytes that
   follow are all still there. *)
Theorem roundtrip_one r rest :
  wf_resp r = true ->
  bparse_all Initial (enc r ++ rest) = (Initial, rest, Complete (decoded r)).
Proof.
  intros W. destruct (wf_resp_parts r W) as (S & F & E).
  unfold enc, decoded, wf_shape in *. destruct (a_form r).
  - (* single form *)
    destruct (a_error r) as [e|] eqn:AE.
    + destruct (a_frames r) as [|f fs]; [|discriminate S].
      pose proof (end_run Initial r rest E) as R. rewrite AE in R. exact R.
    + destruct (a_frames r) as [|f [|g fs]]; try discriminate S.
      cbn [forallb] in F. apply andb_true_iff in F as [F1 _].
      cbn [hd_error enc_partial map]. rewrite <- app_assoc.
      rewrite (frame_run Initial f _ F1), step_ok, b_finish_view.
      destruct (fold_b_part_view (frame_parts f) Initial) as (V1 & _ & V3).
      rewrite V1, V3. cbn [is_list cur_of]. rewrite frame_fold_empty. reflexivity.
  - (* list form *)
    fold (enc_list_frames (a_frames r)). rewrite <- app_assoc.
    rewrite (list_frames_run (a_frames r) Initial _ F eq_refl).
    rewrite (end_run _ r rest E).
    destruct (after_list_view Initial (a_frames r) eq_refl) as (_ & V2 & V3).
    destruct (a_error r) as [e|].
    + rewrite V2. reflexivity.
    + rewrite b_finish_view, V2, V3; [reflexivity|].
      destruct (a_frames r); [discriminate S | discriminate].
Qed.

(* the empty command list is the one ambiguity of the wire format (hence [wf_shape]): its reply is
   the bytes of the single form of an empty frame, and is decoded as ONE empty frame *)
Lemma empty_list_reply_is_one_empty_frame rest :
  enc (mkAResp FList [] None None) = enc (mkAResp FSingle [mkAFrame [] None 0] None None) /\
  bparse_all Initial (enc (mkAResp FList [] None None) ++ rest) = (Initial, rest, Complete (mkResp [empty_frame] None)).
Proof. split; [reflexivity|]. exact (step_ok Initial rest). Qed.

(* ---------- streams of responses through the reference run ---------- *)

Lemma ref_receive_one r rest t :
  wf_resp r = true -> ref_receive (enc r ++ rest) t = (Resp (decoded r), rest).
Proof. intros W. unfold ref_receive. rewrite (roundtrip_one r rest W). reflexivity. Qed.

(* C03, streams: responses written back to back are received one per call, in order, exactly as
   encoded; after them the run continues on exactly the bytes that follow (no hypothesis on them) *)
Theorem roundtrip_stream : forall rs rest t fuel,
  Forall (fun r => wf_resp r = true) rs ->
  ref_run (length rs + fuel) (flat_map enc rs ++ rest) t =
  map (fun r => Resp (decoded r)) rs ++ ref_run fuel rest t.
Proof.
  induction rs as [|r rs IH]; intros rest t fuel W; [reflexivity|].
  inversion W as [|r' rs' W1 W2]; subst.
  cbn [length flat_map Nat.add ref_run map app]. rewrite <- app_assoc.
  rewrite (ref_receive_one r _ t W1). rewrite (IH rest t fuel W2). reflexivity.
Qed.

Corollary roundtrip_stream_firstn rs rest t fuel :
  Forall (fun r => wf_resp r = true) rs -> (length rs <= fuel)%nat ->
  firstn (length rs) (ref_run fuel (flat_map enc rs ++ rest) t) = map (fun r => Resp (decoded r)) rs.
Proof.
  intros W L. replace fuel with (length rs + (fuel - length rs))%nat by lia.
  rewrite (roundtrip_stream rs rest t _ W).
  rewrite <- (map_length (fun r => Resp (decoded r)) rs) at 1. apply firstn_app_exact.
Qed.

(* with C02 (run_ref): the same under EVERY segmentation of the stream into reads and for both
   connection flavours (any buffer policy that always offers room) *)
Corollary roundtrip_connection rs rest fuel c rd :
  wf_reader rd -> pol_ok (c_policy c) (length (c_buf c)) -> c_state c = Initial ->
  stream (c_buf c) rd = flat_map enc rs ++ rest ->
  Forall (fun r => wf_resp r = true) rs ->
  run (length rs + fuel) 0 c rd = map (fun r => Resp (decoded r)) rs ++ ref_run fuel rest (rtail rd).
Proof.
  intros WR P I S W. rewrite (run_ref _ c rd WR P I), S. apply roundtrip_stream. exact W.
Qed.
