(* RoundTripProofs.v — C03: decode (enc r) = r for every well-formed abstract response.
   One evaluation lemma per component kind (field line, binary part, list_OK, OK, ACK) on
   [parse_component], with the ordered choice made explicit (the earlier alternatives answer
   RError — not RIncomplete, not RFailure — on a later alternative's well-formed line); then frames
   and responses through the builder; then streams of responses through the reference run. *)
From Coq Require Import ZifyBool ZifyN ZifyNat PeanoNat.
From MPD Require Import Bytes Tables ParserModel BuilderModel Grammar ConnModel ParserProofs ConnProofs GrammarProofs.
Open Scope N_scope.

(* ---------- sequencing without skipn ---------- *)

Definition shift {A} (n : nat) (r : res A) : res A :=
  match r with ROk m w => ROk (n + m) w | RIncomplete => RIncomplete | RError => RError | RFailure => RFailure end.

Lemma bind_app {A B} (p : parser A) (f : A -> parser B) a r v :
  p (a ++ r) = ROk (length a) v -> p_bind p f (a ++ r) = shift (length a) (f v r).
Proof. intros H. unfold p_bind. rewrite H, skipn_app_exact. destruct (f v r); reflexivity. Qed.

Lemma bind_cons {A B} (p : parser A) (f : A -> parser B) c r v :
  p (c :: r) = ROk 1 v -> p_bind p f (c :: r) = shift 1 (f v r).
Proof. intros H. exact (bind_app p f [c] r v H). Qed.

Lemma bind_error {A B} (p : parser A) (f : A -> parser B) i : p i = RError -> p_bind p f i = RError.
Proof. intros H. unfold p_bind. rewrite H. reflexivity. Qed.

Lemma map_res_app {A B} (p : parser A) (f : A -> option B) i n v w :
  p i = ROk n v -> f v = Some w -> p_map_res p f i = ROk n w.
Proof. intros H F. unfold p_map_res. rewrite H, F. reflexivity. Qed.

Lemma map_res_none {A B} (p : parser A) (f : A -> option B) i n v :
  p i = ROk n v -> f v = None -> p_map_res p f i = RError.
Proof. intros H F. unfold p_map_res. rewrite H, F. reflexivity. Qed.

Lemma map_res_error {A B} (p : parser A) (f : A -> option B) i : p i = RError -> p_map_res p f i = RError.
Proof. intros H. unfold p_map_res. rewrite H. reflexivity. Qed.

Lemma alt_error {A} (p q : parser A) i : p i = RError -> p_alt p q i = q i.
Proof. intros H. unfold p_alt. rewrite H. reflexivity. Qed.

Lemma char_exact c r : p_char c (c :: r) = ROk 1 tt.
Proof. unfold p_char. rewrite N.eqb_refl. reflexivity. Qed.

Lemma char_error c x r : x <> c -> p_char c (x :: r) = RError.
Proof. intros H. unfold p_char. apply N.eqb_neq in H. rewrite H. reflexivity. Qed.

Lemma take_while_exact p s c r :
  forallb p s = true -> p c = false -> p_take_while p (s ++ c :: r) = ROk (length s) s.
Proof.
  intros H Hc. unfold p_take_while. rewrite (span_len_all p s H c r Hc), firstn_app_exact. reflexivity.
Qed.

(* ---------- decimal numerals: render then parse ---------- *)

Lemma rt_dec_acc_snoc ds : forall a d, dec_acc a (ds ++ [d]) = dec_acc a ds * 10 + digit_val d.
Proof. induction ds as [|x ds IH]; intros a d; cbn [dec_acc app]; [reflexivity | apply IH]. Qed.

Lemma rt_digit n : is_digit (48 + n mod 10) = true /\ digit_val (48 + n mod 10) = n mod 10.
Proof.
  pose proof (N.mod_upper_bound n 10 ltac:(lia)) as U.
  unfold is_digit, in_range, digit_val. split; lia.
Qed.

Lemma rt_render_aux_S f n acc :
  render_dec_aux (S f) n acc =
  if n / 10 =? 0 then (48 + n mod 10) :: acc else render_dec_aux f (n / 10) ((48 + n mod 10) :: acc).
Proof. reflexivity. Qed.

Lemma rt_render_aux : forall f n acc, n < 2 ^ N.of_nat (S f) ->
  exists ds, render_dec_aux (S f) n acc = ds ++ acc /\ ds <> [] /\ forallb is_digit ds = true /\ dec_value ds = n.
Proof.
  induction f as [|f IH]; intros n acc B.
  - (* n < 2: one digit *)
    change (2 ^ N.of_nat 1) with 2 in B.
    exists [48 + n mod 10]. rewrite rt_render_aux_S.
    assert (E : n / 10 = 0) by (apply N.div_small; lia). rewrite E. change (0 =? 0) with true. cbv iota.
    destruct (rt_digit n) as [D V].
    repeat split; [discriminate | cbn [forallb]; rewrite D; reflexivity |].
    unfold dec_value. cbn [dec_acc]. rewrite V. rewrite N.mod_small by lia. lia.
  - rewrite rt_render_aux_S. destruct (n / 10 =? 0) eqn:E.
    + apply N.eqb_eq in E. exists [48 + n mod 10]. destruct (rt_digit n) as [D V].
      repeat split; [discriminate | cbn [forallb]; rewrite D; reflexivity |].
      unfold dec_value. cbn [dec_acc]. rewrite V.
      pose proof (N.div_mod n 10 ltac:(lia)) as M. lia.
    + apply N.eqb_neq in E.
      assert (B2 : n / 10 < 2 ^ N.of_nat (S f)).
      { replace (N.of_nat (S (S f))) with (N.succ (N.of_nat (S f))) in B by lia.
        rewrite N.pow_succ_r' in B.
        apply N.div_lt_upper_bound; lia. }
      destruct (IH (n / 10) ((48 + n mod 10) :: acc) B2) as (ds & R & Ne & D & V).
      exists (ds ++ [48 + n mod 10]). destruct (rt_digit n) as [D1 V1].
      repeat split.
      * rewrite R, <- app_assoc. reflexivity.
      * destruct ds; discriminate.
      * rewrite forallb_app, D. cbn [forallb]. rewrite D1. reflexivity.
      * unfold dec_value in *. rewrite rt_dec_acc_snoc, V, V1.
        pose proof (N.div_mod n 10 ltac:(lia)) as M. lia.
Qed.

(* the decimal rendering of n is a non-empty digit string whose value is n *)
Lemma rt_render_parse n :
  render_dec n <> [] /\ forallb is_digit (render_dec n) = true /\ dec_value (render_dec n) = n.
Proof.
  assert (B : n < 2 ^ N.of_nat (S (N.to_nat (N.log2 n)))).
  { replace (N.of_nat (S (N.to_nat (N.log2 n)))) with (N.succ (N.log2 n)) by lia.
    destruct n as [|p]; [reflexivity|]. apply N.log2_spec. lia. }
  destruct (rt_render_aux _ n [] B) as (ds & R & Ne & D & V).
  unfold render_dec. rewrite R, app_nil_r. auto.
Qed.

Lemma rt_parse_digits_render bits n : n < 2 ^ bits -> parse_digits bits (render_dec n) = Some n.
Proof.
  intros B. destruct (rt_render_parse n) as (Ne & D & V). unfold parse_digits.
  destruct (render_dec n) as [|x ds] eqn:E; [congruence|]. rewrite D, V.
  apply N.ltb_lt in B. rewrite B. reflexivity.
Qed.

(* p_number on a rendered numeral followed by a non-digit *)
Lemma rt_number bits n c r :
  n < 2 ^ bits -> is_digit c = false ->
  p_number bits (render_dec n ++ c :: r) = ROk (length (render_dec n)) n.
Proof.
  intros B C. destruct (rt_render_parse n) as (Ne & D & V). unfold p_number.
  eapply map_res_app; [apply take_while1_exact; assumption | apply rt_parse_digits_render; exact B].
Qed.

(* ---------- character classes ---------- *)

Lemma key_char_ascii c : parser_key_charset c = true -> c <? 128 = true.
Proof. unfold parser_key_charset, is_alpha, is_upper, is_lower, in_range. lia. Qed.

Lemma cmd_char_ascii c : parser_command_charset c = true -> c <? 128 = true.
Proof. unfold parser_command_charset, is_alpha, is_upper, is_lower, in_range. lia. Qed.

Lemma ascii_utf8 s : forallb (fun c => c <? 128) s = true -> utf8_valid s = true.
Proof.
  induction s as [|a s IH]; intros H; [reflexivity|]. cbn [forallb] in H.
  apply andb_true_iff in H as [H1 H2]. cbn [utf8_valid]. rewrite H1. exact (IH H2).
Qed.

Lemma forallb_impl {A} (p q : A -> bool) s :
  (forall c, p c = true -> q c = true) -> forallb p s = true -> forallb q s = true.
Proof.
  intros I. induction s as [|a s IH]; intros H; [reflexivity|]. cbn [forallb] in *.
  apply andb_true_iff in H as [H1 H2]. rewrite (I a H1), (IH H2). reflexivity.
Qed.

Lemma key_utf8 k : forallb parser_key_charset k = true -> utf8 k = Some k.
Proof.
  intros H. unfold utf8. rewrite ascii_utf8; [reflexivity|]. exact (forallb_impl _ _ k key_char_ascii H).
Qed.

Lemma cmd_utf8 k : forallb parser_command_charset k = true -> utf8 k = Some k.
Proof.
  intros H. unfold utf8. rewrite ascii_utf8; [reflexivity|]. exact (forallb_impl _ _ k cmd_char_ascii H).
Qed.

(* ---------- a tag against a line that starts with a key and a colon ---------- *)

(* tag = w x …, line = k ':' …, both w and k over the key charset, x neither a key character nor
   the colon: the tag answers RError — it cannot match and it cannot be waiting for more bytes,
   because the line already differs from it at or before the position of its colon. *)
Lemma tag_vs_key w : forall x t k r,
  forallb parser_key_charset w = true -> parser_key_charset x = false -> x <> 58 ->
  forallb parser_key_charset k = true ->
  p_tag (w ++ x :: t) (k ++ 58 :: r) = RError.
Proof.
  induction w as [|a w IH]; intros x t k r W X X58 K.
  - destruct k as [|c k]; cbn [app p_tag].
    + assert (E : (x =? 58) = false) by (apply N.eqb_neq; exact X58). rewrite E. reflexivity.
    + cbn [forallb] in K. apply andb_true_iff in K as [K1 K2].
      assert (E : (x =? c) = false) by (apply N.eqb_neq; intros ->; congruence). rewrite E. reflexivity.
  - cbn [forallb] in W. apply andb_true_iff in W as [W1 W2].
    destruct k as [|c k]; cbn [app p_tag].
    + assert (E : (a =? 58) = false) by (apply N.eqb_neq; intros ->; discriminate W1). rewrite E. reflexivity.
    + cbn [forallb] in K. apply andb_true_iff in K as [K1 K2].
      destruct (a =? c); [|reflexivity].
      rewrite (IH x t k r W2 X X58 K2). reflexivity.
Qed.

(* tag = w ':' …, line = k ':' … with w <> k: RError as well *)
Lemma tag_other_key w : forall t k r,
  forallb parser_key_charset w = true -> forallb parser_key_charset k = true -> w <> k ->
  p_tag (w ++ 58 :: t) (k ++ 58 :: r) = RError.
Proof.
  induction w as [|a w IH]; intros t k r W K N.
  - destruct k as [|c k]; [congruence|]. cbn [app p_tag].
    cbn [forallb] in K. apply andb_true_iff in K as [K1 K2].
    assert (E : (58 =? c) = false) by (apply N.eqb_neq; intros <-; discriminate K1). rewrite E. reflexivity.
  - cbn [forallb] in W. apply andb_true_iff in W as [W1 W2].
    destruct k as [|c k]; cbn [app p_tag].
    + assert (E : (a =? 58) = false) by (apply N.eqb_neq; intros ->; discriminate W1). rewrite E. reflexivity.
    + cbn [forallb] in K. apply andb_true_iff in K as [K1 K2].
      destruct (a =? c) eqn:E; [|reflexivity]. apply N.eqb_eq in E. subst c.
      rewrite (IH t k r W2 K2); [reflexivity | congruence].
Qed.

(* the first three alternatives of parse_component on any line "key: …" *)
Lemma not_ok_line k r : forallb parser_key_charset k = true ->
  p_map (p_tag (b "OK" ++ [LF])) (fun _ => EndOfResponse) (k ++ 58 :: r) = RError.
Proof.
  intros K. apply map_res_error. apply (tag_vs_key (b "OK") LF [] k r); [reflexivity | reflexivity | discriminate | exact K].
Qed.

Lemma not_list_ok_line k r : forallb parser_key_charset k = true ->
  p_map (p_tag (b "list_OK" ++ [LF])) (fun _ => EndOfFrame) (k ++ 58 :: r) = RError.
Proof.
  intros K. apply map_res_error. apply (tag_vs_key (b "list_OK") LF [] k r); [reflexivity | reflexivity | discriminate | exact K].
Qed.

Lemma not_ack_line k r : forallb parser_key_charset k = true -> p_error (k ++ 58 :: r) = RError.
Proof.
  intros K. unfold p_error. apply bind_error.
  apply (tag_vs_key (b "ACK") SP [] k r); [reflexivity | reflexivity | discriminate | exact K].
Qed.

(* ---------- the field line ---------- *)

Lemma forallb_false_split {A} (p : A -> bool) s :
  forallb p s = false -> exists s1 c s2, s = s1 ++ c :: s2 /\ forallb p s1 = true /\ p c = false.
Proof.
  induction s as [|a s IH]; intros H; [discriminate|]. cbn [forallb] in H.
  destruct (p a) eqn:E.
  - destruct (IH H) as (s1 & c & s2 & -> & H1 & H2). exists (a :: s1), c, s2.
    cbn [forallb app]. rewrite E. auto.
  - exists [], a, s. auto.
Qed.

Lemma no_lf_app s1 c s2 : no_lf (s1 ++ c :: s2) = true -> c <> LF.
Proof.
  unfold no_lf. rewrite forallb_app. cbn [forallb]. intros H.
  apply andb_true_iff in H as [_ H]. apply andb_true_iff in H as [H _]. intros ->. discriminate H.
Qed.

(* "binary: v\n" with v not a u64 numeral is not a binary header: the prefix parser answers RError
   (so the cut behind it is never reached) *)
Lemma binary_prefix_error v rest :
  no_lf v = true -> parse_digits 64 v = None ->
  p_binary_prefix (b "binary: " ++ v ++ LF :: rest) = RError.
Proof.
  intros L P. unfold p_binary_prefix. rewrite (bind_app _ _ (b "binary: ") _ tt (tag_exact _ _)).
  cbn [shift]. enough (E : p_bind (p_number 64) (fun n => p_newline;;; p_ret n) (v ++ LF :: rest) = RError) by (rewrite E; reflexivity).
  destruct (forallb is_digit v) eqn:D.
  - (* all digits: empty, or overflow *)
    apply bind_error. unfold p_number.
    destruct v as [|x v'].
    + apply map_res_error. apply take_while1_empty. reflexivity.
    + eapply map_res_none; [apply take_while1_exact; [discriminate | exact D | reflexivity] | exact P].
  - (* a non-digit c (not LF) inside v *)
    destruct (forallb_false_split _ _ D) as (ds & c & v2 & -> & D1 & D2).
    pose proof (no_lf_app _ _ _ L) as CL. rewrite <- app_assoc. cbn [app].
    destruct ds as [|x ds'].
    + apply bind_error. unfold p_number. apply map_res_error. apply take_while1_empty. exact D2.
    + destruct (parse_digits 64 (x :: ds')) as [n|] eqn:PD.
      * assert (N : p_number 64 ((x :: ds') ++ c :: v2 ++ LF :: rest) = ROk (length (x :: ds')) n).
        { unfold p_number. eapply map_res_app; [apply take_while1_exact; [discriminate | exact D1 | exact D2] | exact PD]. }
        rewrite (bind_app _ _ _ _ _ N).
        unfold p_newline. rewrite (bind_error _ _ _ (char_error LF c _ CL)). reflexivity.
      * apply bind_error. unfold p_number.
        eapply map_res_none; [apply take_while1_exact; [discriminate | exact D1 | exact D2] | exact PD].
Qed.

Lemma not_binary_line k v rest :
  forallb parser_key_charset k = true -> no_lf v = true -> is_binary_header k v = false ->
  p_binary (k ++ b ": " ++ v ++ LF :: rest) = RError.
Proof.
  intros K L H. unfold p_binary. apply bind_error.
  destruct (beq k (b "binary")) eqn:E.
  - apply beq_eq in E. subst k. unfold is_binary_header in H. rewrite beq_refl in H. cbn [andb] in H.
    destruct (parse_digits 64 v) eqn:P; [discriminate|].
    exact (binary_prefix_error v rest L P).
  - unfold p_binary_prefix. apply bind_error.
    apply (tag_other_key (b "binary") [SP] k); [reflexivity | exact K |].
    intros <-. rewrite beq_refl in E. discriminate.
Qed.

Lemma key_value_line k v rest :
  k <> [] -> forallb parser_key_charset k = true -> wf_text v = true ->
  p_key_value (k ++ b ": " ++ v ++ LF :: rest) = ROk (length (enc_field k v)) (CField k v).
Proof.
  intros N K T. unfold wf_text in T. apply andb_true_iff in T as [U L].
  unfold p_key_value.
  assert (P1 : p_map_res (p_take_while1 parser_key_charset) utf8 (k ++ b ": " ++ v ++ LF :: rest) = ROk (length k) k).
  { eapply map_res_app; [apply take_while1_exact; [exact N | exact K | reflexivity] | apply key_utf8; exact K]. }
  rewrite (bind_app _ _ _ _ _ P1).
  rewrite (bind_app _ _ (b ": ") _ tt (tag_exact _ _)).
  assert (P2 : p_map_res p_field_value utf8 (v ++ LF :: rest) = ROk (length (v ++ [LF])) v).
  { eapply map_res_app; [|unfold utf8; rewrite U; reflexivity].
    unfold p_field_value.
    rewrite (bind_app _ _ v _ v (take_while_exact _ v LF rest L ltac:(reflexivity))).
    rewrite (bind_cons _ _ LF rest tt (char_exact LF rest)). unfold p_ret. cbn [shift].
    f_equal. rewrite app_length. cbn [length]. lia. }
  replace (v ++ LF :: rest) with ((v ++ [LF]) ++ rest) in * by (rewrite <- app_assoc; reflexivity).
  rewrite (bind_app _ _ _ _ _ P2). unfold p_ret. cbn [shift]. f_equal.
  unfold enc_field. rewrite !app_length. cbn [length]. lia.
Qed.

Lemma wf_field_parts k v : wf_field (k, v) = true ->
  k <> [] /\ forallb parser_key_charset k = true /\ wf_text v = true /\ no_lf v = true /\ is_binary_header k v = false.
Proof.
  unfold wf_field, wf_key. cbn [fst snd]. intros H.
  apply andb_true_iff in H as [H H3]. apply andb_true_iff in H as [H H2]. apply andb_true_iff in H as [H0 H1].
  repeat split; try assumption.
  - intros ->. discriminate H0.
  - unfold wf_text in H2. apply andb_true_iff in H2 as [_ H2]. exact H2.
  - destruct (is_binary_header k v); [discriminate | reflexivity].
Qed.

Lemma enc_field_shape k v rest : enc_field k v ++ rest = k ++ b ": " ++ v ++ LF :: rest.
Proof. unfold enc_field. rewrite <- !app_assoc. reflexivity. Qed.

(* C03, component 1: a well-formed field line is a Field — whatever its value looks like *)
Theorem rt_field k v rest :
  wf_field (k, v) = true ->
  parse_component (enc_field k v ++ rest) = ROk (length (enc_field k v)) (CField k v).
Proof.
  intros W. destruct (wf_field_parts k v W) as (N & K & T & L & H).
  rewrite enc_field_shape. unfold parse_component.
  set (i := k ++ b ": " ++ v ++ LF :: rest).
  assert (A1 : p_map (p_tag (b "OK" ++ [LF])) (fun _ => EndOfResponse) i = RError)
    by exact (not_ok_line k (SP :: v ++ LF :: rest) K).
  assert (A2 : p_map (p_tag (b "list_OK" ++ [LF])) (fun _ => EndOfFrame) i = RError)
    by exact (not_list_ok_line k (SP :: v ++ LF :: rest) K).
  assert (A3 : p_error i = RError) by exact (not_ack_line k (SP :: v ++ LF :: rest) K).
  rewrite (alt_error _ _ _ A1), (alt_error _ _ _ A2), (alt_error _ _ _ A3). subst i.
  rewrite (alt_error _ _ _ (not_binary_line k v rest K L H)).
  exact (key_value_line k v rest N K T).
Qed.
