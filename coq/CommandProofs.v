From Coq Require Import ZifyBool ZifyN ZifyNat.
From MPD Require Import Bytes Tables CommandModel MpdTokenizer.
Open Scope N_scope.

(* ---------- facts about the generated predicates, by complete sweep over the 256 bytes ---------- *)

Lemma should_escape_spec c : c < 256 ->
  should_escape c = ((c =? BS) || (c =? DQ) || (c =? SQ)).
Proof.
  intros H. apply Bool.eqb_prop.
  apply (sweep (fun c => Bool.eqb (should_escape c) ((c =? BS) || (c =? DQ) || (c =? SQ)))); [|exact H].
  vm_compute. reflexivity.
Qed.

Lemma argument_reject_spec c : c < 256 -> argument_reject c = true -> c = LF \/ c = 0.
Proof.
  intros H R.
  assert (X : (negb (argument_reject c) || (c =? LF) || (c =? 0)) = true).
  { apply (sweep (fun c => negb (argument_reject c) || (c =? LF) || (c =? 0))); [vm_compute; reflexivity | exact H]. }
  rewrite R in X. simpl in X. apply orb_true_iff in X as [X|X]; apply N.eqb_eq in X; auto.
Qed.

Lemma argument_reject_lf : argument_reject LF = true.
Proof. vm_compute. reflexivity. Qed.

Lemma command_charset_word c : c < 256 -> command_charset c = true -> valid_word_char c = true.
Proof.
  intros H R.
  assert (X : (negb (command_charset c) || valid_word_char c) = true).
  { apply (sweep (fun c => negb (command_charset c) || valid_word_char c)); [vm_compute; reflexivity | exact H]. }
  rewrite R in X. exact X.
Qed.

Lemma command_charset_plain c : c < 256 -> command_charset c = true ->
  is_ws c = false /\ c <> LF /\ c <> 0 /\ c <> SP.
Proof.
  intros H R.
  assert (X : (negb (command_charset c) || (negb (is_ws c) && negb (c =? LF) && negb (c =? 0) && negb (c =? SP))) = true).
  { apply (sweep (fun c => negb (command_charset c) || (negb (is_ws c) && negb (c =? LF) && negb (c =? 0) && negb (c =? SP))));
      [vm_compute; reflexivity | exact H]. }
  rewrite R in X. simpl in X. unfold is_ws in *. lia.
Qed.

Lemma framing_literals :
  command_list_begin = b "command_list_ok_begin" ++ [LF] /\
  command_list_end = b "command_list_end" ++ [LF] /\
  command_list_prefix = b "command_list" /\
  command_list_test_is_prefix = true.
Proof. repeat split; vm_compute; reflexivity. Qed.

(* ---------- Command::build ---------- *)

Lemma index_of_none_forall p s : index_of p s = None <-> Forall (fun c => p c = false) s.
Proof.
  induction s as [|a r IH]; simpl; [split; auto|].
  destruct (p a) eqn:E.
  - split; [discriminate|]. intros H. inversion H. congruence.
  - destruct (index_of p r); simpl.
    + split; [discriminate|]. intros H. inversion H; subst. apply IH in H3. discriminate.
    + split; auto. intros _. constructor; auto. apply IH. reflexivity.
Qed.

Lemma build_ok_iff s c :
  build s = inr c <->
  c = s /\ first_ok s /\ Forall (fun x => command_charset x = true) s /\ is_prefix command_list_prefix s = false.
Proof.
  unfold build, validate_command_part, is_command_list_command, first_ok.
  destruct s as [|a r].
  - split; [discriminate | intros (_ & H & _); contradiction].
  - destruct (command_first_charset a) eqn:F; simpl negb; cbv iota.
    2:{ split; [discriminate | intros (_ & H & _); discriminate]. }
    destruct (index_of (fun x => negb (command_charset x)) (a :: r)) eqn:E.
    + split; [discriminate|]. intros (_ & _ & H & _).
      assert (N : index_of (fun x => negb (command_charset x)) (a :: r) = None).
      { apply index_of_none_forall. eapply Forall_impl; [|exact H]. simpl. intros x Hx. rewrite Hx. reflexivity. }
      congruence.
    + apply index_of_none_forall in E.
      assert (G : Forall (fun x => command_charset x = true) (a :: r)).
      { eapply Forall_impl; [|exact E]. simpl. intros x Hx. destruct (command_charset x); [reflexivity | discriminate]. }
      destruct (is_prefix command_list_prefix (a :: r)) eqn:P.
      * split; [discriminate | intros (_ & _ & _ & H); discriminate].
      * split; [intros H; inversion H; repeat split; auto | intros (-> & _); reflexivity].
Qed.

Lemma first_ok_nonempty s : first_ok s -> s <> [].
Proof. destruct s; [contradiction | discriminate]. Qed.

(* what a rejected name looks like: every s outside the accepted set is an error *)
Lemma build_rejects s :
  ~ first_ok s \/ Exists (fun x => command_charset x = false) s \/ is_prefix command_list_prefix s = true ->
  exists e, build s = inl e.
Proof.
  intros H. destruct (build s) as [e|c] eqn:E; [eauto|].
  apply build_ok_iff in E as (_ & H1 & H2 & H3).
  destruct H as [H|[H|H]]; [contradiction | | congruence].
  apply Exists_exists in H as (x & Hin & Hx). rewrite Forall_forall in H2. rewrite (H2 x Hin) in Hx. discriminate.
Qed.

Lemma first_charset_letter c : c < 256 -> command_first_charset c = true -> valid_word_first c = true.
Proof.
  intros H R.
  assert (X : (negb (command_first_charset c) || valid_word_first c) = true).
  { apply (sweep (fun c => negb (command_first_charset c) || valid_word_first c)); [vm_compute; reflexivity | exact H]. }
  rewrite R in X. exact X.
Qed.

Lemma argument_reject_nul : argument_reject 0 = true.
Proof. vm_compute. reflexivity. Qed.

(* ---------- add_argument ---------- *)

Lemma add_argument_raw_spec c r :
  (Exists (fun x => argument_reject x = true) r -> exists i, add_argument_raw c r = (Some i, c)) /\
  (Forall (fun x => argument_reject x = false) r -> add_argument_raw c r = (None, c ++ [SP] ++ r)).
Proof.
  unfold add_argument_raw, validate_argument. split; intros H.
  - destruct (index_of argument_reject r) eqn:E; [eauto|].
    apply index_of_none_forall in E. apply Exists_exists in H as (x & Hin & Hx).
    rewrite Forall_forall in E. rewrite (E x Hin) in Hx. discriminate.
  - apply index_of_none_forall in H. rewrite H. reflexivity.
Qed.

Lemma add_argument_raw_cases c r :
  (exists i, add_argument_raw c r = (Some i, c) /\ Exists (fun x => argument_reject x = true) r) \/
  (add_argument_raw c r = (None, c ++ [SP] ++ r) /\ Forall (fun x => argument_reject x = false) r).
Proof.
  unfold add_argument_raw, validate_argument.
  destruct (index_of argument_reject r) eqn:E.
  - left. exists n. split; [reflexivity|].
    destruct (Exists_dec (fun x => argument_reject x = true) r) as [H|H]; [intro x; destruct (argument_reject x); auto; right; discriminate | exact H |].
    exfalso. assert (N : index_of argument_reject r = None).
    { apply index_of_none_forall. apply Forall_forall. intros x Hin.
      destruct (argument_reject x) eqn:Ex; [|reflexivity]. exfalso. apply H. apply Exists_exists. eauto. }
    congruence.
  - right. split; [reflexivity | apply index_of_none_forall; exact E].
Qed.

(* ---------- reachable commands contain no line feed ---------- *)

Inductive reach : bytes -> bytes -> Prop :=   (* reach name buffer *)
  | reach_build s : wf_bytes s -> build s = inr s -> reach s s
  | reach_add name c r res c' : reach name c -> wf_bytes r -> add_argument_raw c r = (res, c') -> reach name c'.

Definition no_lf (s : bytes) : Prop := Forall (fun x => x <> LF) s.

Lemma reach_shape name c : reach name c ->
  build name = inr name /\ wf_bytes name /\
  exists rs, Forall (fun r => wf_bytes r /\ Forall (fun x => argument_reject x = false) r) rs /\
             c = name ++ flat_map (fun r => SP :: r) rs.
Proof.
  induction 1 as [s Hw Hb | name c r res c' Hr IH Hw Ha].
  - repeat split; auto. exists []. split; [constructor | rewrite app_nil_r; reflexivity].
  - destruct IH as (Hb & Hn & rs & Hrs & ->). repeat split; auto.
    destruct (add_argument_raw_cases (name ++ flat_map (fun r => SP :: r) rs) r) as [(i & E & _)|(E & F)];
      rewrite E in Ha; inversion Ha; subst.
    + exists rs. auto.
    + exists (rs ++ [r]). split.
      * apply Forall_app. split; auto.
      * rewrite flat_map_app. simpl. rewrite app_nil_r, <- app_assoc. reflexivity.
Qed.

Lemma reach_no_lf name c : reach name c -> no_lf c.
Proof.
  intros H. apply reach_shape in H as (Hb & Hn & rs & Hrs & ->).
  apply build_ok_iff in Hb as (_ & _ & Hc & _).
  unfold no_lf. apply Forall_app. split.
  - apply Forall_forall. intros x Hin. unfold wf_bytes in Hn. rewrite Forall_forall in Hc. rewrite Forall_forall in Hn.
    destruct (command_charset_plain x (Hn x Hin) (Hc x Hin)) as (_ & H & _). exact H.
  - induction Hrs as [|r rs [Hw Hr] _ IH]; simpl; [constructor|].
    constructor; [discriminate|]. apply Forall_app. split; [|exact IH].
    apply Forall_forall. intros x Hin Hx. subst x. rewrite Forall_forall in Hr.
    specialize (Hr LF Hin). rewrite argument_reject_lf in Hr. discriminate.
Qed.

(* ---------- lines of what is written ---------- *)

Lemma split_on_no_sep sep s : Forall (fun x => x <> sep) s -> split_on sep s = [s].
Proof.
  induction 1 as [|a r Ha _ IH]; simpl; [reflexivity|].
  destruct (a =? sep) eqn:E; [apply N.eqb_eq in E; congruence|]. rewrite IH. reflexivity.
Qed.

Lemma split_on_app sep s r :
  Forall (fun x => x <> sep) s -> split_on sep (s ++ sep :: r) = s :: split_on sep r.
Proof.
  induction 1 as [|a s' Ha _ IH]; simpl.
  - rewrite N.eqb_refl. reflexivity.
  - destruct (a =? sep) eqn:E; [apply N.eqb_eq in E; congruence|]. rewrite IH. reflexivity.
Qed.

Lemma lines_send c : no_lf c -> lines (send_bytes c) = [c].
Proof.
  intros H. unfold lines, send_bytes. rewrite (split_on_app LF c [] H). reflexivity.
Qed.

Lemma split_flat_map cmds tail :
  Forall no_lf cmds ->
  split_on LF (flat_map (fun c => c ++ [LF]) cmds ++ tail) = cmds ++ split_on LF tail.
Proof.
  induction 1 as [|c cs Hc _ IH]; simpl; [reflexivity|].
  rewrite <- !app_assoc. simpl. rewrite (split_on_app LF c _ Hc), IH. reflexivity.
Qed.

Lemma removelast_app_cons {A} (l : list A) x y : removelast (l ++ [x; y]) = l ++ [x].
Proof.
  change [x; y] with ([x] ++ [y]). rewrite app_assoc. apply removelast_last.
Qed.

Lemma split_framed (bg en : bytes) cmds :
  no_lf bg -> no_lf en -> Forall no_lf cmds ->
  split_on LF ((bg ++ [LF]) ++ flat_map (fun c => c ++ [LF]) cmds ++ (en ++ [LF])) = bg :: cmds ++ [en; []].
Proof.
  intros Hb He H. rewrite <- app_assoc. change ([LF] ++ ?x) with (LF :: x).
  rewrite (split_on_app LF bg _ Hb). f_equal.
  rewrite (split_flat_map cmds _ H). f_equal.
  rewrite (split_on_app LF en [] He). reflexivity.
Qed.

Lemma lines_render_list cmds :
  Forall no_lf cmds -> length cmds <> 1%nat ->
  lines (render_list cmds) = [b "command_list_ok_begin"] ++ cmds ++ [b "command_list_end"].
Proof.
  intros H L. unfold lines.
  assert (R : render_list cmds = (b "command_list_ok_begin" ++ [LF]) ++ flat_map (fun c => c ++ [LF]) cmds ++ (b "command_list_end" ++ [LF])).
  { destruct framing_literals as (Eb & Ee & _). rewrite <- Eb, <- Ee.
    unfold render_list. destruct cmds as [|c1 [|c2 cs]]; try reflexivity. exfalso. apply L. reflexivity. }
  rewrite R, split_framed; auto; try (vm_compute; repeat constructor; discriminate).
  change (b "command_list_ok_begin" :: cmds ++ [b "command_list_end"; []])
    with ((b "command_list_ok_begin" :: cmds) ++ [b "command_list_end"; []]).
  rewrite removelast_app_cons. reflexivity.
Qed.

Lemma lines_render_single c : no_lf c -> lines (render_list [c]) = [c].
Proof. intros H. unfold render_list. apply (lines_send c H). Qed.

(* the first word of a reachable command is its name, which never opens or closes a list *)
Lemma reach_first_word name c : reach name c ->
  is_prefix command_list_prefix name = false /\ (c = name \/ exists rest, c = name ++ SP :: rest) /\
  Forall (fun x => x <> SP) name.
Proof.
  intros H. apply reach_shape in H as (Hb & Hn & rs & Hrs & ->).
  apply build_ok_iff in Hb as (_ & _ & Hc & Hp). split; [exact Hp|]. split.
  - destruct rs as [|r rs]; simpl; [left; apply app_nil_r | right; eauto].
  - apply Forall_forall. intros x Hin. unfold wf_bytes in Hn. rewrite Forall_forall in Hc. rewrite Forall_forall in Hn.
    destruct (command_charset_plain x (Hn x Hin) (Hc x Hin)) as (_ & _ & _ & H). exact H.
Qed.
