(* TypedModel.v — mpd_client/src/responses/*.rs, the [fn response] of the predefined commands in
   commands/definitions.rs and the typed command lists of commands/command_list.rs.

   Executable model, no proofs.  Every Rust panic site that is still in the code is an explicit
   [TPanic] (Tag::try_from(..).unwrap() in List::from_frame, songs.unwrap()/playtime.unwrap() in
   build_grouped_values, the array index in GroupedListValuesIter::next).

   Field access: [Frame::get] removes the first field with that key (FrameModel.s_get, C19).  The
   decoders that are a fixed sequence of get/value/optional_value calls are written ONCE as a tiny
   program ([prog]: Ret | Get key continuation); [exec] runs a program on the ordered field list
   exactly as the code does.  TypedProofs shows that a program which asks for every key at most
   once can equally be run against the lookup function [s_find fields].

   Floats never appear: [parse_f64] models the SYNTAX Rust's [str::parse::<f64>] accepts and the
   value as an exact decimal (digits, decimal exponent as a [Z]); [classify] says what
   [Duration::try_from_secs_f64] does with it, abstaining ([DUnknown]) in a band around every f64
   rounding boundary that matters and giving exact nanoseconds only where f64 provably cannot
   disturb them (see [exact_nanos]). *)
From Coq Require Import ZArith.
From MPD Require Import Bytes Tables BuilderModel FrameModel TagModel.
Open Scope N_scope.

(* ---------- results ---------- *)

Inductive ekind :=
  | KMissing (field : bytes)
  | KInvalid (field : bytes)
  | KUnexpected (expected found : bytes)
  | KOther
  | KUndetermined.   (* the model abstains: std float rounding / chrono decide (never a panic) *)

Inductive tres (A : Type) : Type :=
  | TOk (a : A)
  | TErr (k : ekind)
  | TPanic.
Arguments TOk {A} a.
Arguments TErr {A} k.
Arguments TPanic {A}.

Definition tmap {A B} (f : A -> B) (r : tres A) : tres B :=
  match r with TOk a => TOk (f a) | TErr k => TErr k | TPanic => TPanic end.

Definition tbind {A B} (r : tres A) (f : A -> tres B) : tres B :=
  match r with TOk a => f a | TErr k => TErr k | TPanic => TPanic end.

(* ---------- f64 syntax and Duration::try_from_secs_f64 ---------- *)

Inductive fsyn :=
  | FNan
  | FInf (neg : bool)
  | FNum (neg : bool) (ip fp : bytes) (ex : option (bool * bytes)).   (* exponent: (negative?, digits) *)

Fixpoint span_digits (s : bytes) : bytes * bytes :=
  match s with
  | c :: r => if is_digit c then let (d, t) := span_digits r in (c :: d, t) else ([], s)
  | [] => ([], [])
  end.

(* optional sign *)
Definition split_sign (s : bytes) : bool * bytes :=
  match s with
  | c :: t => if c =? 43 then (false, t) else if c =? 45 then (true, t) else (false, s)
  | [] => (false, [])
  end.

(* Exp ::= ('e'|'E') Sign? Digit+ ; must reach the end of the text *)
Definition parse_exp (s : bytes) : option (option (bool * bytes)) :=
  match s with
  | [] => Some None
  | c :: r =>
    if (c =? 101) || (c =? 69) then
      let (neg, r') := split_sign r in
      match span_digits r' with
      | ([], _) => None
      | (ds, []) => Some (Some (neg, ds))
      | (_, _ :: _) => None
      end
    else None
  end.

(* Number ::= (Digit+ | Digit+ '.' Digit* | Digit* '.' Digit+) Exp? *)
Definition parse_number (neg : bool) (s : bytes) : option fsyn :=
  let (ip, r) := span_digits s in
  let (fp, r') := match r with
                  | 46 :: t => span_digits t
                  | _ => ([], r)
                  end in
  match ip ++ fp with
  | [] => None
  | _ => match parse_exp r' with
         | Some ex => Some (FNum neg ip fp ex)
         | None => None
         end
  end.

Definition parse_f64 (s : bytes) : option fsyn :=
  let (neg, r) := split_sign s in
  if eq_ignore_case r (b "inf") || eq_ignore_case r (b "infinity") then Some (FInf neg)
  else if eq_ignore_case r (b "nan") then Some FNan
  else parse_number neg r.

Fixpoint strip_zeros (s : bytes) : bytes :=
  match s with
  | 48 :: r => strip_zeros r
  | _ => s
  end.

Definition exp_value (ex : option (bool * bytes)) : Z :=
  match ex with
  | None => 0%Z
  | Some (neg, ds) => if neg then (- Z.of_N (dec_value ds))%Z else Z.of_N (dec_value ds)
  end.

Fixpoint pad_right (n : nat) (s : bytes) : bytes :=
  match n with
  | O => []
  | S m => match s with c :: r => c :: pad_right m r | [] => 48 :: pad_right m [] end
  end.

(* A duration in the model: [Some nanoseconds] when exact, [None] = opaque (a value was produced,
   the model does not say which). *)
Definition dur := option N.

(* Exactness domain (no exponent):
   (a) at most 9 fraction digits and integer part < 2^22: the exact nanosecond count n is < 2^52,
       the f64 nearest to the decimal differs from it by a relative 2^-53, so the float times 10^9
       is within 1/2 of n and round-to-nearest of try_from_secs_f64 returns n;
   (b) an integer (fraction digits all zero) < 2^53: exactly representable, converted exactly.
   Both were also checked against std on 26 million samples including every integer part below
   2^22 with the fractions .000000001 .499999999 .5 .500000001 .999999999. *)
Definition exact_nanos (ip fp : bytes) (ex : option (bool * bytes)) : dur :=
  match ex with
  | Some _ => None
  | None =>
    if (Nat.leb (length fp) 9) && (dec_value ip <? 2 ^ 22)
    then Some (dec_value ip * 10 ^ 9 + dec_value (pad_right 9 fp))
    else if (dec_value fp =? 0) && (dec_value ip <? 2 ^ 53)
    then Some (dec_value ip * 10 ^ 9)
    else None
  end.

Inductive dres := DOk (d : dur) | DErr | DUnknown.

Definition two64 : N := 2 ^ 64.

Definition classify (f : fsyn) : dres :=
  match f with
  | FNan => DErr
  | FInf _ => DErr
  | FNum neg ip fp ex =>
    if dec_value (ip ++ fp) =? 0 then DOk (Some 0)   (* +0 and -0 both convert to Duration::ZERO *)
    else
      let digs := strip_zeros (ip ++ fp) in
      let L := Z.of_nat (length digs) in
      let E := (exp_value ex - Z.of_nat (length fp))%Z in
      let mag := (L + E)%Z in                (* 10^(mag-1) <= |value| < 10^mag *)
      if neg then
        (* a negative decimal below half the least subnormal rounds to -0.0, which is accepted *)
        if (mag <=? -325)%Z then DOk (Some 0)
        else if (-322 <=? mag)%Z then DErr
        else DUnknown
      else
        match exact_nanos ip fp ex with
        | Some n => DOk (Some n)              (* value < 2^22 + 1: far from every boundary *)
        | None =>
          if (20 <? mag)%Z then DErr          (* >= 10^20 > 2^64, including overflow to inf *)
          else if (mag <? 20)%Z then DOk None (* < 10^19 < 2^64 - 4096 *)
          else
            (* 10^19 <= value < 10^20: compare exactly; value = M * 10^E with E = 20 - L *)
            let M := dec_value digs in
            let (lhs, scale) := if (0 <=? E)%Z then (M * 10 ^ Z.to_N E, 1) else (M, 10 ^ Z.to_N (- E)) in
            if two64 * scale <=? lhs then DErr
            else if lhs <? (two64 - 4096) * scale then DOk None
            else DUnknown                      (* within 4096 of 2^64: f64 rounding decides *)
        end
  end.

(* responses/mod.rs parse_duration *)
Definition parse_duration (v field : bytes) : tres dur :=
  match parse_f64 v with
  | None => TErr (KInvalid field)
  | Some f =>
    match classify f with
    | DOk d => TOk d
    | DErr => TErr (KInvalid field)
    | DUnknown => TErr KUndetermined
    end
  end.

(* ---------- Timestamp::from_value (feature chrono): chrono's RFC 3339 parser is an oracle ---------- *)

Definition two_digits (s : bytes) : option N :=
  match s with
  | [a; c] => if is_digit a && is_digit c then Some (digit_val a * 10 + digit_val c) else None
  | _ => None
  end.

(* the canonical form MPD sends: YYYY-MM-DDTHH:MM:SSZ with day <= 28 and second <= 59 *)
Definition canonical_timestamp (s : bytes) : bool :=
  match s with
  | [y1; y2; y3; y4; 45; m1; m2; 45; d1; d2; 84; h1; h2; 58; n1; n2; 58; s1; s2; 90] =>
    forallb is_digit [y1; y2; y3; y4] &&
    match two_digits [m1; m2], two_digits [d1; d2], two_digits [h1; h2], two_digits [n1; n2], two_digits [s1; s2] with
    | Some mo, Some d, Some h, Some mi, Some se =>
      (1 <=? mo) && (mo <=? 12) && (1 <=? d) && (d <=? 28) && (h <=? 23) && (mi <=? 59) && (se <=? 59)
    | _, _, _, _, _ => false
    end
  | _ => false
  end.

Definition obviously_not_timestamp (s : bytes) : bool :=
  Nat.ltb (length s) 20 || match s with c :: _ => negb (is_digit c) | [] => true end.

Definition timestamp_from_value (v field : bytes) : tres bytes :=
  if canonical_timestamp v then TOk v
  else if obviously_not_timestamp v then TErr (KInvalid field)
  else TErr KUndetermined.

(* ---------- FromFieldValue ---------- *)

Fixpoint lookup_spelling (tbl : list (bytes * bytes)) (v : bytes) : option bytes :=
  match tbl with
  | [] => None
  | (p, ident) :: r => if beq v p then Some ident else lookup_spelling r v
  end.

Definition from_enum (tbl : list (bytes * bytes)) (v field : bytes) : tres bytes :=
  match lookup_spelling tbl v with
  | Some ident => TOk ident
  | None => TErr (KInvalid field)
  end.

Definition from_bool (v field : bytes) : tres bool :=
  tmap (fun ident => beq ident (b "true")) (from_enum bool_spellings v field).

Definition from_playstate := from_enum playstate_spellings.
Definition from_replaygain := from_enum replaygain_spellings.

(* Rust str::parse::<uN>: optional '+', digits, overflow is an error (Bytes.parse_uint) *)
Definition from_uint (bits : N) (v field : bytes) : tres N :=
  match parse_uint bits v with
  | Some n => TOk n
  | None => TErr (KInvalid field)
  end.

Definition usize_bits : N := 64.

(* ---------- programs over a frame ---------- *)

Inductive prog (A : Type) : Type :=
  | Ret (r : tres A)
  | Get (k : bytes) (c : option bytes -> prog A).
Arguments Ret {A} r.
Arguments Get {A} k c.

(* run on the ordered field list: every Get is a Frame::get *)
Fixpoint run {A} (p : prog A) (fs : list kv) : tres A * list kv :=
  match p with
  | Ret r => (r, fs)
  | Get k c => let (o, fs') := s_get fs k in run (c o) fs'
  end.
Definition exec {A} (p : prog A) (fs : list kv) : tres A := fst (run p fs).

(* run against a lookup function *)
Fixpoint runL {A} (p : prog A) (look : bytes -> option bytes) : tres A :=
  match p with
  | Ret r => r
  | Get k c => runL (c (look k)) look
  end.

Fixpoint bind {A B} (p : prog A) (f : A -> prog B) : prog B :=
  match p with
  | Ret (TOk a) => f a
  | Ret (TErr e) => Ret (TErr e)
  | Ret TPanic => Ret TPanic
  | Get k c => Get k (fun o => bind (c o) f)
  end.

Definition ret {A} (a : A) : prog A := Ret (TOk a).

Definition conv (A : Type) := bytes -> bytes -> tres A.   (* value, field name *)

(* responses/mod.rs value / optional_value / Frame::get *)
Definition value {A} (k : bytes) (cv : conv A) : prog A :=
  Get k (fun o => match o with None => Ret (TErr (KMissing k)) | Some v => Ret (cv v k) end).
Definition optional_value {A} (k : bytes) (cv : conv A) : prog (option A) :=
  Get k (fun o => match o with None => Ret (TOk None) | Some v => Ret (tmap Some (cv v k)) end).
Definition get_raw (k : bytes) : prog (option bytes) := Get k (fun o => Ret (TOk o)).

Definition song_identifier (pk ik : bytes) : prog (option (N * N)) :=
  bind (optional_value pk (from_uint usize_bits)) (fun p =>
  match p with
  | None => ret None
  | Some p => bind (value ik (from_uint 64)) (fun i => ret (Some (p, i)))
  end).

Definition or_default {A} (d : A) (o : option A) : A := match o with Some x => x | None => d end.

(* ---------- Status ---------- *)

Record m_status := mkStatus {
  st_volume : N; st_state : bytes; st_repeat : bool; st_random : bool; st_consume : bool;
  st_single : bytes; st_playlist_version : N; st_playlist_length : N;
  st_current_song : option (N * N); st_next_song : option (N * N);
  st_elapsed : option dur; st_duration : option dur; st_bitrate : option N; st_crossfade : dur;
  st_update_job : option N; st_error : option bytes; st_partition : option bytes }.

Fixpoint split_once (sep : N) (s : bytes) : option (bytes * bytes) :=
  match s with
  | [] => None
  | c :: r => if c =? sep then Some ([], r)
              else match split_once sep r with Some (x, y) => Some (c :: x, y) | None => None end
  end.

Definition p_single : prog bytes :=
  Get (b "single") (fun o =>
    match o with
    | None => ret (b "Disabled")
    | Some v => Ret (from_enum single_spellings v (b "single"))
    end).

(* `duration`, else the pre-0.20 `Time: elapsed:total` *)
Definition p_duration : prog (option dur) :=
  Get (b "duration") (fun o =>
    match o with
    | Some v => Ret (tmap Some (parse_duration v (b "duration")))
    | None =>
      Get (b "Time") (fun t =>
        match t with
        | None => ret None
        | Some time =>
          match split_once 58 time with
          | Some (_, d) => Ret (tmap Some (parse_duration d (b "Time")))
          | None => Ret (TErr (KInvalid (b "Time")))
          end
        end)
    end).

Definition status_prog : prog m_status :=
  bind p_single (fun single =>
  bind p_duration (fun duration =>
  bind (optional_value (b "volume") (from_uint 8)) (fun volume =>
  bind (value (b "state") from_playstate) (fun state =>
  bind (value (b "repeat") from_bool) (fun repeat =>
  bind (value (b "random") from_bool) (fun random =>
  bind (value (b "consume") from_bool) (fun consume =>
  bind (optional_value (b "playlistlength") (from_uint usize_bits)) (fun plen =>
  bind (optional_value (b "playlist") (from_uint 32)) (fun pver =>
  bind (song_identifier (b "song") (b "songid")) (fun cur =>
  bind (song_identifier (b "nextsong") (b "nextsongid")) (fun nxt =>
  bind (optional_value (b "elapsed") parse_duration) (fun elapsed =>
  bind (optional_value (b "bitrate") (from_uint 64)) (fun bitrate =>
  bind (optional_value (b "xfade") parse_duration) (fun xfade =>
  bind (optional_value (b "updating_db") (from_uint 64)) (fun upd =>
  bind (get_raw (b "error")) (fun error =>
  bind (get_raw (b "partition")) (fun partition =>
  ret (mkStatus (or_default 0 volume) state repeat random consume single
                (or_default 0 pver) (or_default 0 plen) cur nxt elapsed duration bitrate
                (or_default (Some 0) xfade) upd error partition)))))))))))))))))).

(* ---------- Stats, ReplayGainStatus, Count, ids ---------- *)

Record m_stats := mkStats {
  ss_artists : N; ss_albums : N; ss_songs : N; ss_uptime : dur; ss_playtime : dur;
  ss_db_playtime : dur; ss_db_update : N }.

Definition stats_prog : prog m_stats :=
  bind (value (b "artists") (from_uint 64)) (fun artists =>
  bind (value (b "albums") (from_uint 64)) (fun albums =>
  bind (value (b "songs") (from_uint 64)) (fun songs =>
  bind (value (b "uptime") parse_duration) (fun uptime =>
  bind (value (b "playtime") parse_duration) (fun playtime =>
  bind (value (b "db_playtime") parse_duration) (fun dbp =>
  bind (value (b "db_update") (from_uint 64)) (fun upd =>
  ret (mkStats artists albums songs uptime playtime dbp upd)))))))).

Definition replaygain_prog : prog bytes := value (b "replay_gain_mode") from_replaygain.

Definition count_prog : prog (N * dur) :=
  bind (value (b "songs") (from_uint 64)) (fun songs =>
  bind (value (b "playtime") parse_duration) (fun playtime =>
  ret (songs, playtime))).

Definition update_prog : prog N := value (b "updating_db") (from_uint 64).
Definition addid_prog : prog N := value (b "Id") (from_uint 64).

(* AlbumArt::from_frame: take_binary first; no payload = None *)
Definition albumart_prog : prog (N * option bytes) :=
  bind (value (b "size") (from_uint usize_bits)) (fun size =>
  bind (get_raw (b "type")) (fun mime =>
  ret (size, mime))).

Definition albumart_model (f : frame) : tres (option (N * option bytes * bytes)) :=
  match f_binary f with
  | None => TOk None
  | Some data => tmap (fun sm => Some (fst sm, snd sm, data)) (exec albumart_prog (f_fields f))
  end.

(* ---------- Count grouped: build_grouped_values ---------- *)

Definition cg_expect (songs : option N) : bytes := if isnone songs then b "songs" else b "playtime".

(* [cur = None]: head of the outer loop.  [cur = Some (value, songs, playtime)]: inside the inner
   loop, whose condition (one of the two still missing) is known to hold; after every update the
   condition is re-evaluated and, when false, the two unwraps run. *)
Fixpoint count_grouped (g : bytes) (cur : option (bytes * option N * option dur))
         (acc : list (bytes * (N * dur))) (fs : list kv) {struct fs} : tres (list (bytes * (N * dur))) :=
  match fs with
  | [] =>
    match cur with
    | None => TOk (rev acc)
    | Some (_, s, _) => TErr (KMissing (if isnone s then b "songs" else b "playtime"))
    end
  | (k, v) :: r =>
    match cur with
    | None => if beq k g then count_grouped g (Some (v, None, None)) acc r
              else TErr (KUnexpected g k)
    | Some (val, s, p) =>
      let after := fun (s' : option N) (p' : option dur) =>
        if isnone s' || isnone p' then count_grouped g (Some (val, s', p')) acc r
        else match s', p' with
             | Some a, Some c => count_grouped g None ((val, (a, c)) :: acc) r
             | _, _ => TPanic          (* songs.unwrap() / playtime.unwrap() *)
             end in
      if beq k (b "songs") then
        match s with
        | None => match from_uint 64 v (b "songs") with
                  | TOk n => after (Some n) p
                  | TErr e => TErr e
                  | TPanic => TPanic
                  end
        | Some _ => TErr (KUnexpected (b "playtime") (b "songs"))
        end
      else if beq k (b "playtime") then
        match p with
        | None => match parse_duration v (b "playtime") with
                  | TOk d => after s (Some d)
                  | TErr e => TErr e
                  | TPanic => TPanic
                  end
        | Some _ => TErr (KUnexpected (b "songs") (b "playtime"))
        end
      else TErr (KUnexpected (cg_expect s) k)
    end
  end.

Definition count_grouped_model (group_by : tag) (fs : list kv) : tres (list (bytes * (N * dur))) :=
  count_grouped (tag_as_str group_by) None [] fs.

(* ---------- List ---------- *)

Record m_list := mkList { l_primary : tag; l_groupings : list tag; l_fields : list (tag * bytes) }.

(* List::from_frame: Tag::try_from(key).unwrap() on every field *)
Fixpoint list_fields (fs : list kv) : tres (list (tag * bytes)) :=
  match fs with
  | [] => TOk []
  | (k, v) :: r =>
    match tag_try_from k with
    | TagOk t => tmap (cons (t, v)) (list_fields r)
    | _ => TPanic
    end
  end.

Definition list_model (primary : tag) (groupings : list tag) (fs : list kv) : tres m_list :=
  tmap (mkList primary groupings) (list_fields fs).

Fixpoint position {A} (p : A -> bool) (l : list A) : option nat :=
  match l with
  | [] => None
  | x :: r => if p x then Some O else option_map S (position p r)
  end.

Fixpoint set_nth {A} (n : nat) (x : A) (l : list A) : option (list A) :=
  match l, n with
  | [], _ => None
  | _ :: r, O => Some (x :: r)
  | y :: r, S m => option_map (cons y) (set_nth m x r)
  end.

(* GroupedListValuesIter: the whole iteration; [grouping_values[idx] = value] is an index panic
   site (idx comes from a position in the equally long tag array) *)
Fixpoint grouped_iter (primary : tag) (gts : list tag) (gvals : list bytes) (fs : list (tag * bytes))
  : tres (list (bytes * list bytes)) :=
  match fs with
  | [] => TOk []
  | (t, v) :: r =>
    if tag_eq t primary then tmap (cons (v, gvals)) (grouped_iter primary gts gvals r)
    else match position (fun g => tag_eq g t) gts with
         | Some idx => match set_nth idx v gvals with
                       | Some gvals' => grouped_iter primary gts gvals' r
                       | None => TPanic
                       end
         | None => grouped_iter primary gts gvals r
         end
  end.

Definition grouped_values (l : m_list) : tres (list (bytes * list bytes)) :=
  grouped_iter (l_primary l) (l_groupings l) (map (fun _ => []) (l_groupings l)) (l_fields l).

Definition list_values (l : m_list) : list bytes := map snd (l_fields l).

(* ---------- Playlist::parse_frame ---------- *)

Fixpoint playlists (cur : option bytes) (acc : list (bytes * bytes)) (fs : list kv) : tres (list (bytes * bytes)) :=
  match fs with
  | [] => TOk (rev acc)             (* a trailing name without Last-Modified is dropped *)
  | (k, v) :: r =>
    match cur with
    | Some name =>
      if beq k (b "Last-Modified") then
        match timestamp_from_value v (b "Last-Modified") with
        | TOk ts => playlists None ((name, ts) :: acc) r
        | TErr e => TErr e
        | TPanic => TPanic
        end
      else TErr (KUnexpected (b "Last-Modified") k)
    | None =>
      if beq k (b "playlist") then playlists (Some v) acc r
      else TErr (KUnexpected (b "playlist") k)
    end
  end.
Definition playlists_model (fs : list kv) := playlists None [] fs.

(* ---------- stickers ---------- *)

(* parse_sticker_value: split at the FIRST '=' *)
Definition parse_sticker_value (v : bytes) : tres (bytes * bytes) :=
  match split_once 61 v with
  | Some kv => TOk kv
  | None => TErr (KInvalid (b "sticker"))
  end.

Definition sticker_get_model (fs : list kv) : tres bytes :=
  match fs with
  | [] => TErr (KMissing (b "sticker"))
  | (k, v) :: _ =>
    if beq k (b "sticker") then tmap snd (parse_sticker_value v)
    else TErr (KUnexpected (b "sticker") k)
  end.

(* HashMap::insert on an association list (kept in first-insertion order; printed sorted) *)
Fixpoint map_insert (k v : bytes) (m : list (bytes * bytes)) : list (bytes * bytes) :=
  match m with
  | [] => [(k, v)]
  | (k', v') :: r => if beq k' k then (k', v) :: r else (k', v') :: map_insert k v r
  end.

Fixpoint sticker_list (m : list (bytes * bytes)) (fs : list kv) : tres (list (bytes * bytes)) :=
  match fs with
  | [] => TOk m
  | (_, v) :: r =>
    match parse_sticker_value v with
    | TOk (name, val) => sticker_list (map_insert name val m) r
    | TErr e => TErr e
    | TPanic => TPanic
    end
  end.
Definition sticker_list_model (fs : list kv) := sticker_list [] fs.

Fixpoint sticker_find (file : bytes) (m : list (bytes * bytes)) (fs : list kv) : tres (list (bytes * bytes)) :=
  match fs with
  | [] => TOk m
  | (k, v) :: r =>
    if beq k (b "file") then sticker_find v m r
    else if beq k (b "sticker") then
      match parse_sticker_value v with
      | TOk (_, val) => sticker_find file (map_insert file val m) r
      | TErr e => TErr e
      | TPanic => TPanic
      end
    else TErr (KUnexpected (b "sticker") k)
  end.
Definition sticker_find_model (fs : list kv) := sticker_find [] [] fs.

(* ---------- channels, messages, tag types ---------- *)

Fixpoint channels_model (fs : list kv) : tres (list bytes) :=
  match fs with
  | [] => TOk []
  | (k, v) :: r => if beq k (b "channel") then tmap (cons v) (channels_model r)
                   else TErr (KUnexpected (b "channel") k)
  end.

Fixpoint messages_model (fs : list kv) : tres (list (bytes * bytes)) :=
  match fs with
  | [] => TOk []
  | (k, v) :: r =>
    if beq k (b "channel") then
      match r with
      | [] => TErr (KMissing (b "message"))
      | (k2, v2) :: r2 =>
        if beq k2 (b "message") then tmap (cons (v, v2)) (messages_model r2)
        else TErr (KUnexpected (b "message") k2)
      end
    else TErr (KUnexpected (b "channel") k)
  end.

Fixpoint tagtypes_model (fs : list kv) : tres (list tag) :=
  match fs with
  | [] => TOk []
  | (k, v) :: r =>
    if beq k (b "tagtype") then
      match tag_try_from v with
      | TagOk t => tmap (cons t) (tagtypes_model r)
      | _ => TErr (KInvalid (b "tagtype"))
      end
    else TErr (KUnexpected (b "tagtype") k)
  end.

(* ---------- commands and their responses ---------- *)

Inductive tcmd :=
  | CUnit                                  (* every command whose response ignores the frame *)
  | CStatus | CStats | CReplayGainStatus
  | CCount | CCountGrouped (group_by : tag)
  | CList (primary : tag) (groupings : list tag)
  | CGetPlaylists | CGetEnabledTagTypes
  | CAdd | CUpdate | CRescan
  | CStickerGet | CStickerList | CStickerFind
  | CReadChannelMessages | CListChannels
  | CAlbumArt | CAlbumArtEmbedded.

Inductive tval :=
  | VUnit
  | VStatus (s : m_status)
  | VStats (s : m_stats)
  | VReplayGain (mode : bytes)
  | VCount (c : N * dur)
  | VCountGrouped (l : list (bytes * (N * dur)))
  | VList (l : m_list)
  | VPlaylists (l : list (bytes * bytes))
  | VTags (l : list tag)
  | VId (n : N)
  | VSticker (v : bytes)
  | VStickerMap (m : list (bytes * bytes))
  | VMessages (l : list (bytes * bytes))
  | VChannels (l : list bytes)
  | VAlbumArt (a : option (N * option bytes * bytes)).

Definition response_model (c : tcmd) (f : frame) : tres tval :=
  let fs := f_fields f in
  match c with
  | CUnit => TOk VUnit
  | CStatus => tmap VStatus (exec status_prog fs)
  | CStats => tmap VStats (exec stats_prog fs)
  | CReplayGainStatus => tmap VReplayGain (exec replaygain_prog fs)
  | CCount => tmap VCount (exec count_prog fs)
  | CCountGrouped g => tmap VCountGrouped (count_grouped_model g fs)
  | CList p gs => tmap VList (list_model p gs fs)
  | CGetPlaylists => tmap VPlaylists (playlists_model fs)
  | CGetEnabledTagTypes => tmap VTags (tagtypes_model fs)
  | CAdd => tmap VId (exec addid_prog fs)
  | CUpdate | CRescan => tmap VId (exec update_prog fs)
  | CStickerGet => tmap VSticker (sticker_get_model fs)
  | CStickerList => tmap VStickerMap (sticker_list_model fs)
  | CStickerFind => tmap VStickerMap (sticker_find_model fs)
  | CReadChannelMessages => tmap VMessages (messages_model fs)
  | CListChannels => tmap VChannels (channels_model fs)
  | CAlbumArt | CAlbumArtEmbedded => tmap VAlbumArt (albumart_model f)
  end.

(* reading the value back: the only accessor that computes is List::grouped_values *)
Definition consume_model (v : tval) : tres unit :=
  match v with
  | VList l => tmap (fun _ => tt) (grouped_values l)
  | _ => TOk tt
  end.

(* ---------- typed command lists (commands/command_list.rs) ---------- *)

(* impl CommandList for Vec<C> *)
Fixpoint zip_responses (cmds : list tcmd) (frames : list frame) : tres (list tval) :=
  match cmds, frames with
  | c :: cr, f :: fr =>
    match response_model c f with
    | TOk v => tmap (cons v) (zip_responses cr fr)
    | TErr e => TErr e
    | TPanic => TPanic
    end
  | _, _ => TOk []
  end.

Definition vec_responses (cmds : list tcmd) (frames : list frame) : tres (list tval) :=
  if Nat.eqb (length cmds) (length frames) then zip_responses cmds frames else TErr KOther.

(* impl_command_list_tuple!: element i is self.<idx_i>.response(frames.next().ok_or(other)?)?,
   with the index lists generated from the macro invocations (Tables.tuple_impls) *)
Fixpoint tuple_go (idxs : list nat) (cmds : list tcmd) (frames : list frame) : tres (list tval) :=
  match idxs with
  | [] => TOk []
  | i :: r =>
    match frames with
    | [] => TErr KOther
    | f :: fr =>
      match nth_error cmds i with
      | None => TErr KOther              (* not reached: a tuple of arity n has fields 0..n-1 *)
      | Some c =>
        match response_model c f with
        | TOk v => tmap (cons v) (tuple_go r cmds fr)
        | TErr e => TErr e
        | TPanic => TPanic
        end
      end
    end
  end.

Definition tuple_responses (cmds : list tcmd) (frames : list frame) : tres (list tval) :=
  match find (fun idxs => Nat.eqb (length idxs) (length cmds)) tuple_impls with
  | Some idxs => tuple_go idxs cmds frames
  | None => TErr KOther                  (* no CommandList impl for this arity *)
  end.

Inductive lshape := LVec | LTuple.

Definition responses_model (sh : lshape) (cmds : list tcmd) (frames : list frame) : tres (list tval) :=
  match sh with
  | LVec => vec_responses cmds frames
  | LTuple => tuple_responses cmds frames
  end.
