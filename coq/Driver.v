(* Driver.v — single entry point of the executable model: one case line in, one result line out.
   Used identically by the extracted OCaml driver and by [Eval vm_compute]. *)
From MPD Require Import Bytes Tables Show TagModel TagSpec DriverCmd DriverConn DriverFrame DriverLoop DriverRefine.
From MPD Require Import Bytes Tables Show TagModel TagSpec DriverCmd DriverConn DriverFrame DriverSong.
From MPD Require Import Bytes Tables Show TagModel TagSpec DriverCmd DriverConn DriverFrame DriverCommands.
From MPD Require Import Bytes Tables Show TagModel TagSpec DriverCmd DriverConn DriverFrame DriverFilter.
From MPD Require Import Bytes Tables Show TagModel TagSpec DriverCmd DriverConn DriverFrame DriverTyped.
From MPD Require Import DriverGrammar.
Open Scope N_scope.

Definition find_tagv (ident : bytes) : option tagv :=
  find (fun v => beq (tagv_ident v) ident) all_tagv.

Definition tag_of_spec (spec : bytes) : option tag :=
  match strip_prefix (b "n:") spec with
  | Some id => option_map Named (find_tagv id)
  | None =>
    match strip_prefix (b "o:") spec with
    | Some h => Some (Other (unhex h))
    | None => None
    end
  end.

Definition show_tag (t : tag) : bytes :=
  match t with
  | Named v => words [b "named"; tagv_ident v]
  | Other s => words [b "other"; hex s]
  end.

Definition run_tag (kind : bytes) (args : list bytes) : bytes :=
  if beq kind (b "tag_list") then
    words (map (fun v => tagv_ident v ++ [61] ++ hex (tag_name v)) all_tagv)
  else if beq kind (b "sub_list") then
    words (map (fun v => subv_ident v ++ [61] ++ hex (sub_name v)) all_subv)
  else if beq kind (b "spec_tag_names") then words (map hex mpd_tag_names)
  else if beq kind (b "spec_sub_names") then words (map hex mpd_subsystem_names)
  else if beq kind (b "tag_rt") then
    match args with
    | [x] =>
      match tag_of_spec x with
      | Some t =>
        match tag_try_from (tag_as_str t) with
        | TagOk u => words [kv "parsed" (b "1"); kv "eq" (show_bool (tag_eq u t))]
        | _ => words [kv "parsed" (b "0"); kv "eq" (b "0")]
        end
      | None => b "unknown-ident"
      end
    | _ => b "bad-case"
    end
  else if beq kind (b "tag_parse") then
    match args with
    | [h] =>
      let s := unhex h in
      if negb (utf8_valid s) then b "skip non-utf8" else
      match tag_try_from s with
      | TagOk t => words [b "ok"; show_tag t]
      | TagEmpty => b "err empty"
      | TagInvalidChar pos => words [b "err"; b "char"; show_nat pos]
      end
    | _ => b "bad-case"
    end
  else if beq kind (b "tag_cmp") then
    match args with
    | [x; y] =>
      match tag_of_spec x, tag_of_spec y with
      | Some t, Some u =>
        let e := tag_eq t u in
        words [kv "eq" (show_bool e); kv "cmp" (show_cmp (tag_cmp t u)); kv "hashcoh" [49];
               kv "hmap" (show_bool e); kv "bmap" (show_bool e);
               kv "names" (hex (tag_as_str t) ++ [44] ++ hex (tag_as_str u))]
      | _, _ => b "unknown-ident"
      end
    | _ => b "bad-case"
    end
  else if beq kind (b "sub") then
    match args with
    | [h] =>
      let s := unhex h in
      if negb (utf8_valid s) then b "skip non-utf8" else
      let r := sub_from_name s in
      words [kv "name" (hex (sub_as_str r));
             kv "variant" (match r with SNamed v => subv_ident v | SOther _ => b "Other" end);
             kv "eq_other" (show_bool (sub_eq r (SOther s)));
             kv "hashcoh" [49]]
    | _ => b "bad-case"
    end
  else if beq kind (b "sub_cmp") then
    match args with
    | [h1; h2] =>
      let s1 := unhex h1 in let s2 := unhex h2 in
      if negb (utf8_valid s1 && utf8_valid s2) then b "skip non-utf8" else
      let x := sub_from_name s1 in let y := sub_from_name s2 in
      let e := sub_eq x y in
      words [kv "eq" (show_bool e); kv "hashcoh" [49]; kv "hset" (show_bool e);
             kv "names" (hex (sub_as_str x) ++ [44] ++ hex (sub_as_str y))]
    | _ => b "bad-case"
    end
  else b "unknown-kind".

Definition is_tag_kind (k : bytes) : bool :=
  existsb (beq k) [b "tag_list"; b "sub_list"; b "tag_parse"; b "tag_cmp"; b "sub"; b "sub_cmp"; b "tag_rt";
                     b "spec_tag_names"; b "spec_sub_names"].

Definition dispatch (line : bytes) : bytes :=
  match split_on SP line with
  | kind :: args =>
    if is_tag_kind kind then run_tag kind args
    else if is_cmd_kind kind then run_cmd kind args
    else if is_conn_kind kind then run_conn kind args
    else if is_frame_kind kind then run_frame kind args
    else if is_loop_kind kind then run_loop_kind kind args
    else if is_refine_kind kind then run_refine_kind kind args
    else if is_song_kind kind then run_songs kind args
    else if is_commands_kind kind then run_commands kind args
    else if is_filter_kind kind then run_filter kind args
    else if is_typed_kind kind then run_typed kind args
    else if is_typed_spec_kind kind then run_spec kind args
    else if is_grammar_kind kind then run_grammar kind args
    else b "unknown-kind " ++ kind
  | [] => b "empty"
  end.
