#!/usr/bin/env python3
"""try_seeded.py <PROP> <mN> [--checks C01,C02,...]

Confirms a seeded change produced by a blind sub-agent (in /tmp/out_<PROP>/<mN>, made against the
scratch worktree /tmp/wt_<PROP>) and runs the registered check(s) against it:
  1. in the worktree: patch applies; the unedited test suite passes with it; the demonstration
     fails with it and passes without it;
  2. a scratch copy of /repo gets the patch; `VERIF_REPO=<copy> ./check <PROP>` must exit 1 with a
     VIOLATION line (other checks can be listed with --checks);
  3. the change is stored as /verif/seeded/<PROP>_<mN>/ (patch.diff, demonstration, meta.json).
Nothing is ever applied to /repo itself."""
import json
import os
import re
import shutil
import subprocess
import sys

VERIF = os.path.dirname(os.path.dirname(os.path.abspath(__file__)))


def sh(cmd, cwd=None, timeout=3000, env=None):
    e = dict(os.environ)
    e["CARGO_NET_OFFLINE"] = "true"
    if env:
        e.update(env)
    p = subprocess.run(cmd, cwd=cwd, shell=isinstance(cmd, str), capture_output=True, text=True, timeout=timeout, env=e, errors="replace")
    return p.returncode, p.stdout + p.stderr


def main():
    prop, mn = sys.argv[1], sys.argv[2]
    checks = [prop]
    if "--checks" in sys.argv:
        checks = sys.argv[sys.argv.index("--checks") + 1].split(",")
    rnd = sys.argv[sys.argv.index("--round") + 1] if "--round" in sys.argv else ""
    wt = f"/tmp/wt{rnd}_{prop}"
    out = f"/tmp/out{rnd}_{prop}/{mn}"
    name = f"{prop}_{'r' + rnd if rnd else ''}{mn}"
    stored = "--stored" in sys.argv      # re-run the checks against a change already kept under /verif/seeded
    if stored:
        out = os.path.join(VERIF, "seeded", name)
        wt = "/nonexistent"
    patch = os.path.join(out, "patch.diff")
    meta = {"property": prop, "id": name, "ran": []}
    notes = open(os.path.join(out, "notes.md")).read() if os.path.exists(os.path.join(out, "notes.md")) else ""
    meta["needs_to_manifest"] = notes[:3000]
    confirmed = True
    if os.path.isdir(wt):
        sh("git checkout -- . && git clean -fdq -e target -e tests", cwd=wt)
        rc, o = sh(["git", "apply", patch], cwd=wt)
        meta["ran"].append({"cmd": "git apply patch.diff (scratch worktree)", "rc": rc})
        if rc != 0:
            print("patch does not apply:", o[-500:])
            return 2
        rc, o = sh("cargo test --workspace --offline 2>&1", cwd=wt, env={"CARGO_TARGET_DIR": os.path.join(wt, "target")})
        passed = sum(int(x) for x in re.findall(r"test result: ok\. (\d+) passed", o))
        failed = re.findall(r"test result: FAILED", o)
        meta["ran"].append({"cmd": "cargo test --workspace --offline (with change)", "rc": rc, "passed": passed})
        print(f"suite with change: rc={rc} passed={passed}")
        if rc != 0 or failed:
            confirmed = False
        demo = os.path.join(out, "demo.sh")
        if os.path.exists(demo):
            rc1, o1 = sh(["bash", demo], cwd=out, env={"CARGO_TARGET_DIR": os.path.join(wt, "target")})
            sh("git checkout -- . && git clean -fdq -e target -e tests", cwd=wt)
            rc0, o0 = sh(["bash", demo], cwd=out, env={"CARGO_TARGET_DIR": os.path.join(wt, "target")})
            meta["ran"].append({"cmd": "demo.sh with change", "rc": rc1})
            meta["ran"].append({"cmd": "demo.sh without change", "rc": rc0})
            print(f"demo with change rc={rc1}, without rc={rc0}")
            if rc1 == 0 or rc0 != 0:
                confirmed = False
                print(o1[-800:], "\n-----\n", o0[-800:])
        else:
            print("no demo.sh")
            confirmed = False
        sh("git checkout -- . && git clean -fdq -e target -e tests", cwd=wt)
    else:
        print("worktree gone; skipping demonstration re-run")
    meta["confirmed_breaks_and_suite_passes"] = confirmed
    copy = f"/tmp/seedrepo_{name}_{os.getpid()}"
    shutil.rmtree(copy, ignore_errors=True)
    sh(["rsync", "-a", "--exclude", "target", "--exclude", ".git", "/repo/", copy + "/"])
    rc, o = sh(f"patch -p1 -s < {patch}", cwd=copy)
    if rc != 0:
        print("patch does not apply to /repo copy:", o[-500:])
        shutil.rmtree(copy, ignore_errors=True)
        return 2
    detected = {}
    for c in checks:
        rc, o = sh(["./check", c], cwd=VERIF, env={"VERIF_REPO": copy}, timeout=3000)
        vio = [l for l in o.split("\n") if l.startswith("VIOLATION")]
        tail = [l for l in o.split("\n") if l.startswith("[")]
        detected[c] = {"rc": rc, "violation_lines": vio, "summary": tail[-1:] }
        meta["ran"].append({"cmd": f"VERIF_REPO=<copy with change> ./check {c}", "rc": rc, "violation": vio})
        print(f"check {c}: rc={rc} {vio} {tail[-1:]}")
        rp = re.search(r"replay=(\S+)", vio[0]) if vio else None
        if rp and os.path.exists(rp.group(1)):
            try:
                d = json.load(open(rp.group(1)))
                print("   replay:", json.dumps(d)[:600])
                detected[c]["replay_excerpt"] = json.dumps(d)[:1500]
            except Exception:
                pass
    meta["detected_by"] = detected
    shutil.rmtree(copy, ignore_errors=True)
    dst = os.path.join(VERIF, "seeded", name)
    if stored:
        mp = os.path.join(dst, "meta.json")
        old = json.load(open(mp))
        old.setdefault("detected_by", {}).update(detected)
        old["ran"] = old.get("ran", []) + meta["ran"]
        json.dump(old, open(mp, "w"), indent=1)
        print("updated", mp)
    elif confirmed:
        shutil.rmtree(dst, ignore_errors=True)
        os.makedirs(dst)
        for f in os.listdir(out):
            src = os.path.join(out, f)
            if f in ("target",) or f.endswith(".log") and os.path.getsize(src) > 200000:
                continue
            if os.path.isdir(src):
                shutil.copytree(src, os.path.join(dst, f), ignore=shutil.ignore_patterns("target", "Cargo.lock"))
            else:
                shutil.copy(src, dst)
        json.dump(meta, open(os.path.join(dst, "meta.json"), "w"), indent=1)
        print("stored", dst)
    else:
        print("NOT confirmed; not stored")
    return 0


if __name__ == "__main__":
    sys.exit(main())
