#!/usr/bin/env python3
"""try_translator.py [--only name,name] [--checks C02,C20,...] [--all-checks name,name] [--translator-only] | --table

Demonstration of the two-stage translator (DESIGN.md 1.3a, 6.6).  Every directory under
seeded/translator/ holds a patch of the repository:

  harmless_*   a behaviour-preserving refactoring that rewrites a table / class / constant in
               another syntactic form: every check must stay QUIET (exit 0, no VIOLATION line)
               (`known_false_alarm` in meta.json: checks that still alarm because the section involved is a
               shape pin without a finite universe to probe)
  change_*     a behaviour-changing edit of a table / class (directly, or inside a refactored form
               that only the probe route can read): the checks listed in its meta.json `expect`
               must print a VIOLATION line, the other checks run must stay quiet

The patch is applied to a scratch copy of /repo (never to /repo), the checks run with
VERIF_REPO=<copy>, the verdicts and the provenance of the sections that left the static route are
written to seeded/translator/<name>/meta.json (field `result`) and printed as one line per check.
"""
import json
import os
import re
import shutil
import subprocess
import sys
import time

V = os.path.dirname(os.path.dirname(os.path.abspath(__file__)))
D = os.path.join(V, "seeded", "translator")
DEFAULT_CHECKS = ["C20", "C06", "C07", "C14", "C16", "C17", "C12", "C02", "C11", "C15"]


def sh(cmd, cwd=None, env=None, timeout=3000):
    e = dict(os.environ)
    e["CARGO_NET_OFFLINE"] = "true"
    if env:
        e.update(env)
    p = subprocess.run(cmd, cwd=cwd, shell=isinstance(cmd, str), capture_output=True, text=True, env=e, timeout=timeout, errors="replace")
    return p.returncode, p.stdout + p.stderr


TRANSLATOR_ONLY = """
import json, os, sys
sys.path.insert(0, os.path.join(%r, "tools"))
import vlib
ctx = vlib.Ctx("SETUP", "quick", 0)
with vlib.Lock():
    ok = vlib.step_harness(ctx)
    vlib.step_tables(ctx, ok)
info = ctx.tables_info or {}
print(json.dumps({"harness": ok, "sections_not_static": {k: v for k, v in info.get("sections", {}).items() if v not in ("static", "static+probe-agree")},
                  "failed": info.get("failed", {}), "tripped": sorted(info.get("tripped", {}))}))
"""


def translator_only(copy):
    """harness build + the two-stage translator against the copy: which sections left the static route, which tripwires tripped"""
    rc, o = sh([sys.executable, "-c", TRANSLATOR_ONLY % V], cwd=V, env={"VERIF_REPO": copy})
    try:
        return json.loads(o.strip().split("\n")[-1])
    except ValueError:
        return {"error": o[-400:]}


def table():
    """markdown table of the recorded results (seeded/translator/*/meta.json)"""
    print("| patch | what | sections that left the static route | quiet | VIOLATION (concrete input) | VIOLATION (no-failing-input-found) |")
    print("|---|---|---|---|---|---|")
    for name in sorted(os.listdir(D)):
        mp = os.path.join(D, name, "meta.json")
        if not os.path.exists(mp):
            continue
        m = json.load(open(mp))
        r = m.get("result", {})
        ch = r.get("checks", {})
        by = {"quiet": [], "violation-with-input": [], "violation-no-input": []}
        for c, v in sorted(ch.items()):
            by[v["verdict"]].append(c + ("" if v["ok"] else " (UNEXPECTED)"))
        rp = os.path.join(D, name, "try_refactor_meta.json")
        if not ch and os.path.exists(rp):       # run by tools/try_refactor.py: all registered checks
            rm = json.load(open(rp))
            by["quiet"] = [f"all {len(rm['checks_run']) - len(rm['false_alarms'])} of {len(rm['checks_run'])}"]
            by["violation-no-input"] = sorted(rm["false_alarms"])
        elif len(by["quiet"]) == 20:
            by["quiet"] = ["all 20 of 20"]
        tr = m.get("translator", r)
        routes = ", ".join(f"{k}: {v}" for k, v in sorted(tr.get("sections_not_static", {}).items())) or "—"
        if tr.get("tripped"):
            routes += "; tripwires tripped: " + ", ".join(tr["tripped"])
        print(f"| {name} | {m.get('what', '')} | {routes} | {' '.join(by['quiet']) or '—'} | {' '.join(by['violation-with-input']) or '—'} | "
              f"{' '.join(by['violation-no-input']) or '—'} |")


def main():
    args = sys.argv[1:]
    if args == ["--table"]:
        table()
        return 0
    only = None
    checks = DEFAULT_CHECKS
    all_for = []
    tr_only = False
    i = 0
    while i < len(args):
        if args[i] == "--only":
            only = args[i + 1].split(",")
        elif args[i] == "--checks":
            checks = args[i + 1].split(",")
        elif args[i] == "--all-checks":
            all_for = args[i + 1].split(",")
        elif args[i] == "--translator-only":
            tr_only = True
            i -= 1
        else:
            print(__doc__)
            return 2
        i += 2
    every = [c["property_id"] for c in json.load(open(os.path.join(V, "MANIFEST.json")))["checks"]]
    bad = 0
    for name in sorted(os.listdir(D)):
        d = os.path.join(D, name)
        if not os.path.isdir(d) or (only and name not in only):
            continue
        meta_p = os.path.join(d, "meta.json")
        meta = json.load(open(meta_p)) if os.path.exists(meta_p) else {}
        expect = set(meta.get("expect", [])) | set(meta.get("known_false_alarm", []))
        copy = f"/tmp/trtr_{name}"
        shutil.rmtree(copy, ignore_errors=True)
        sh(["rsync", "-a", "--exclude", "target", "--exclude", ".git", "/repo/", copy + "/"])
        rc, o = sh(f"patch -p1 -s < {os.path.join(d, 'patch.diff')}", cwd=copy)
        if rc != 0:
            print(f"{name}: patch does not apply: {o[-300:]}")
            bad += 1
            continue
        meta["translator"] = translator_only(copy)
        if tr_only:
            print(f"{name:22s} {json.dumps(meta['translator'])[:300]}")
            json.dump(meta, open(meta_p, "w"), indent=1, sort_keys=True)
            shutil.rmtree(copy, ignore_errors=True)
            continue
        run = every if name in all_for else sorted(set(checks) | expect)
        verdicts = {}
        routes = {}
        for p in run:
            t = time.time()
            rc, o = sh(["./check", p], cwd=V, env={"VERIF_REPO": copy})
            vio = [l for l in o.split("\n") if l.startswith("VIOLATION")]
            ev = os.path.join(V, ".cache", "alt_evidence", f"{p}.json")
            broken = []
            if os.path.exists(ev):
                cov = json.load(open(ev))["coverage"]
                broken = [b["name"] for b in cov.get("broken", [])]
                tt = cov.get("tables_translator") or {}
                routes = {k: v for k, v in (tt.get("sections") or {}).items() if v not in ("static", "static+probe-agree")}
            kind = "quiet" if (rc == 0 and not vio) else ("violation-with-input" if vio and "no-failing-input-found" not in vio[0] else "violation-no-input")
            want = "violation" if p in expect else "quiet"
            ok = kind.startswith(want)
            bad += 0 if ok else 1
            verdicts[p] = {"verdict": kind, "expected": want, "ok": ok, "seconds": round(time.time() - t, 1), "broken": broken[:4]}
            print(f"{name:22s} {p} {kind:22s} expected {want:9s} {'ok ' if ok else 'BAD'} {round(time.time() - t, 1):6.1f}s {'; '.join(broken[:2])[:110]}")
        meta["result"] = {"checks": verdicts, "sections_not_static": routes}
        json.dump(meta, open(meta_p, "w"), indent=1, sort_keys=True)
        shutil.rmtree(copy, ignore_errors=True)
    print("unexpected verdicts:", bad)
    return 1 if bad else 0


if __name__ == "__main__":
    sys.exit(main())
