#!/usr/bin/env python3
"""Prints a markdown table of the seeded changes kept under /verif/seeded and which check caught each."""
import json, os, re
V = os.path.dirname(os.path.dirname(os.path.abspath(__file__)))
rows = []
for d in sorted(os.listdir(os.path.join(V, "seeded"))):
    mp = os.path.join(V, "seeded", d, "meta.json")
    if not os.path.exists(mp):
        continue
    m = json.load(open(mp))
    if d.startswith("harmless_"):
        np_ = os.path.join(V, "seeded", d, "notes.md")
        first = ""
        if os.path.exists(np_):
            first = next((l.strip("# ").strip() for l in open(np_, errors="replace").read().split("\n") if l.strip()), "")
        fa = m.get("false_alarms") or {}
        ran = m.get("checks_run") or []
        verdict = (f"quiet: {len(ran)} check(s) run ({', '.join(ran) if len(ran) < 20 else 'all twenty'}), no alarm" if not fa
                   else "FALSE ALARM from " + ", ".join(sorted(fa)))
        rows.append(f"| {d} | behaviour-preserving refactoring: {first[:130].replace('|', '/')} | {verdict} |")
        continue
    notes = m.get("needs_to_manifest", "")
    first = next((l.strip("# ").strip() for l in notes.split("\n") if l.strip()), "")
    det = []
    own = m.get("property", d.split("_")[0])
    items = sorted(m.get("detected_by", {}).items(), key=lambda kv: (kv[0] != own, kv[0]))
    for c, r in items:
        v = r.get("violation_lines") or []
        if not v:
            det.append(f"{c}: **missed**" if c == own else f"({c}, another property's check, run for comparison: quiet)")
        elif "no-failing-input-found" in v[0]:
            det.append(f"{c}: broken tie/proof, no failing input")
        else:
            msg = ""
            try:
                msg = json.loads(r.get("replay_excerpt", "{}") + ("" if r.get("replay_excerpt", "").endswith("}") else "")).get("message", "")
            except Exception:
                mm = re.search(r'"message": "(.{0,160})', r.get("replay_excerpt", ""))
                msg = mm.group(1) if mm else ""
            det.append(f"{c}: failing input ({msg[:110].replace('|', '/')}…)")
    rows.append(f"| {d} | {first[:150].replace('|', '/')} | {'; '.join(det)} |")
print("| seeded change | what it is (first line of the author's notes) | verdict of the check |\n|---|---|---|")
print("\n".join(rows))
