"""looplib.py — shared machinery of the run-loop properties (C01 C04 C05 C08 C13 C17 C18-password).

A *schedule* is a list of labels (see coq/DriverLoop.v): caller operations (i/c/v/y/a issue, x cancel,
h drop handle), the clock (t<ms>), the simulated server (N:<hexname> change, S / S* serve one / all
request lines, D<k> deliver k (0 = all) bytes of its output), and faults (e, r, w, G:<hex>).  The
extracted Coq model turns the labels into the concrete operations for the replayer and predicts the
trace; the real client is then run on those operations.  Oracles here read only the
implementation's trace and the schedule (never the model's prediction)."""
import re
from vlib import hexs, unhexs

LOOP_COQ_FILES = ["Bytes.v", "ParserModel.v", "BuilderModel.v", "ConnModel.v", "CommandModel.v", "MpdTokenizer.v",
                  "LoopModel.v", "ServerModel.v", "CallerModel.v", "LoopProofs.v", "LoopSpec.v", "LoopSpecProofs.v"]
# C01 / C04 / C05 also state the refinement theorems (executable system -> abstract system)
REFINE_COQ_FILES = ["DriverLoop.v", "Grammar.v", "ParserProofs.v", "ConnProofs.v", "RoundTripProofs.v", "LoopRefine.v", "LoopRefineProofs.v"]
CANCEL_COQ_FILES = ["LoopCancel.v", "LoopCancelProofs.v"]
MUTE_COQ_FILES = ["LoopDrainProofs.v", "LoopCancelDrainProofs.v", "LoopMute.v", "LoopMuteProofs.v"]

SUBSYSTEMS = ["database", "update", "stored_playlist", "playlist", "player", "mixer", "output", "options", "partition",
              "sticker", "subscription", "message", "neighbor", "mount", "fingerprint", "Player", "x-y_z",
              "queue", "Queue", "queues", "playlists", "Database", "stored-playlist", "storedplaylist", "mix", "outputs"]

FLUSH = ["S*", "D0", "S*", "D0", "t200", "S*", "D0", "S*", "D0", "t200", "S*", "D0"]


def flush(n_requests=0):
    """Let the server answer everything queued, then let the re-idle delay pass and the idle reply (if any) arrive."""
    return ["S*", "D0"] * (n_requests + 3) + ["t200"] + ["S*", "D0"] * 3 + ["t200", "S*", "D0"]

DEFAULT_CONF = "~;~;~;~;0;8192"


def conf(pw=None, emb=None, mime=None, file=None, norp=False, limit=8192, fileack=False, rperr=None):
    h = lambda x: "~" if x is None else ("-" if len(x) == 0 else hexs(x))
    return ";".join([h(pw), h(emb), h(mime), h(file), "1" if norp else "0", str(limit), "1" if fileack else "0", "~" if rperr is None else str(rperr)])


def spec(name, *args):
    return ".".join([name] + [hexs(a) for a in args])


def spec_line(sp):
    """The request line the command API writes for a spec whose arguments need no quoting."""
    parts = sp.split(".")
    if parts[0] == "big":
        return "echo " + "x" * int(unhexs(parts[1]).decode())
    return " ".join([parts[0]] + [unhexs(a).decode() for a in parts[1:]])


class Sched:
    def __init__(self, cspec="p~", conf=DEFAULT_CONF, labels=None, note=""):
        self.cspec = cspec
        self.conf = conf
        self.labels = list(labels or [])
        self.note = note

    def model_case(self):
        return " ".join(["loopm", self.cspec, self.conf] + self.labels)


def run_schedules(ctx, scheds):
    """-> list of dicts {sched, ops, model_segs, impl_segs, violated, agree}"""
    mcases = [s.model_case() for s in scheds]
    mout = ctx.run_model(mcases)
    res = []
    icases = []
    for s, o in zip(scheds, mout):
        parts = o.split(" # ")
        if len(parts) != 3:
            raise RuntimeError("model output malformed: " + o[:300])
        marks_all = parts[0].split(" ") if parts[0] else []
        ops = [o for o in marks_all if o != "-"]
        marks, k = [], 0          # per label: index of its operation in the trace (0 = connect segment) or None
        for o in marks_all:
            if o == "-":
                marks.append(None)
            else:
                k += 1
                marks.append(k)
        res.append({"sched": s, "ops": ops, "marks": marks, "model_segs": parts[1].split(" "), "violated_model": parts[2].endswith("1")})
        icases.append(" ".join(["loop", s.cspec] + ops))
    iout = ctx.run_impl(icases)
    for r, line, ic in zip(res, iout, icases):
        r["impl_case"] = ic
        r["impl_raw"] = line
        r["impl_segs"] = line.split(" ")
        r["agree"] = r["impl_segs"] == r["model_segs"]
    return res


def disagreements(results):
    dis = []
    for r in results:
        if not r["agree"]:
            k = next((i for i, (a, m) in enumerate(zip(r["impl_segs"], r["model_segs"])) if a != m), min(len(r["impl_segs"]), len(r["model_segs"])))
            dis.append({"case": r["sched"].model_case(), "impl_case": r["impl_case"],
                        "first_difference_at_op": (["<connect>"] + r["ops"])[k] if k <= len(r["ops"]) else "?",
                        "impl": " ".join(r["impl_segs"][max(0, k - 1):k + 2])[:1500], "model": " ".join(r["model_segs"][max(0, k - 1):k + 2])[:1500]})
    return dis


# ------------------------------------------------------------------------------- trace access

SEG_RE = re.compile(r"^\[(.*)\]$")


def seg_items(seg):
    m = SEG_RE.match(seg)
    if not m or not m.group(1):
        return []
    return m.group(1).split(";")


class Trace:
    """The implementation's trace, item by item, aligned with the operations."""

    def __init__(self, r):
        self.ops = ["<connect>"] + r["ops"]
        self.segs = [seg_items(s) for s in r["impl_segs"]]
        self.panic = any("PANIC" in s for s in r["impl_segs"]) or r["impl_raw"].startswith("PANIC")

    def writes(self):
        """[(op index, bytes)]"""
        out = []
        for i, items in enumerate(self.segs):
            for it in items:
                if it.startswith("w:"):
                    out.append((i, unhexs(it[2:])))
        return out

    def written_lines(self):
        """[(op index, line)] — complete LF-terminated lines in write order"""
        buf = b""
        out = []
        for i, w in self.writes():
            buf += w
            while b"\n" in buf:
                l, buf = buf.split(b"\n", 1)
                out.append((i, l))
        return out

    def results(self):
        d = {}
        for i, items in enumerate(self.segs):
            for it in items:
                m = re.match(r"^r(\d+)=(.*)$", it)
                if m:
                    d[int(m.group(1))] = (i, m.group(2))
        return d

    def events(self):
        out = []
        for i, items in enumerate(self.segs):
            for it in items:
                if it.startswith("ev:"):
                    out.append((i, it[3:]))
        return out

    def conn(self):
        for i, items in enumerate(self.segs):
            for it in items:
                if it.startswith("conn="):
                    return i, it[5:]
        return None, None

    def flag(self, f):
        return [i for i, items in enumerate(self.segs) if f in items]

    def delivered(self):
        """[(op index, bytes)]"""
        return [(i, unhexs(op[2:])) for i, op in enumerate(self.ops) if op.startswith("d:")]


def count_responses(stream):
    """Number of complete responses in a server byte stream (binary payloads skipped by length)."""
    n = 0
    i = 0
    while True:
        j = stream.find(b"\n", i)
        if j < 0:
            return n
        line = stream[i:j]
        i = j + 1
        if line == b"OK" or line.startswith(b"ACK "):
            n += 1
        elif line.startswith(b"binary: ") and line[8:].isdigit():
            i += int(line[8:]) + 1
            if i > len(stream):
                return n


def leftover_after_responses(stream):
    """The bytes after the last complete response of a server byte stream."""
    i = 0
    last = 0
    while True:
        j = stream.find(b"\n", i)
        if j < 0:
            return stream[last:]
        line = stream[i:j]
        i = j + 1
        if line == b"OK" or line.startswith(b"ACK "):
            last = i
        elif line.startswith(b"binary: ") and line[8:].isdigit():
            i += int(line[8:]) + 1
            if i > len(stream):
                return stream[last:]


# ------------------------------------------------------------------------------- expectations

def payload(n):
    return bytes(i % 251 for i in range(n))


def expected_result(kind, specs):
    """What the echo server's reply to this request is, as the caller must see it (C01)."""
    frames = []
    for idx, sp in enumerate(specs):
        parts = sp.split(".")
        name = parts[0]
        args = [unhexs(a).decode() for a in parts[1:]]
        if name == "big":
            name, args = "echo", ["x" * int(args[0])]
        line = " ".join([name] + args)
        if name in ("fail", "pfail"):
            # pfail: the command had already written part of its output when it failed; that partial frame is not a frame of a
            # command that succeeded, so the caller must not see it
            code = int(args[0]) if args else 50
            shown = [] if kind == "c" else frames
            return f"ack({code},{idx},{hexs(name)},{hexs('boom')})[{'/'.join(shown)}]"
        if name == "bin":
            frames.append(f"()bin={hexs(payload(int(args[0])))}")
        elif name == "kv":
            pairs = [f"{hexs(args[i])}:{hexs(args[i + 1])}" for i in range(0, len(args) - 1, 2)]
            frames.append("(" + ",".join(pairs) + ")bin=~")
        elif name in ("update", "rescan"):
            frames.append(f"({hexs('updating_db')}:{hexs(args[0] if args else '1')})bin=~")
        elif name == "stop":
            frames.append("()bin=~")
        else:
            frames.append(f"({hexs('line')}:{hexs(line)})bin=~")
    if kind == "c":
        frames = frames[:1]
    return "ok[" + "/".join(frames) + "]"


KEY_FAMILIES = [["AlbumArtistSort", "AlbumArtist", "Album", "Al"], ["songid", "song", "so"], ["Time", "time", "TIME", "tIME"],
                ["playlistlength", "playlist"], ["Last-Modified", "last-modified", "Last-modified"], ["duration", "Duration"], ["x", "X", "xx", "xX"]]


def kv_spec(rng, tagtext):
    """A request whose reply has 1..6 fields with keys from one or two families of similar words (other letter cases, prefixes of the
    key before): everything a connection remembers about field NAMES from one reply to the next must not show."""
    fam = rng.choice(KEY_FAMILIES)
    keys = [rng.choice(fam) for _ in range(rng.choice([1, 2, 3, 6]))]
    if rng.random() < 0.5:
        keys = sorted(keys, key=len, reverse=True)       # a prefix right after the longer word
    if rng.random() < 0.3:
        keys += [rng.choice(rng.choice(KEY_FAMILIES))]
    args = []
    for i, k in enumerate(keys):
        args += [k, f"{tagtext}v{i}"]
    return spec("kv", *args)


def binary_reply_schedules():
    """A reply with a binary part delivered in three reads: one ending INSIDE the payload, one ending exactly after the line feed that
    closes it, the closing OK alone — for payloads of several sizes and every kind of first cut; as a single command (through the
    cancelled idle) and inside the re-idle window.  -> [Sched]"""
    out = []
    for n in (5, 10, 64, 300, 5000):
        head = len(f"binary: {n}\n")
        for j in sorted({0, 1, 2, n // 2, max(0, n - 5), max(0, n - 4), n - 1}):
            k1 = head + j                       # the first read ends after j bytes of the payload
            k2 = (n - j) + 1                    # the second exactly after the payload's line feed
            sp = spec("bin", str(n), "b")
            out.append(Sched(labels=["D0", "c1:" + sp, "S*", "D3", "S*", f"D{k1}", f"D{k2}", "D0", "t200", "S*", "D0"] + flush(1), note=f"binary reply of {n} bytes cut {j} bytes into the payload, then right after it"))
            out.append(Sched(labels=["D0", "c1:" + spec("echo", "a"), "S*", "D0", "S*", "D0", "c2:" + sp, "S*", f"D{k1}", f"D{k2}", "D0", "t200", "S*", "D0"] + flush(2), note=f"the same inside the re-idle window ({n}, {j})"))
            out.append(Sched(labels=["D0", "i1:" + spec("echo", "a") + "," + sp + "," + spec("echo", "z"), "S*", "D3", "S*", "D" + str(len(b"line: echo a\nlist_OK\n") + k1), f"D{k2}", "D0", "t200", "S*", "D0"] + flush(1), note=f"the same inside a list ({n}, {j})"))
    return out


def gen_request(rng, rid, allow_fail=True, allow_bin=True):
    """-> (label, kind, specs)"""
    kind = rng.choice(["i", "i", "c"])
    n = 1 if kind == "c" else rng.choice([1, 1, 2, 3, 5])
    specs = []
    for k in range(n):
        r = rng.random()
        if allow_fail and r < 0.12:
            specs.append(spec(rng.choice(["fail", "fail", "pfail"]), str(rng.choice([1, 2, 5, 50])), f"r{rid}c{k}"))
        elif allow_bin and r < 0.22:
            specs.append(spec("bin", str(rng.choice([0, 1, 3, 20, 5000])), f"r{rid}c{k}"))
        elif r < 0.40:
            specs.append(kv_spec(rng, f"r{rid}c{k}"))
        else:
            specs.append(spec("echo", f"r{rid}", f"c{k}"))
    return f"{kind}{rid}:" + ",".join(specs), kind, specs


def gen_session(rng, n_steps, faults=False, cancel=True, with_drop=False, pauses=False):
    """A random schedule against the rule-abiding server.  -> (labels, info)"""
    labels = ["D0"]
    if rng.random() < 0.3:
        labels.insert(0, "k" + str(rng.choice([1, 3, 7, 16, 24])))     # the transport takes only a few bytes per write
    if pauses and rng.random() < 0.1:
        labels += ["S*", "Z"]      # the application drops its ConnectionEvents for good (the requests must go on being answered)
    info = {"requests": {}, "cancelled": set(), "notified": [], "fault": None, "dropped": False}
    rid = 0
    live = []
    for _ in range(n_steps):
        r = rng.random()
        if r < 0.28:
            rid += 1
            lab, kind, specs = gen_request(rng, rid)
            labels.append(lab)
            info["requests"][rid] = (kind, specs)
            live.append(rid)
        elif r < 0.40:
            name = rng.choice(SUBSYSTEMS)
            labels.append("N:" + hexs(name))
            info["notified"].append(name)
        elif r < 0.58:
            labels.append(rng.choice(["S", "S*", "S*"]))
        elif r < 0.80:
            labels.append(rng.choice(["D0", "D0", "D1", "D2", "D3", "D7", "D20"]))
        elif r < 0.93:
            labels.append("t" + str(rng.choice([1, 30, 50, 99, 100, 101, 250, 250, 31000, 45000, 3600000])))
        elif r < 0.946 and pauses and rng.random() < 0.25:
            # bursts: far more pending requests / reported changes / unpolled events than any bounded queue would hold
            kind = rng.choice(["requests", "changes", "unpolled"])
            if kind == "requests":
                for _ in range(rng.choice([130, 150, 260])):
                    rid += 1
                    sp = spec("echo", f"r{rid}", "burst")
                    labels.append(f"c{rid}:{sp}")
                    info["requests"][rid] = ("c", [sp])
            elif kind == "changes":
                for i in range(rng.choice([260, 300, 4200])):
                    name = SUBSYSTEMS[i % 14]
                    labels.append("N:" + hexs(name))
                    info["notified"].append(name)
                labels += ["S*", "D0"]
            else:
                labels.append("q")
                for i in range(rng.choice([260, 300])):
                    name = SUBSYSTEMS[i % 14]
                    labels += ["N:" + hexs(name), "S*", "D0"]
                    info["notified"].append(name)
                labels.append("Q")
        elif r < 0.955 and pauses:
            # back-pressure episode: the peer stops reading, something is issued, time passes, it reads again
            rid += 1
            lab, kind, specs = gen_request(rng, rid, allow_bin=False)
            info["requests"][rid] = (kind, specs)
            live.append(rid)
            pre = ["S*", "D0", "S*", "D0"] if rng.random() < 0.6 else []      # often right after a reply: inside the re-idle window
            labels += pre + ["p", lab, "t" + str(rng.choice([30, 99, 100, 150, 250])), "u"]
        elif r < 0.97 and cancel and live:
            c = rng.choice(live)
            live.remove(c)
            info["cancelled"].add(c)
            labels.append(f"x{c}")
        else:
            labels.append(rng.choice(["S*", "D0"]))
    if "Z" in labels:
        # once the event stream is dropped there is nothing to stop or resume polling (the model treats Z as a q that is never undone)
        z = labels.index("Z")
        labels = labels[:z + 1] + [l for l in labels[z + 1:] if l not in ("q", "Q")]
    return labels, info, rid


def gen_fragment_session(rng, n_steps, tricky=True, cancels=False, drops=False):
    """A random schedule inside the fragment of the refinement theorems (Props/C05.v c05_exec_refines): single requests
    (plain words, arguments that need quoting, non-ASCII; ACK and binary replies) and command lists of 1..5 of them, changes, server reads, deliveries of any size, clock advances.
    With [cancels]: callers give up (x<id>) at random later points — in flight, queued, after the answer —, which puts the schedule
    in the domain of the erasure theorem (Props/C01.v c01_exec_cancel_session) instead.
    -> (labels, info, number of requests)"""
    labels = ["D0"]
    info = {"requests": {}, "cancelled": set(), "notified": [], "fault": None, "dropped": False}
    rid = 0
    to_cancel = []
    words = ["status", "stats", "currentsong", "echo", "ping", "play", "next", "outputs", "playlistinfo", "lsinfo"]
    args = ["a", "x y", "it's", 'say "hi"', "back\\slash", "\u00e4\u00f6", "\u65e5\u672c", "", "tab\there", "OK", "list_OK", "ACK [5@0] {} x", "binary: 3", "idle x"]
    if not tricky:
        args = ["a", "b1", "OK", "list_OK", "idle", "noidle", "x-y_z", "0"]      # no quoting needed: the echoed line is name + arguments
    drop_at = rng.randrange(n_steps) if drops and n_steps else None      # the application drops its ConnectionEvents here (Z)
    for step in range(n_steps):
        if step == drop_at:
            labels.append("Z")
            info["dropped_listener"] = True
        r = rng.random()
        if cancels and to_cancel and rng.random() < 0.25:
            victim = to_cancel.pop(rng.randrange(len(to_cancel)))
            labels.append(f"x{victim}")
            info["cancelled"].add(victim)
        if r < 0.30:
            rid += 1
            if cancels and rng.random() < 0.4:
                to_cancel.append(rid)
            r2 = rng.random()
            if r2 < 0.12:
                sp = spec("fail", str(rng.choice([1, 2, 5, 50])), f"r{rid}")          # an ACK reply
            elif r2 < 0.24:
                sp = spec("bin", str(rng.choice([0, 1, 3, 20, 300])), f"r{rid}")     # a binary reply
            elif r2 < 0.40:
                sp = kv_spec(rng, f"r{rid}")                                          # replies whose keys vary (letter case, prefixes)
            elif r2 < 0.75:
                sp = spec(rng.choice(words), *[rng.choice(args) for _ in range(rng.choice([0, 0, 1, 2]))])
            else:
                sp = spec("echo", f"r{rid}")
            if rng.random() < 0.3:
                # a command list (sent as one request; the server reads it line by line): 1..5 commands, some failing, some binary
                sps = []
                for j in range(rng.choice([1, 2, 2, 3, 5])):
                    r3 = rng.random()
                    if r3 < 0.12:
                        sps.append(spec("fail", str(rng.choice([1, 2, 5, 50])), f"r{rid}_{j}"))
                    elif r3 < 0.22:
                        sps.append(spec("bin", str(rng.choice([0, 1, 3, 20])), f"r{rid}_{j}"))
                    elif r3 < 0.6:
                        sps.append(spec(rng.choice(words), *[rng.choice(args) for _ in range(rng.choice([0, 1, 2]))]))
                    else:
                        sps.append(spec("echo", f"r{rid}_{j}"))
                labels.append(f"i{rid}:" + ",".join(sps))
                info["requests"][rid] = ("i", sps)
                continue
            labels.append(f"c{rid}:{sp}")
            info["requests"][rid] = ("c", [sp])
        elif r < 0.44:
            name = rng.choice(SUBSYSTEMS)
            labels.append("N:" + hexs(name))
            info["notified"].append(name)
        elif r < 0.64:
            labels.append(rng.choice(["S", "S*", "S*"]))
        elif r < 0.86:
            labels.append(rng.choice(["D0", "D0", "D1", "D2", "D3", "D7", "D20"]))
        else:
            labels.append("t" + str(rng.choice([1, 30, 50, 99, 100, 101, 250, 31000])))
    return labels, info, rid


def fragment_membership(ctx, scheds):
    """How many of the schedules lie inside the fragment the refinement theorems quantify over (decided by the extracted
    [classify] / [good] of coq/LoopRefine.v, case kind loopfrag).  -> (count inside, {reason: count} for the first label outside)"""
    outs = ctx.run_model([" ".join(["loopfrag", s.cspec, s.conf] + s.labels) for s in scheds])
    inside = sum(1 for o in outs if o == "in")
    why = {}
    for o in outs:
        if o in ("in+Z", "in+x+Z"):
            k = "(listener dropped" + (", cancellations" if "+x" in o else "") + ": listener theorem + refinement)"
            why[k] = why.get(k, 0) + 1
        elif o.startswith("Z-ok:"):
            why["(listener dropped: listener theorem only)"] = why.get("(listener dropped: listener theorem only)", 0) + 1
        elif o == "in+x":
            why["(with cancellations: erasure theorem + refinement)"] = why.get("(with cancellations: erasure theorem + refinement)", 0) + 1
        elif o.startswith("x-ok:"):
            why["(with cancellations: erasure theorem only)"] = why.get("(with cancellations: erasure theorem only)", 0) + 1
        elif o != "in":
            k = o[4:5] if o.startswith("out:") and len(o) > 4 and o[4:] not in ("password", "first-label", "short") else o[4:]
            why[k] = why.get(k, 0) + 1
    return inside, why


# ------------------------------------------------------------------------------- oracles on the implementation's trace

def judge_session(r, password=False):
    """C05: the lines the real client wrote, judged (a) by a rule-abiding server that receives them when the
    schedule lets it (S labels) and (b) from the client's own point of view (what had been delivered when a
    line was written).  -> list of violation messages."""
    t = Trace(r)
    labels = r["sched"].labels
    marks = r["marks"]
    lines_by_op = {}
    for i, l in t.written_lines():
        lines_by_op.setdefault(i, []).append(l)
    out = []
    # (a) server view
    queue = list(lines_by_op.get(0, []))
    idle = False
    pending = 0
    for lab, mk in zip(labels, marks):
        if lab.startswith("N:"):
            if idle:
                idle = False
            else:
                pending += 1
        elif lab in ("S", "S*"):
            while queue:
                line = queue.pop(0)
                if idle:
                    if line == b"noidle":
                        idle = False
                    else:
                        out.append(f"the server was waiting in idle and received {line!r} (only noidle is legal)")
                        idle = False
                elif line == b"idle":
                    if pending:
                        pending = 0
                    else:
                        idle = True
                if lab == "S":
                    break
        if mk is not None:
            queue += lines_by_op.get(mk, [])
    # (b) client view
    delivered = t.delivered()
    stream_upto = {}
    acc = b""
    k = 0
    for i in range(len(t.ops)):
        while k < len(delivered) and delivered[k][0] <= i:
            acc += delivered[k][1]
            k += 1
        stream_upto[i] = count_responses(acc) - 0
    idles = reqs = 0
    pw = 0
    in_list = False
    first = True
    for i, line in t.written_lines():
        got = stream_upto[i]
        if first:
            first = False
            if password:
                if not line.startswith(b"password "):
                    out.append(f"first line written is {line!r}, not the password command")
                pw = 1
                continue
            if line != b"idle":
                out.append(f"first line written after the greeting is {line!r}, not idle")
        if in_list:
            if line == b"command_list_end":
                in_list = False
            continue
        if line == b"idle":
            if got != idles + reqs + pw:
                out.append(f"idle written while a reply was still outstanding ({got} responses delivered, {idles} idles + {reqs} requests written)")
            idles += 1
        elif line == b"noidle":
            if got >= idles + reqs + pw and idles > 0:
                pass  # noidle after the idle reply was delivered but not yet consumed is the legal race
        else:
            if got != idles + reqs + pw:
                out.append(f"request {line!r} written while an idle or another request was unanswered "
                           f"({got} responses delivered; {idles} idles and {reqs} requests written before it)")
            reqs += 1
            if line == b"command_list_ok_begin":
                in_list = True
    # (c) notifications keep flowing: a delivery that completes a reply while the client idles (its last line is idle and
    # nothing else is outstanding) must be answered by a new idle before the client rests again
    cum = b""
    last = None
    lines_by_op2 = {}
    for i, l in t.written_lines():
        lines_by_op2.setdefault(i, []).append(l)
    closed_at = min(t.flag("X") + t.flag("D") + [10 ** 9])
    for i in range(len(t.ops)):
        before = count_responses(cum)
        for j, x in delivered:
            if j == i:
                cum += x
        after = count_responses(cum)
        new_lines = lines_by_op2.get(i, [])
        if after > before and last == b"idle" and i < closed_at and b"idle" not in new_lines and not password:
            out.append(f"an idle reply was delivered (operation {i}: {t.ops[i][:60]}) but the client did not issue idle again; it wrote {new_lines}")
        if new_lines:
            last = new_lines[-1]
    return out


def judge_replies(r, info):
    """C01: each resolved request carries the echo server's reply to exactly that request; request lines reach
    the wire in issue order."""
    t = Trace(r)
    out = []
    res = t.results()
    for rid, (kind, specs) in info["requests"].items():
        if rid in res and rid not in info["cancelled"]:
            got = res[rid][1]
            if got.startswith("ok[") or got.startswith("ack("):
                exp = expected_result(kind, specs)
                if got != exp:
                    out.append(f"request {rid} ({kind}: {[spec_line(s) for s in specs]}) resolved with {got[:300]}; the server's reply to it is {exp[:300]}")
    if info.get("fault_free"):
        for rid, (kind, specs) in info["requests"].items():
            if rid in res and rid not in info["cancelled"] and not (res[rid][1].startswith("ok[") or res[rid][1].startswith("ack(")):
                out.append(f"request {rid} resolved with {res[rid][1][:80]} although nothing went wrong with the connection")
    # issue order: the request lines on the wire are exactly the requests in the order they were issued
    want = []
    for rid in sorted(info["requests"]):
        kind, specs = info["requests"][rid]
        ls = [spec_line(sp).encode() for sp in specs]
        want += ls if len(ls) == 1 else [b"command_list_ok_begin"] + ls + [b"command_list_end"]
    seen = [l for _, l in t.written_lines() if l not in (b"idle", b"noidle") and not l.startswith(b"password ")]
    if seen != want[:len(seen)]:
        k = next(i for i, (a, c) in enumerate(zip(seen, want + [None] * len(seen))) if a != c)
        out.append(f"request lines reached the wire out of issue order: line {k} is {seen[k]!r}, issue order demands {want[k] if k < len(want) else None!r}")
    return out


# ------------------------------------------------------------------------------- select! ties (auto-server mode)

GREETING_HEX = hexs(b"OK MPD 0.23.5\n")


def gen_tie_cases(rng, n):
    """Schedules in which a subsystem change and a request become ready in the same instant, so that the continuation
    depends on which select! branch tokio picks; the replayer's built-in server answers (no scripted peer is possible).
    -> [(harness case line, info)]"""
    out = []
    for _ in range(n):
        ops = ["d:" + GREETING_HEX, "A"]
        info = {"requests": {}, "cancelled": set(), "notified": [], "fault_free": True}
        rid = 0
        for _ in range(rng.choice([1, 2, 4, 8])):
            r = rng.random()
            rid += 1
            if r < 0.6:
                name = rng.choice(SUBSYSTEMS)
                sp = spec("echo", f"r{rid}", "tie")
                ops.append(f"z{rid}:{sp};{hexs(name)}")
                info["requests"][rid] = ("c", [sp])
                info["notified"].append(name)
            elif r < 0.8:
                sp = spec("echo", f"r{rid}", "c0")
                ops.append(f"c{rid}:{sp}")
                info["requests"][rid] = ("c", [sp])
            else:
                name = rng.choice(SUBSYSTEMS)
                ops.append("n:" + hexs(name))
                info["notified"].append(name)
                rid -= 1
            ops.append("t" + str(rng.choice([1, 50, 100, 250])))
        ops += ["t200", "t200"]
        out.append((" ".join(["loop", "p~"] + ops), info))
    return out


def judge_tie(raw, ops, info):
    """Oracles for an auto-server run: legal session, own replies, events = changes, re-idled."""
    r = {"ops": ops[2:], "impl_segs": raw.split(" "), "impl_raw": raw}
    t = Trace(r)
    out = []
    if t.panic:
        out.append("the client panicked")
    if t.flag("V"):
        out.append("the server was waiting in idle and received something other than noidle")
    res = t.results()
    for rid, (kind, specs) in info["requests"].items():
        got = res.get(rid, (None, "<never resolved>"))[1]
        exp = expected_result(kind, specs)
        if got != exp:
            out.append(f"request {rid} ({spec_line(specs[0])}) resolved with {got[:120]}; the server's reply to it is {exp[:120]}")
    evs = [x for _, x in t.events() if x != "end"]
    want = [hexs(n) for n in info["notified"]]
    if evs != want:
        out.append(f"the server reported {info['notified']}; events delivered: {[unhexs(e).decode(errors='replace') for e in evs]}")
    lines = [l for _, l in t.written_lines()]
    if lines and lines[-1] != b"idle":
        out.append(f"the client did not return to idle (last line {lines[-1]!r}); written: {lines[-8:]}")
    return out


def run_ties(ctx, n_quick=40, n_thorough=800):
    """-> (failures, count) for the select!-tie schedules (implementation + oracles only)"""
    from vlib import Failure
    ties = gen_tie_cases(ctx.rng, n_quick if ctx.tier == "quick" else n_thorough)
    outs = ctx.run_impl([c for c, _ in ties], deterministic=False)
    fails = []
    for (c, info), raw in zip(ties, outs):
        for m in judge_tie(raw, c.split(" "), info)[:2]:
            fails.append(Failure(c, "[select! tie] " + m + "\n  trace: " + raw[:1200], extra={"tie": True}))
    return fails, len(ties)


def replay_tie(ctx, payload):
    for c in payload.get("cases", []):
        for k, raw in enumerate(ctx.run_impl([c] * 8, deterministic=False)):
            print(f"run {k}:", raw[:1500])
    print("(a select! tie: the outcome depends on tokio's random branch choice; tools/looplib.judge_tie holds the oracles)")
    return 0
