#!/usr/bin/env python3
"""try_refactor.py <area> <hN>: a behaviour-preserving refactoring written by a blind sub-agent
(/tmp/outr_<area>/<hN>/patch.diff) is applied to a scratch copy of /repo; the unedited suite must
pass; then EVERY registered check runs against the copy.  Any VIOLATION line is a false alarm."""
import json, os, re, shutil, subprocess, sys
V = os.path.dirname(os.path.dirname(os.path.abspath(__file__)))


def sh(cmd, cwd=None, env=None, timeout=3000):
    e = dict(os.environ); e["CARGO_NET_OFFLINE"] = "true"
    if env: e.update(env)
    p = subprocess.run(cmd, cwd=cwd, shell=isinstance(cmd, str), capture_output=True, text=True, env=e, timeout=timeout, errors="replace")
    return p.returncode, p.stdout + p.stderr


def main():
    area, hn = sys.argv[1], sys.argv[2]
    rnd = sys.argv[sys.argv.index("--round") + 1] if "--round" in sys.argv else ""
    out = f"/tmp/outr{rnd}_{area}/{hn}"
    stored = "--stored" in sys.argv       # re-run the checks against a refactoring already kept under /verif/seeded (suite confirmed then)
    if stored:
        out = os.path.join(V, "seeded", f"harmless_{area}_{'r' + rnd if rnd else ''}{hn}")
    patch = os.path.join(out, "patch.diff")
    copy = f"/tmp/refrepo{rnd}_{area}_{hn}_{os.getpid()}"
    shutil.rmtree(copy, ignore_errors=True)
    sh(["rsync", "-a", "--exclude", "target", "--exclude", ".git", "/repo/", copy + "/"])
    rc, o = sh(f"patch -p1 -s < {patch}", cwd=copy)
    if rc != 0:
        print("patch does not apply:", o[-300:]); return 2
    if stored:
        rc, passed = 0, json.load(open(os.path.join(out, "meta.json"))).get("suite_passed", 0)
    else:
        rc, o = sh("cargo test --workspace --offline 2>&1", cwd=copy, env={"CARGO_TARGET_DIR": f"/tmp/wtr{rnd}_{area}/target"})
        passed = sum(int(x) for x in re.findall(r"test result: ok\. (\d+) passed", o))
    print(f"suite: rc={rc} passed={passed}")
    if rc != 0:
        shutil.rmtree(copy, ignore_errors=True); return 2
    props = [c["property_id"] for c in json.load(open(os.path.join(V, "MANIFEST.json")))["checks"]]
    if "--checks" in sys.argv:
        props = sys.argv[sys.argv.index("--checks") + 1].split(",")
    alarms = {}
    for p in props:
        rc, o = sh(["./check", p], cwd=V, env={"VERIF_REPO": copy})
        vio = [l for l in o.split("\n") if l.startswith("VIOLATION")]
        if rc != 0 or vio:
            detail = ""
            m = re.search(r"replay=(\S+)", vio[0]) if vio else None
            if m and os.path.exists(m.group(1)):
                detail = open(m.group(1)).read()[:1200]
            alarms[p] = {"rc": rc, "lines": vio, "detail": detail, "tail": o[-400:]}
            print(f"  FALSE ALARM {p}: {vio} :: {detail[:700]}")
    print(f"{area}/{hn}: {len(alarms)} false alarm(s) out of {len(props)} checks: {sorted(alarms)}")
    dst = os.path.join(V, "seeded", f"harmless_{area}_{'r' + rnd if rnd else ''}{hn}")
    if stored:
        m = json.load(open(os.path.join(dst, "meta.json")))
        m["false_alarms"] = alarms
        m["checks_run"] = props
        json.dump(m, open(os.path.join(dst, "meta.json"), "w"), indent=1)
        shutil.rmtree(copy, ignore_errors=True)
        return 0
    shutil.rmtree(dst, ignore_errors=True); os.makedirs(dst)
    for f in ("patch.diff", "notes.md"):
        if os.path.exists(os.path.join(out, f)):
            shutil.copy(os.path.join(out, f), dst)
    json.dump({"kind": "behaviour-preserving refactoring (must stay quiet)", "area": area, "id": hn, "suite_passed": passed,
               "checks_run": props, "false_alarms": alarms}, open(os.path.join(dst, "meta.json"), "w"), indent=1)
    shutil.rmtree(copy, ignore_errors=True)
    return 0


if __name__ == "__main__":
    sys.exit(main())
