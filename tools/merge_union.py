#!/usr/bin/env python3
"""Resolve git conflict markers in the given files by keeping both sides (ours, then theirs)."""
import sys
for p in sys.argv[1:]:
    out = []
    for line in open(p):
        if line.startswith("<<<<<<< ") or line.startswith(">>>>>>> ") or line.startswith("======="):
            continue
        out.append(line)
    open(p, "w").write("".join(out))
