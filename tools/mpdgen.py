"""mpdgen.py — generators for server-side byte streams: abstract MPD responses, their wire
encoding (mirror of coq/Grammar.v enc), the canonical print the harness and the model use,
segmentations, and corruptions."""
from vlib import hexs

KEYS = ["file", "Title", "Artist", "OK", "ACK", "list_OK", "binary", "changed", "a", "Last-Modified", "x_y", "size", "type",
        "Id", "Pos", "duration", "volume", "B",
        # proper prefixes of the keywords an earlier alternative of the grammar is still waiting for
        "l", "b", "O", "A", "li", "lis", "list", "list_", "list_O", "bi", "bin", "binar", "AC", "o", "L"]
KEY_FAMILIES = [["AlbumArtistSort", "AlbumArtist", "Album", "Al"], ["songid", "song", "so"], ["Time", "time", "TIME", "tIME"],
                ["playlistlength", "playlist"], ["Last-Modified", "last-modified"], ["x", "X", "xx", "xX"], ["file", "fil", "File", "FILE"]]
VALUES = ["", "", "x", "OK", "list_OK", "ACK [5@0] {} x", "binary: 3", "3", "18446744073709551616", "a: b", " ", "  lead", "trail ",
          "äö", "日本語", "\U0001F600", "\x00nul", "a\x00b", "tab\there", "\r", "foo/bar.mp3", "0", "1", "-1", "3x", ": ", "OK MPD 0.1"]
PAYLOADS = [b"", b"a", b"OK\n", b"OK\nACK\n\x00\xff", b"\n", b"\n\n", b"list_OK\n", b"binary: 2\nab\n", b"\xff\xfe", b"\x00" * 5,
            b"ACK [1@0] {} x\n", b"foo: bar\n"]
CMDS = [None, "play", "add_id", "x", "PLAY", "command_list_end"]
MSGS = ["", "unknown command \"foo\"", "No such song", "äö", "{} [1@2]", " ", "x" * 300]


def is_usize_numeral(v):
    return v != "" and all(c in "0123456789" for c in v) and int(v) < 2 ** 64


def gen_frame(rng, max_fields=6, payload_max=200, allow_bin=True):
    nf = rng.choice([0, 1, 1, 2, 3, max_fields])
    fields = []
    for _ in range(nf):
        k = rng.choice(KEYS)
        r = rng.random()
        if r < 0.6:
            v = rng.choice(VALUES)
        elif r < 0.8:
            v = "".join(rng.choice("abc XYZ:123é\"'\\") for _ in range(rng.choice([1, 5, 20, 80])))
        else:
            v = str(rng.choice([0, 1, 255, 256, 2 ** 32, 2 ** 64 - 1, 2 ** 64]))
        if k == "binary" and is_usize_numeral(v):
            v = v + "x"        # the one exclusion of wf_resp: that line IS a binary header
        fields.append((k, v))
    if rng.random() < 0.2:
        # keys that resemble each other, next to each other: the same word in other letter cases, a key that is a prefix of the one
        # before — whatever a connection remembers about field names (it interns them) must not show
        fam = rng.choice(KEY_FAMILIES)
        run = [rng.choice(fam) for _ in range(rng.choice([2, 3, 5]))]
        if rng.random() < 0.5:
            run = sorted(run, key=len, reverse=True)
        at = rng.randrange(len(fields) + 1)
        fields[at:at] = [(k, rng.choice(["1", "x", "", "v" + str(i)])) for i, k in enumerate(run)]
    binary = None
    if allow_bin and rng.random() < 0.35:
        r = rng.random()
        if r < 0.6:
            binary = rng.choice(PAYLOADS)
        else:
            n = rng.choice([1, 7, 64, payload_max])
            binary = bytes(rng.choice([10, 0, 255, 79, 75, 65, 32, 58, rng.randrange(256)]) for _ in range(n))
    pos = rng.randrange(len(fields) + 1) if binary is not None else None
    return {"fields": fields, "bin": binary, "binpos": pos}


def gen_error(rng):
    return (rng.choice([0, 1, 2, 5, 50, 56, 2 ** 32, 2 ** 64 - 1]), rng.choice([0, 0, 1, 2, 7, 2 ** 64 - 1]),
            rng.choice(CMDS), rng.choice(MSGS))


def gen_response(rng, payload_max=200):
    form = rng.choice(["single", "single", "list"])
    err = gen_error(rng) if rng.random() < 0.25 else None
    if form == "single":
        fr = gen_frame(rng, payload_max=payload_max)
        if err is None:
            return {"form": "single", "frames": [fr], "error": None, "partial": None}
        return {"form": "single", "frames": [], "error": err, "partial": fr if rng.random() < 0.5 else None}
    n = rng.choice([1, 1, 2, 3, 6])
    frames = [gen_frame(rng, payload_max=payload_max) for _ in range(n)]
    if err is None:
        return {"form": "list", "frames": frames, "error": None, "partial": None}
    k = rng.randrange(n + 1)
    return {"form": "list", "frames": frames[:k], "error": err,
            "partial": gen_frame(rng, payload_max=payload_max) if rng.random() < 0.5 else None}


def _e(x):
    """keys/values/messages are str in generated responses; bytes are allowed so that ill-formed
    ones (invalid UTF-8) can be written down for the wf cross-check"""
    return x if isinstance(x, bytes) else x.encode()


def enc_frame(fr, boundaries=None, base=0):
    out = bytearray()
    lines = [(_e(k) + b": " + _e(v) + b"\n") for k, v in fr["fields"]]
    if fr["bin"] is not None:
        lines.insert(fr["binpos"], b"binary: " + str(len(fr["bin"])).encode() + b"\n" + fr["bin"] + b"\n")
    for l in lines:
        out += l
    return bytes(out)


def enc_error(e):
    code, idx, cmd, msg = e
    return f"ACK [{code}@{idx}] {{".encode() + _e(cmd or "") + b"} " + _e(msg) + b"\n"


def enc_response(r):
    out = bytearray()
    if r["form"] == "single":
        if r["error"] is None:
            out += (enc_frame(r["frames"][0]) if r["frames"] else b"") + b"OK\n"
        else:
            if r["partial"]:
                out += enc_frame(r["partial"])
            out += enc_error(r["error"])
    else:
        for fr in r["frames"]:
            out += enc_frame(fr) + b"list_OK\n"
        if r["error"] is None:
            out += b"OK\n"
        else:
            if r["partial"]:
                out += enc_frame(r["partial"])
            out += enc_error(r["error"])
    return bytes(out)


# ---------------------------------------------------------------- spec tie (coq/Grammar.v, kind `enc`)

import re as _re

_KEY = _re.compile(rb"[A-Za-z_-]+")
_CMD = _re.compile(rb"[A-Za-z_]+")
_NUM = _re.compile(rb"[0-9]+")


def wf_text(v):
    v = _e(v)
    try:
        v.decode("utf-8")
    except UnicodeDecodeError:
        return False
    return b"\n" not in v


def wf_field(k, v):
    k, v = _e(k), _e(v)
    header = k == b"binary" and _NUM.fullmatch(v) is not None and int(v) < 2 ** 64
    return _KEY.fullmatch(k) is not None and wf_text(v) and not header


def wf_frame(fr):
    return all(wf_field(k, v) for k, v in fr["fields"]) and (fr["bin"] is None or len(fr["bin"]) < 2 ** 64)


def wf_error(e):
    code, idx, cmd, msg = e
    return 0 <= code < 2 ** 64 and 0 <= idx < 2 ** 64 and (cmd is None or _CMD.fullmatch(_e(cmd)) is not None) and wf_text(msg)


def wf_response(r):
    """Python mirror of Grammar.wf_resp (written from the protocol description, not from the Coq text)"""
    n, err = len(r["frames"]), r["error"]
    if r["form"] == "single":
        shape = n == 1 if err is None else n == 0
    else:
        shape = n >= 1 if err is None else True
    end = err is None or (wf_error(err) and (r["partial"] is None or wf_frame(r["partial"])))
    return shape and all(wf_frame(f) for f in r["frames"]) and end


def spec_frame(fr):
    fields = ",".join(f"{hexs(k)}:{hexs(v)}" for k, v in fr["fields"]) or "~"
    b = "~" if fr["bin"] is None else hexs(fr["bin"])
    return f"{fields};{b};{fr['binpos'] or 0}"


def spec_case(r):
    """case line of the model driver kind `enc` (coq/DriverGrammar.v)"""
    if r["error"] is None:
        e = "~"
    else:
        code, idx, cmd, msg = r["error"]
        e = f"{code},{idx},{'~' if cmd is None else hexs(cmd)},{hexs(msg)}"
    p = "~" if r["partial"] is None else spec_frame(r["partial"])
    return " ".join(["enc", "l" if r["form"] == "list" else "s", e, p] + [spec_frame(f) for f in r["frames"]])


def spec_expect(r):
    return f"wf={1 if wf_response(r) else 0} {hexs(enc_response(r))}"


def ill_formed(rng, r):
    """one mutation of a generated response that touches exactly one clause of wf_resp (some of the
    mutations stay well-formed on purpose: the boundary of the `binary` exclusion and of u64)"""
    import copy
    r = copy.deepcopy(r)
    frames = [f for f in r["frames"] + ([r["partial"]] if r["partial"] and r["error"] else []) if f["fields"]]
    op = rng.choice(["key", "binkey", "value", "err", "shape"] if frames else ["err", "shape"])
    if op in ("key", "binkey", "value"):
        fr = rng.choice(frames)
        i = rng.randrange(len(fr["fields"]))
        k, v = fr["fields"][i]
        if op == "key":
            k = rng.choice(["", "a1", "a b", "é", "a:", "Binary", "bin-ary", "_", "-"])
        elif op == "binkey":
            k, v = "binary", rng.choice(["3", "0", "007", "18446744073709551615", "18446744073709551616", "+3", "", "3 ", " 3", "٣", "3x"])
        else:
            v = rng.choice([b"a\nb", b"\n", b"\xff", b"\xc0\x80", b"\xed\xa0\x80", b"\xf4\x90\x80\x80", b"\xe2\x82", b"\xf0\x9f\x98\x80",
                            b"ok \xe2\x82\xac", b"\x80"])
        fr["fields"][i] = (k, v)
    elif op == "err":
        code, idx, cmd, msg = r["error"] or gen_error(rng)
        what = rng.choice(["code", "idx", "cmd", "msg"])
        if what == "code":
            code = rng.choice([2 ** 64, 2 ** 64 - 1, 10 ** 30])
        elif what == "idx":
            idx = rng.choice([2 ** 64, 2 ** 64 - 1, 10 ** 30])
        elif what == "cmd":
            cmd = rng.choice(["pl4y", "", "a-b", "a b", "é", "_", "Z"])
        else:
            msg = rng.choice([b"a\nb", b"\xff", b"\xed\xa0\x80", b"", b"{x} [1@1]"])
        if r["error"] is None:
            r["frames"] = [] if r["form"] == "single" else r["frames"]
        r["error"] = (code, idx, cmd, msg)
    else:
        extra = {"fields": [], "bin": None, "binpos": None}
        what = rng.choice(["more", "none"])
        r["frames"] = (r["frames"] + [extra]) if what == "more" else []
    return r


def show_frame(fr):
    fields = ",".join(f"{hexs(k)}:{hexs(v)}" for k, v in fr["fields"])
    b = "~" if fr["bin"] is None else hexs(fr["bin"])
    return f"({fields})bin={b}"


def show_response(r):
    frames = "/".join(show_frame(f) for f in r["frames"])
    if r["error"] is None:
        e = "err[none]"
    else:
        code, idx, cmd, msg = r["error"]
        e = f"err[{code},{idx},{'~' if not cmd else hexs(cmd)},{hexs(msg)}]"
    return f"resp[{frames}]{e}"


# ---------------------------------------------------------------- segmentations

def seg_whole(s):
    return [s] if s else []


def seg_bytes(s):
    return [s[i:i + 1] for i in range(len(s))]


def seg_random(rng, s, parts=None, maxlen=None):
    if not s:
        return []
    if maxlen:
        out, i = [], 0
        while i < len(s):
            n = rng.randint(1, maxlen)
            out.append(s[i:i + n])
            i += n
        return out
    k = parts or rng.choice([2, 3, 4, 8])
    cuts = sorted(rng.randrange(1, len(s)) for _ in range(min(k - 1, max(0, len(s) - 1)))) if len(s) > 1 else []
    out, prev = [], 0
    for c in cuts + [len(s)]:
        if c > prev:
            out.append(s[prev:c])
            prev = c
    return out


def case_line(kind, flavour, extra, tail, chunks):
    return " ".join([kind, flavour, str(extra), tail] + [hexs(c) for c in chunks])


# ---------------------------------------------------------------- corruption

def corrupt(rng, s):
    s = bytearray(s)
    op = rng.choice(["flip", "insert", "delete", "truncate", "dup", "swapnl"])
    if not s:
        return bytes([rng.randrange(256)])
    i = rng.randrange(len(s))
    if op == "flip":
        s[i] = rng.choice([s[i] ^ (1 << rng.randrange(8)), 0, 255, 10, 58, 32])
    elif op == "insert":
        s[i:i] = bytes([rng.choice([0, 10, 255, 58, 32, 48, 79, rng.randrange(256)])])
    elif op == "delete":
        del s[i]
    elif op == "truncate":
        del s[i:]
    elif op == "dup":
        s[i:i] = s[i:i + rng.choice([1, 3, 10])]
    else:
        j = s.find(b"\n")
        if j >= 0:
            s[j] = rng.choice([13, 32, 0])
    return bytes(s)


def random_bytes(rng, n):
    alphabet = b"OK\nlist_ACK [5@0] {}binary: 0123456789abc\xff\x00 :\n\n"
    return bytes(rng.choice(alphabet) if rng.random() < 0.8 else rng.randrange(256) for _ in range(n))


# ---------------------------------------------------------------- shared hard cases

# characters chosen for what a sloppy conversion does to them: low byte equal to an ASCII special (" ' \\ LF space TAB NUL),
# case-folding to ASCII (KELVIN SIGN, LONG S, dotted I), Unicode numerics and letters outside ASCII, Latin-1 letters whose
# UTF-8 bytes look alphabetic as Latin-1, fullwidth forms, combining marks, 4-byte planes
TRICKY_CHARS = ["\u0422", "\u0427", "\u2022", "\u0127", "\u015c", "\u4e5c", "\u010a", "\u0120", "\u0109", "\u0100", "\U00010022", "\U0001f35c",
                "\u212a", "\u017f", "\u0130", "\u0131", "\u00b2", "\u00bd", "\u0663", "\uff11", "\u2167", "\u00b5", "\u00aa", "\u00ba",
                "\u00ea", "\u00f5", "\u0435", "\u043a", "\u042a", "\uff21", "\uff3f", "e\u0301", "\u00df", "\u00e9", "\u65e5", "\U0001f600"]


def numeric_variants(n):
    """Texts a lenient integer parser might accept for n although the protocol grammar is [0-9]+."""
    d = str(n)
    return ["+" + d, "-" + d, " " + d, d + " ", "0" + d, "00" + d, "0x" + d, d + ".0", d + "e0", "+0" + d, "\u0661".encode().decode() + d, "", "+", "-0", d + "_0", "\t" + d]


def big_response(kind, sz):
    if kind == "lines":
        line = b"file: some/path/name.flac\n"
        return line * (sz // len(line)) + b"OK\n"
    if kind == "value":
        return b"sticker: lyrics=" + b"l" * sz + b"\nOK\n"
    if kind == "payload":
        return b"binary: " + str(sz).encode() + b"\n" + bytes((i * 11 + 3) % 256 for i in range(sz)) + b"\nOK\n"
    if kind == "sized":
        return b"size: " + str(sz).encode() + b"\nbinary: " + str(sz).encode() + b"\n" + b"\n" * sz + b"\nOK\n"
    return b"a: b\nOK\n"


def pipelined_long_streams(rng, n_random):
    """R1 larger than the receive buffer followed by R2 whose first component is larger than what stays buffered (bulk reads make
    R2's head arrive with R1's tail), and responses > 8 KiB with > 4 KiB of pipelined responses behind them."""
    kinds = ["lines", "value", "payload", "sized", "small"]
    combos = [("lines", 5043, "value", 12000), ("value", 4097, "value", 4096), ("payload", 8192, "payload", 8192),
              ("lines", 9000, "payload", 20000), ("value", 6000, "lines", 13000), ("sized", 5000, "value", 9000),
              ("payload", 9000, "lines", 6000), ("value", 17000, "lines", 4200), ("lines", 8300, "small", 0)]
    for _ in range(n_random):
        combos.append((rng.choice(kinds), rng.choice([4095, 4096, 4097, 5000, 8191, 8193, 12000]),
                       rng.choice(kinds), rng.choice([4095, 4096, 4097, 6000, 8192, 12000, 17000])))
    out = []
    for k1, s1, k2, s2 in combos:
        tail = rng.choice([b"", b"x: y\nOK\n", big_response("value", 5000), big_response("lines", 4500) + b"z: 1\nOK\n"])
        out.append(big_response(k1, s1) + big_response(k2, s2) + tail)
    return out


def exact_fill_streams():
    """Streams (after the greeting) whose total length, or whose length up to a cut, is exactly the buffer capacity or one of
    its doublings, so that the last read before the end of the stream fills the buffer exactly.  -> [(stream, note)]"""
    out = []
    for cap in (4096, 8192, 16384):
        one = b"k: " + b"v" * (cap - 3 - 1 - 3) + b"\nOK\n"                       # one response of exactly cap bytes
        assert len(one) == cap
        out.append((one, f"one response of exactly {cap} bytes"))
        part = b"a: b\nOK\n" + b"key: " + b"w" * (cap - 8 - 5)                       # a response and a partial line, cap bytes
        assert len(part) == cap
        out.append((part, f"response + partial line, {cap} bytes"))
        two = b"a: b\nOK\n" + b"k: " + b"v" * (cap - 8 - 3 - 1 - 3) + b"\nOK\n"
        assert len(two) == cap
        out.append((two, f"two responses, {cap} bytes"))
        pl = cap - len(b"binary: NNNN\n\nOK\n")
        bn = b"binary: " + str(pl).encode().rjust(4, b"0") + b"\n" + bytes((i * 5) % 256 for i in range(pl)) + b"\nOK\n"
        out.append((bn, f"binary response, {len(bn)} bytes"))
    return out
