"""connlib.py — shared runner for the protocol-layer properties (C02, C03, C09, C10, C18)."""
from vlib import Failure, compare, finish, unhexs

COQ_FILES = ["Bytes.v", "Tables.v", "ParserModel.v", "BuilderModel.v", "ConnModel.v", "ParserProofs.v", "ConnProofs.v", "GrammarProofs.v"]


# The kind of a transport error is not part of the model (every failed read is "the transport failed"), and what the application
# does between an interrupted receive and its retry (send a command) is not either: the implementation gets both, varied
# deterministically from the case text, and must answer as the model does for the undecorated case.
ERR_KINDS = ["other", "ueof", "reset", "aborted", "brokenpipe", "timedout", "invaliddata", "notconnected", "interrupted", "oom"]


def decorate(case):
    import zlib
    t = case.split(" ")
    if t[0] not in ("recv", "conn") or len(t) < 4:
        return case
    h = zlib.crc32(case.encode())
    if t[3] == "err":
        t[3] = "err:" + ERR_KINDS[h % len(ERR_KINDS)]
    if (h >> 8) % 2:
        t = t[:4] + [("!s" if x == "!" else x) for x in t[4:]]
    return " ".join(t)


def run_cases(ctx, cases):
    impl = ctx.run_impl([decorate(c) for c in cases])
    model = ctx.run_model(cases) if ctx.model_ok else None
    dis = compare(cases, impl, model) if model is not None else []
    return impl, model, dis


def stream_of(case):
    t = case.split(" ")
    return b"".join(unhexs(x) for x in t[4:] if x != "!")


def describe(case):
    t = case.split(" ")
    chunks = [unhexs(x) for x in t[4:] if x != "!"]
    return f"{t[0]} flavour={t[1]} tail={t[3]} stream={b''.join(chunks)!r} chunk_lengths={[len(c) for c in chunks][:40]}"


def print_replay(cases, impl, model, fails):
    for i, c in enumerate(cases):
        print("case :", describe(c)[:600])
        print("impl :", impl[i][:1500])
        if model is not None:
            print("model:", model[i][:1500])
    for f in fails:
        print("oracle:", f.message[:1500])
