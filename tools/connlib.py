"""connlib.py — shared runner for the protocol-layer properties (C02, C03, C09, C10, C18)."""
from vlib import Failure, compare, finish, unhexs

COQ_FILES = ["Bytes.v", "Tables.v", "ParserModel.v", "BuilderModel.v", "ConnModel.v", "ParserProofs.v", "ConnProofs.v", "GrammarProofs.v"]


def run_cases(ctx, cases):
    impl = ctx.run_impl(cases)
    model = ctx.run_model(cases) if ctx.model_ok else None
    dis = compare(cases, impl, model) if model is not None else []
    return impl, model, dis


def stream_of(case):
    t = case.split(" ")
    return b"".join(unhexs(x) for x in t[4:] if x != "!")


def describe(case):
    t = case.split(" ")
    chunks = [unhexs(x) for x in t[4:] if x != "!"]
    return f"{t[0]} flavour={t[1]} tail={t[3]} stream={b''.join(chunks)!r} chunk_lengths={[len(c) for c in chunks][:40]}"


def print_replay(cases, impl, model, fails):
    for i, c in enumerate(cases):
        print("case :", describe(c)[:600])
        print("impl :", impl[i][:1500])
        if model is not None:
            print("model:", model[i][:1500])
    for f in fails:
        print("oracle:", f.message[:1500])
