"""connlib.py — shared runner for the protocol-layer properties (C02, C03, C09, C10, C18)."""
from vlib import Failure, compare, finish, hexs, unhexs

COQ_FILES = ["Bytes.v", "Tables.v", "ParserModel.v", "BuilderModel.v", "ConnModel.v", "ParserProofs.v", "ConnProofs.v", "GrammarProofs.v"]


# The kind of a transport error is not part of the model (every failed read is "the transport failed"), and what the application
# does between an interrupted receive and its retry (send a command) is not either: the implementation gets both, varied
# deterministically from the case text, and must answer as the model does for the undecorated case.
ERR_KINDS = ["other", "ueof", "reset", "aborted", "brokenpipe", "timedout", "invaliddata", "notconnected", "interrupted", "oom"]


def decorate(case):
    import zlib
    t = case.split(" ")
    if t[0] not in ("recv", "conn") or len(t) < 4:
        return case
    h = zlib.crc32(case.encode())
    if t[3] == "err":
        t[3] = "err:" + ERR_KINDS[h % len(ERR_KINDS)]
    if (h >> 8) % 2:
        t = t[:4] + [("!s" if x == "!" else x) for x in t[4:]]
    # the interrupted receive of the async connection is a future dropped while it waits for the transport, then a new receive
    if t[1] == "a" and "!" in t[4:] and (h >> 11) % 2:
        return " ".join([t[0], "ax"] + t[2:4] + [("!" if x == "!s" else x) for x in t[4:]])
    # every second response through command() / command_list() ("send followed by receive") instead of receive()
    if t[1] in ("a", "b") and t[3] != "err" and not t[3].startswith("err") and (h >> 9) % 4 in (1, 2):
        t[1] += "c" if (h >> 9) % 4 == 1 else "l"
    elif t[1] in ("a", "b") and (h >> 9) % 4 == 3:
        t[1] += "s"        # a pipelining client: a send before every receive
    return " ".join(t)


def run_cases(ctx, cases):
    impl = ctx.run_impl([decorate(c) for c in cases])
    model = ctx.run_model(cases) if ctx.model_ok else None
    dis = compare(cases, impl, model) if model is not None else []
    return impl, model, dis


def stream_of(case):
    t = case.split(" ")
    return b"".join(unhexs(x) for x in t[4:] if x != "!")


def describe(case):
    t = case.split(" ")
    chunks = [unhexs(x) for x in t[4:] if x != "!"]
    return f"{t[0]} flavour={t[1]} tail={t[3]} stream={b''.join(chunks)!r} chunk_lengths={[len(c) for c in chunks][:40]}"


def print_replay(cases, impl, model, fails):
    for i, c in enumerate(cases):
        print("case :", describe(c)[:600])
        print("impl :", impl[i][:1500])
        if model is not None:
            print("model:", model[i][:1500])
    for f in fails:
        print("oracle:", f.message[:1500])


# ---------------------------------------------------------------------------------------------------------------------------
# Large sizes, implementation only (the payload is generated inside the harness; the model is not run on megabytes): thresholds
# at which a buffer is grown, capped, shrunk or released (64 KiB, 1 MiB, 8 MiB, their neighbours), with more of the stream
# arriving in the same read as the end of the big response.

def _pattern(n):
    block = bytes((i * 7 + 13) % 251 for i in range(251))
    return (block * (n // 251 + 1))[:n]


def bigbin_cases(tier):
    sizes = [65535, 65536, 65537, 100000, 1048576 - 64, 1048576, 1048577, 3 * 1048576, 8 * 1048576, 8 * 1048576 + 1]
    if tier == "thorough":
        sizes += [131072, 262144 + 1, 4 * 1048576, 16 * 1048576 + 3]
    cases = []
    for n in sizes:
        caps = [0, 65536, 1000] if n <= 3 * 1048576 else [0, 1 << 20]
        for cap in caps:
            for fl in ("b", "a"):
                for shape in ("f", "g", "u"):
                    cases.append(f"bigbin {fl} {n} {cap} {shape}")
    for n in (65536, 1048576, 1048577):
        for fl in ("b", "a"):
            cases.append(f"bigbin {fl} {n} 0 v")
    # beyond 16 MiB (4096 << 12) and 32 MiB: no bound on what one response may hold is part of the protocol
    for n in (16 * 1048576 - 64, 16 * 1048576, 16 * 1048576 + 1, 20 * 1048576 + 5, 33 * 1048576):
        for fl in ("b", "a"):
            for shape in (("f", "u") if n < 33 * 1048576 else ("f",)):
                cases.append(f"bigbin {fl} {n} {0 if fl == 'b' else 1 << 20} {shape}")
    return cases


def bigbin_expected(case):
    _, fl, n, cap, shape = case.split(" ")
    n = int(n)
    if shape == "v":
        return f"resp[(pre=x,key={''.join(chr(97 + b % 26) for b in _pattern(n))})bin=~] | resp[(volume=50)bin=~] | eof"
    big = f"resp[(size=1)bin={n}:{sum(_pattern(n))}]"
    if shape == "u":
        return big + " | ueof"
    if shape == "g":
        return big + f" | resp[()bin=100000:{sum(_pattern(100000))}] | resp[(state=play)bin=~] | eof"
    return big + f" | resp[(volume=50)bin=~] | resp[()bin=100000:{sum(_pattern(100000))}] | resp[(state=play)bin=~] | eof"


def run_bigbin(ctx):
    """-> (cases, outputs, failures)"""
    from vlib import Failure
    cases = bigbin_cases(ctx.tier)
    outs = ctx.run_impl(cases)
    fails = []
    for c, o in zip(cases, outs):
        exp = bigbin_expected(c)
        if o != exp:
            _, fl, n, cap, shape = c.split(" ")
            what = {"f": "followed by three more responses", "g": "followed at once by a binary-only response and a small one", "u": "followed by 'OK' without its line feed and the end of the stream",
                    "v": "as a field value"}[shape]
            fails.append(Failure(c, f"a response with a {n}-byte payload {what}, {'blocking' if fl == 'b' else 'async'} connection, "
                                    f"{'everything in one read' if cap == '0' else 'reads of at most ' + cap + ' bytes'}:\n  got      {o[:300]}\n  expected {exp[:300]}"))
    return cases, outs, fails


def replay_bigbin(ctx, cases):
    outs = ctx.run_impl(cases)
    bad = 0
    for c, o in zip(cases, outs):
        exp = bigbin_expected(c)
        print("case    :", c)
        print("impl    :", o[:600])
        print("expected:", exp[:600])
        if o != exp:
            bad += 1
            print(f"VIOLATION property={ctx.prop} replay=(this case) large payload handled differently")
    return 1 if bad else 0


def interrupted_stream_cases(responses, flavours="ab"):
    """The stream of these (mpdgen) responses with ONE interrupted receive after every line (and inside the first line): the
    outcomes are the responses in order with the transient failure where it struck, then the clean end.  -> [(case, expected text)]"""
    import mpdgen as g
    encs = [g.enc_response(r) for r in responses]
    shows = [g.show_response(r) for r in responses]
    st = b"".join(encs)
    ends = []
    acc = 0
    for e in encs:
        acc += len(e)
        ends.append(acc)
    out = []
    cuts = sorted(set([i + 1 for i, c in enumerate(st) if c == 10] + [2]))
    for k in cuts:
        if not (0 < k < len(st)):
            continue
        done = sum(1 for e in ends if e <= k)
        exp = " | ".join(shows[:done] + ["io"] + shows[done:] + ["eof"])
        for fl in flavours:
            out.append((" ".join(["recv", fl, "0", "eof", hexs(st[:k]), "!", hexs(st[k:])]), exp))
    return out
