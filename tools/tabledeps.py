#!/usr/bin/env python3
"""tabledeps.py — which property depends on which section of the generated Tables.v.

Derived mechanically, at the granularity of files:

  section  -> identifiers      gen_tables.SECTIONS
  file     -> identifiers      every coq/*.v, coq/Props/*.v that mentions the identifier as a word
                               (comments stripped; a same-named local definition only over-approximates)
  file     -> files            `From MPD Require Import ...` lines, transitively
  property -> files            proof cone: Props/Cnn.v and the COQ_FILES list of tools/props/cnn.py,
                               each with its transitive imports;
                               executable model: the Driver<X>.v that implements each case kind the
                               check actually fed to the model or the harness in this run (kinds are
                               read off the case lines; kind -> file from the `is_*_kind` definitions),
                               with its transitive imports.  Driver.v itself (the dispatcher, which
                               imports every driver) counts only for the kinds it implements itself,
                               and then without the other drivers.

`sections_for(prop, coq_files, kinds)` is what vlib.finish uses to decide whether a failed section
breaks the property being checked.  Run as a script to print the whole map (kinds per property are
then taken from evidence/*.json of the last runs, field coverage.tables_dependencies.kinds).
"""
import json
import os
import re
import sys

HERE = os.path.dirname(os.path.abspath(__file__))
VERIF = os.path.dirname(HERE)
COQ = os.path.join(VERIF, "coq")

sys.path.insert(0, HERE)
import gen_tables  # noqa: E402


def _strip_coq_comments(text):
    out = []
    depth = 0
    i = 0
    while i < len(text):
        if text.startswith("(*", i):
            depth += 1
            i += 2
        elif text.startswith("*)", i) and depth > 0:
            depth -= 1
            i += 2
        else:
            if depth == 0:
                out.append(text[i])
            i += 1
    return "".join(out)


_cache = {}


def _files():
    if "files" not in _cache:
        fs = {}
        for root, _, names in os.walk(COQ):
            for n in names:
                if n.endswith(".v"):
                    rel = os.path.relpath(os.path.join(root, n), COQ)
                    if rel == "Tables.v":
                        continue
                    fs[rel] = _strip_coq_comments(open(os.path.join(root, n), encoding="utf-8").read())
        _cache["files"] = fs
    return _cache["files"]


def imports():
    """file -> set of files it Requires (MPD-local only)."""
    if "imports" not in _cache:
        fs = _files()
        known = {os.path.splitext(f)[0].replace("/", "."): f for f in fs}
        imp = {}
        for f, text in fs.items():
            deps = set()
            for m in re.finditer(r"(?:From\s+MPD\s+)?Require\s+(?:Import\s+|Export\s+)?([^.]*(?:\.[A-Za-z_][^.]*)*)\.\s", text):
                for name in m.group(1).split():
                    name = name.replace("MPD.", "")
                    if name in known:
                        deps.add(known[name])
            imp[f] = deps
        _cache["imports"] = imp
    return _cache["imports"]


def mentions():
    """file -> set of Tables.v identifiers mentioned."""
    if "mentions" not in _cache:
        ids = [i for s in gen_tables.SECTIONS for i in s.ids]
        rx = re.compile(r"(?<![A-Za-z0-9_'.])(" + "|".join(sorted(map(re.escape, ids), key=len, reverse=True)) + r")(?![A-Za-z0-9_'])")
        _cache["mentions"] = {f: set(rx.findall(t)) for f, t in _files().items()}
    return _cache["mentions"]


def is_driver(f):
    return re.fullmatch(r"Driver\w*\.v", f) is not None


def closure(start, skip_drivers_from_dispatcher=True):
    imp = imports()
    seen = set()
    todo = [f for f in start if f in imp or f == "Tables.v"]
    while todo:
        f = todo.pop()
        if f in seen or f == "Tables.v":
            continue
        seen.add(f)
        for d in imp.get(f, ()):
            if skip_drivers_from_dispatcher and f == "Driver.v" and is_driver(d):
                continue            # the dispatcher imports every driver: a kind it implements itself does not use them
            todo.append(d)
    return seen


def kind_files():
    """case kind -> the Driver file whose is_*_kind definition lists it."""
    if "kinds" not in _cache:
        out = {}
        for f, text in _files().items():
            if not is_driver(f):
                continue
            for m in re.finditer(r"Definition\s+is_\w*kind\b.*?:=(.*?)\.\s*(?=\n\S|\Z)", text, re.S):
                for k in re.findall(r'b\s+"([a-z_0-9]+)"', m.group(1)):
                    out[k] = f
        # kinds that exist only on the implementation side are tied to the model kind they are compared with
        out.setdefault("loop", out.get("loopm", "DriverLoop.v"))
        _cache["kinds"] = out
    return _cache["kinds"]


def sections_of_files(files):
    men = mentions()
    ids = set()
    for f in files:
        ids |= men.get(f, set())
    return {s.name for s in gen_tables.SECTIONS if ids & set(s.ids)}


def cone_files(prop, coq_files, kinds):
    start = [f"Props/{prop}.v"] + [f for f in coq_files if f != "Tables.v"]
    files = closure(start)
    kf = kind_files()
    for k in kinds:
        if k in kf:
            files |= closure([kf[k]])
    return files


def sections_for(prop, coq_files, kinds):
    return sections_of_files(cone_files(prop, coq_files, kinds))


def kinds_of_lines(lines):
    return {l.split(" ", 1)[0] for l in lines if l}


def whole_map():
    import importlib
    sys.path.insert(0, HERE)
    man = json.load(open(os.path.join(VERIF, "MANIFEST.json")))
    out = {}
    for c in man["checks"]:
        p = c["property_id"]
        mod = importlib.import_module(f"props.{p.lower()}")
        kinds = []
        ev = os.path.join(VERIF, "evidence", f"{p}.json")
        if os.path.exists(ev):
            try:
                kinds = json.load(open(ev))["coverage"].get("tables_dependencies", {}).get("kinds", [])
            except (ValueError, KeyError):
                kinds = []
        out[p] = {"kinds": sorted(kinds), "sections": sorted(sections_for(p, mod.COQ_FILES, kinds))}
    return out


if __name__ == "__main__":
    m = whole_map()
    by_section = {}
    for p, d in m.items():
        for s in d["sections"]:
            by_section.setdefault(s, []).append(p)
    if "--json" in sys.argv:
        print(json.dumps({"by_property": m, "by_section": by_section}, indent=1, sort_keys=True))
    else:
        for s in gen_tables.SECTIONS:
            print(f"{s.name:32s} {' '.join(sorted(by_section.get(s.name, []))) or '(no property)'}")
