"""vlib.py — shared machinery of ./check: builds (translator, Coq, extraction, harness), runs the
implementation and the model on case files, compares, applies oracles, decides the verdict and
writes the evidence file.  See DESIGN.md section 1.4."""
import fcntl
import hashlib
import json
import os
import random
import re
import shutil
import subprocess
import sys
import time

VERIF = os.path.dirname(os.path.dirname(os.path.abspath(__file__)))
REPO = os.environ.get("VERIF_REPO", "/repo")
CACHE = os.path.join(VERIF, ".cache")
COQ = os.path.join(VERIF, "coq")
HARNESS = os.path.join(VERIF, "harness")
NPROC = str(os.cpu_count() or 4)
# scratch copies of the repository (VERIF_REPO) get a target directory of their own
TARGET = "target" if os.path.abspath(REPO) == "/repo" else "target_alt"

TRUSTED_BASE = [
    "Coq 8.16.1 kernel and coqc; vm_compute (bytecode VM) for finite table lemmas; no native_compute; thorough tier: coqchk -o re-checks the property's compiled closure (expected: Axioms <none>)",
    "axioms: none declared; Print Assumptions of every property theorem must read 'Closed under the global context' (checked on every run)",
    "the two-stage translator of name tables, charsets, constants, macro index lists and shape pins: tools/gen_tables.py (pattern-directed "
    "reading of the Rust source, section by section) and, cross-checking it or replacing it where a shape is no longer recognised, "
    "tools/probe.py + harness/src/probecases.rs (the same sections derived from the behaviour of the compiled code through its public "
    "API: exhaustive over bytes / chars / enum variants, over every string literal of the source file for name tables); "
    "tools/tabledeps.py (which property depends on which section: textual mention + Require closure + case kinds fed to the model); "
    "tools/tables_fallback.json (last good values, emitted only for a failed section and only so that unrelated properties still build)",
    "extraction: Require Extraction + ExtrOcamlBasic only (its Extract Inductive for bool, option, unit, list, prod, sumbool, sumor; no Extract Constant); N/nat/positive stay inductives; ocaml/main.ml glue (string <-> list N)",
    "correspondence harness /verif/harness (Rust, path deps on /repo) with canonical printers; tools/*.py comparers and case generators",
    "spec-side definitions written from the MPD sources/protocol reference from memory (tokenizer, filter grammar, session rules, tag names, command reference, response grammar)",
    "modelled, not verified: Rust std/core (str::parse, from_utf8, Duration/f64 conversions and formatting, HashMap, Vec), bytes::BytesMut, nom combinator semantics, tokio (channels, select!, timeout, scheduling), chrono",
]


class Ctx:
    def __init__(self, prop, tier, seed):
        self.prop = prop
        self.tier = tier
        self.seed = seed
        self.rng = random.Random(f"{prop}:{seed}")
        self.t0 = time.time()
        self.notes = []
        self.broken = []  # list of (kind, name, detail)
        self.workdir = os.path.join(CACHE, "work", prop)
        os.makedirs(self.workdir, exist_ok=True)
        self.mdl = os.path.join(CACHE, "ocaml", "mdl")
        self.harness_bin = os.path.join(CACHE, TARGET, "debug", "verif_harness")
        self.release_bin = os.path.join(CACHE, TARGET, "release", "verif_harness")
        self.release_ok = False      # set by ./check when the optimised build of the harness exists
        self.sync_bin = os.path.join(CACHE, TARGET + "_sync", "debug", "verif_harness_sync")
        self.sync_ok = False         # set by ./check when the build of mpd_protocol WITHOUT its async feature exists
        self.feature_diffs = []      # (case, output with the feature, output without): the blocking connection depends on a Cargo feature
        self.feature_cases = 0
        self.profile_diffs = []      # (case, debug output, release output): the two builds of the implementation disagree
        self.profile_cases = 0
        self.marker_fails = []       # violations the harness found by its own cross-checks (see marker_failures)
        self.tables_info = None
        self.table_failures = {}    # Tables.v section -> why it could not be obtained (scoped to this property in finish)
        self.coq_files = []         # the property's COQ_FILES (set by ./check)
        self.kinds = set()          # case kinds fed to the implementation / the model in this run
        self.table_deps = None
        self.assumptions_out = ""
        self.obligations = 0
        self.discharged = 0
        self._n = 0

    # ------------------------------------------------------------------ running both sides
    def _run(self, exe, lines, tag, timeout=1800):
        self._n += 1
        path = os.path.join(self.workdir, f"cases_{tag}_{self._n}.txt")
        with open(path, "w") as f:
            for l in lines:
                f.write(l + "\n")
        p = subprocess.run([exe, path], capture_output=True, text=True, timeout=timeout, errors="replace", preexec_fn=_big_stack)
        out = p.stdout.split("\n")
        if out and out[-1] == "":
            out.pop()
        if p.returncode != 0 or len(out) != len([l for l in lines if l]):
            raise RuntimeError(
                f"{tag} runner failed: exit={p.returncode} lines_in={len(lines)} lines_out={len(out)} stderr={p.stderr[-2000:]}"
            )
        return out

    def run_impl(self, lines, harness_bin=None, deterministic=True):
        """Run the cases through the harness (debug build of the implementation).  Deterministic case lists are also run
        through the optimised build (no debug assertions, no overflow checks): code gated on the build profile, or arithmetic
        that only wraps silently there, must not change any answer."""
        self.kinds |= {l.split(" ", 1)[0] for l in lines if l}
        out = self._run(harness_bin or self.harness_bin, lines, "impl")
        if len(self.marker_fails) < 50:
            self.marker_fails += marker_failures([l for l in lines if l], out)[:50]
        if harness_bin is None and deterministic and self.release_ok and os.path.exists(self.release_bin):
            rel = self._run(self.release_bin, lines, "implrel")
            self.profile_cases += len(lines)
            for c, a, b_ in zip([l for l in lines if l], out, rel):
                if a != b_:
                    self.profile_diffs.append((c, a, b_))
        if harness_bin is None and deterministic and self.sync_ok and os.path.exists(self.sync_bin):
            # the blocking flavour once more, from a build of mpd_protocol without its `async` feature
            idx = [i for i, l in enumerate([l for l in lines if l]) if l.split(" ")[0] in ("recv", "conn", "frame", "resp") and
                   (l.split(" ")[0] in ("frame", "resp") or l.split(" ")[1].startswith("b"))]
            if idx:
                ls = [l for l in lines if l]
                sub = [ls[i] for i in idx]
                syn = self._run(self.sync_bin, sub, "implsync")
                self.feature_cases += len(sub)
                for i, b_ in zip(idx, syn):
                    if out[i] != b_:
                        self.feature_diffs.append((ls[i], out[i], b_))
        return out

    def run_model(self, lines):
        self.kinds |= {l.split(" ", 1)[0] for l in lines if l}
        if not os.path.exists(self.mdl):
            raise RuntimeError("model binary unavailable (extraction or OCaml build failed)")
        return self._run_sharded(self.mdl, lines, "model")

    def _run_sharded(self, exe, lines, tag, shards=None):
        """Run the (single-threaded) model on round-robin shards in parallel, keep case order."""
        from concurrent.futures import ThreadPoolExecutor
        n = shards or int(NPROC)
        if len(lines) < 4 * n:
            return self._run(exe, lines, tag)
        parts = [lines[i::n] for i in range(n)]
        self._n += 1
        base = self._n
        self._n += n

        def one(k):
            path = os.path.join(self.workdir, f"cases_{tag}_{base}_{k}.txt")
            with open(path, "w") as f:
                for l in parts[k]:
                    f.write(l + "\n")
            p = subprocess.run([exe, path], capture_output=True, text=True, timeout=3000, errors="replace", preexec_fn=_big_stack)
            out = p.stdout.split("\n")
            if out and out[-1] == "":
                out.pop()
            if p.returncode != 0 or len(out) != len(parts[k]):
                raise RuntimeError(f"{tag} runner failed on shard {k}: exit={p.returncode} in={len(parts[k])} out={len(out)} stderr={p.stderr[-1000:]}")
            return out
        with ThreadPoolExecutor(max_workers=n) as ex:
            outs = list(ex.map(one, range(n)))
        res = [None] * len(lines)
        for k in range(n):
            res[k::n] = outs[k]
        return res


def _big_stack():
    """The extracted model recurses on lists (no tail calls): give it all the stack the system allows."""
    import resource
    try:
        soft, hard = resource.getrlimit(resource.RLIMIT_STACK)
        resource.setrlimit(resource.RLIMIT_STACK, (hard, hard))
    except Exception:
        pass


def hexs(b):
    if isinstance(b, str):
        b = b.encode()
    return b.hex() if b else "-"


def unhexs(s):
    return b"" if s == "-" else bytes.fromhex(s)


def sh(cmd, cwd=None, timeout=3600, env=None):
    e = dict(os.environ)
    if env:
        e.update(env)
    p = subprocess.run(cmd, cwd=cwd, capture_output=True, text=True, timeout=timeout, env=e, errors="replace")
    return p.returncode, p.stdout + p.stderr


class Lock:
    def __enter__(self):
        os.makedirs(CACHE, exist_ok=True)
        self.f = open(os.path.join(CACHE, "lock"), "w")
        fcntl.flock(self.f, fcntl.LOCK_EX)
        return self

    def __exit__(self, *a):
        fcntl.flock(self.f, fcntl.LOCK_UN)
        self.f.close()


# ---------------------------------------------------------------------- build steps

def step_tables(ctx, harness_ok=True):
    """Regenerate coq/Tables.v: static reading of the source, cross-checked / completed by the probe of the compiled
    implementation (needs the harness built against the same sources: call after step_harness).  Sections that could not
    be obtained are recorded in ctx.table_failures; finish() turns them into a broken tie only for the properties that
    depend on them."""
    probe_path = None
    probe_note = "not run (harness not built)"
    if harness_ok and os.path.exists(ctx.harness_bin):
        try:
            import probe
            probe_path, pd, cached = probe.ensure(REPO, ctx.harness_bin, os.path.join(CACHE, "probe"))
            probe_note = dict(pd.get("meta", {}), cached=cached)
        except Exception as e:      # the probe is an addition: without it the static reading stands alone
            probe_path = None
            probe_note = f"failed: {type(e).__name__}: {e}"
    cmd = [sys.executable, os.path.join(VERIF, "tools", "gen_tables.py"), REPO, os.path.join(COQ, "Tables.v")]
    if probe_path:
        cmd += ["--probe", probe_path]
    rc, out = sh(cmd)
    if rc != 0:
        # nothing could be written at all (no fallback values either): every property is affected
        ctx.broken.append(("translator", "gen_tables.py", out.strip()))
        return False
    try:
        ctx.tables_info = json.loads(out.strip().split("\n")[-1])
    except Exception:
        ctx.tables_info = {"raw": out}
        return True
    ctx.tables_info["probe"] = probe_note
    ctx.table_failures = dict(ctx.tables_info.get("failed", {}))
    return not ctx.table_failures


def scope_table_failures(ctx):
    """A section of Tables.v that could not be obtained (or whose two readings disagree) breaks the tie of exactly the
    properties whose proof cone or executable model mentions one of its identifiers (tools/tabledeps.py)."""
    if ctx.table_deps is not None:
        return
    try:
        import tabledeps
        secs = tabledeps.sections_for(ctx.prop, ctx.coq_files, ctx.kinds)
    except Exception as e:          # cannot scope: be conservative
        secs = None
        ctx.notes.append(f"dependency scoping of Tables.v sections failed ({type(e).__name__}: {e}); every failed section counts")
    ctx.table_deps = {"kinds": sorted(ctx.kinds), "sections": sorted(secs) if secs is not None else "all"}
    # tripwires (shape readings of renderers without a finite complete universe) never break a tie by themselves:
    # no Coq identifier stands for them; the properties whose correspondence + oracle decide the behaviour say so
    tripped = (ctx.tables_info or {}).get("tripped", {}) if isinstance(ctx.tables_info, dict) else {}
    mine = sorted(n for n, t in tripped.items() if ctx.prop in t.get("decided_by", []))
    ctx.table_deps["tripwires_tripped"] = mine
    for n in mine:
        ctx.notes.append(f"tripwire tripped: {n} ({tripped[n].get('why', '')[:200]}): decided by the correspondence run")
    for name, reason in sorted(ctx.table_failures.items()):
        if secs is None or name in secs:
            ctx.broken.append(("translator", f"Tables.v section {name}", reason))
        else:
            ctx.notes.append(f"Tables.v section {name} could not be tied to the repository ({reason[:300]}); "
                             f"{ctx.prop} does not depend on it")


def ensure_makefile():
    mk = os.path.join(COQ, "Makefile")
    cp = os.path.join(COQ, "_CoqProject")
    if not os.path.exists(mk) or os.path.getmtime(mk) < os.path.getmtime(cp):
        rc, out = sh(["coq_makefile", "-f", "_CoqProject", "-o", "Makefile"], cwd=COQ)
        if rc != 0:
            raise RuntimeError("coq_makefile failed: " + out)


def coq_make(target, timeout=2400):
    ensure_makefile()
    return sh(["timeout", str(timeout), "make", "-j" + NPROC, target], cwd=COQ, timeout=timeout + 60)


HYGIENE_RE = re.compile(
    r"\b(Admitted|admit|Axiom|Axioms|Parameter|Parameters|Conjecture|Conjectures|Hypothesis|Hypotheses|Variable|Variables|Unset Guard Checking|bypass_check|Unset Positivity Checking|Unset Universe Checking|type-in-type|impredicative-set|Admit Obligations|native_compute)\b"
)


def strip_coq_comments(text):
    out = []
    depth = 0
    i = 0
    while i < len(text):
        if text.startswith("(*", i):
            depth += 1
            i += 2
        elif text.startswith("*)", i) and depth > 0:
            depth -= 1
            i += 2
        else:
            if depth == 0:
                out.append(text[i])
            elif text[i] == "\n":
                out.append("\n")
            i += 1
    return "".join(out)


def hygiene():
    """No Admitted/admit/Axiom/Parameter/...; Variable/Hypothesis only inside a Section."""
    problems = []
    files = []
    for root, _, fs in os.walk(COQ):
        for f in fs:
            if f.endswith(".v"):
                files.append(os.path.join(root, f))
    with open(os.path.join(COQ, "_CoqProject")) as f:
        if re.search(r"type-in-type|impredicative-set|-vos|-vok", f.read()):
            problems.append("_CoqProject passes a forbidden flag")
    for path in sorted(files):
        text = strip_coq_comments(open(path, encoding="utf-8").read())
        depth = 0
        for ln, line in enumerate(text.split("\n"), 1):
            if re.match(r"\s*Section\s+\w+", line):
                depth += 1
            if re.match(r"\s*End\s+\w+", line) and depth > 0:
                depth -= 1
            for m in HYGIENE_RE.finditer(line):
                w = m.group(1)
                if w in ("Variable", "Variables", "Hypothesis", "Hypotheses") and depth > 0:
                    continue
                problems.append(f"{os.path.relpath(path, VERIF)}:{ln}: {w}")
    return problems


def count_obligations(files):
    n = 0
    names = []
    for f in files:
        p = os.path.join(COQ, f)
        if not os.path.exists(p):
            continue
        text = strip_coq_comments(open(p, encoding="utf-8").read())
        for m in re.finditer(r"^\s*(?:Local\s+|Global\s+)?(Lemma|Theorem|Corollary|Example|Fact|Remark|Proposition)\s+(\w+)", text, re.M):
            n += 1
            names.append(m.group(2))
    return n, names


def step_coq(ctx, prop_file, cone_files):
    """Build the property file (full .vo), re-run it to capture Print Assumptions, hygiene gate."""
    ok = True
    rc, out = coq_make(prop_file.replace(".v", ".vo"))
    ctx.coq_log = out[-6000:]
    total, names = count_obligations(cone_files + [prop_file])
    ctx.obligations = total
    if rc != 0:
        m = re.search(r'File "\./([^"]+)", line (\d+)', out)
        where = f"{m.group(1)}:{m.group(2)}" if m else "?"
        lemma = None
        if m:
            try:
                src = open(os.path.join(COQ, m.group(1)), encoding="utf-8").read().split("\n")
                for i in range(int(m.group(2)) - 1, -1, -1):
                    mm = re.match(r"\s*(?:Lemma|Theorem|Corollary|Example|Fact|Definition|Fixpoint)\s+(\w+)", src[i])
                    if mm:
                        lemma = mm.group(1)
                        break
            except Exception:
                pass
        ctx.broken.append(("proof", f"{lemma or '?'} ({where})", out[-1500:]))
        ctx.discharged = 0
        ok = False
    else:
        # fresh compile of the statements file alone, to read the Print Assumptions output
        tmpdir = os.path.join(CACHE, "tmp")
        os.makedirs(tmpdir, exist_ok=True)
        rc2, out2 = sh(["timeout", "600", "coqc", "-Q", ".", "MPD", prop_file, "-o", os.path.join(tmpdir, os.path.basename(prop_file) + "o")], cwd=COQ)
        ctx.assumptions_out = out2
        if rc2 != 0:
            ctx.broken.append(("proof", f"{prop_file} (recheck)", out2[-1500:]))
            ok = False
        else:
            bad = [l for l in out2.split("\n") if l.strip() and not l.startswith("Closed under the global context")]
            n_pa = out2.count("Closed under the global context")
            stmts = strip_coq_comments(open(os.path.join(COQ, prop_file), encoding="utf-8").read())
            n_print = len(re.findall(r"^\s*Print Assumptions", stmts, re.M))
            if bad or n_pa != n_print:
                ctx.broken.append(("assumptions", prop_file, "unexpected Print Assumptions output: " + "\n".join(bad)[:1500]))
                ok = False
            ctx.print_assumptions = n_pa
            ctx.discharged = total if ok else 0
    if ok and ctx.tier == "thorough":
        # independent re-check of the compiled property file and everything it depends on
        mod = "MPD." + prop_file.replace(".v", "").replace("/", ".")
        rc3, out3 = sh(["timeout", "1800", "coqchk", "-silent", "-o", "-Q", ".", "MPD", mod], cwd=COQ, timeout=1900)
        summary = out3[out3.find("CONTEXT SUMMARY"):] if "CONTEXT SUMMARY" in out3 else out3[-1500:]
        ctx.coqchk = " ".join(summary.split())[:1200]
        clean = all(f"* {k}: <none>" in summary for k in ("Axioms", "Constants/Inductives relying on type-in-type",
                                                           "Constants/Inductives relying on unsafe (co)fixpoints",
                                                           "Inductives whose positivity is assumed"))
        if rc3 != 0 or not clean:
            ctx.broken.append(("coqchk", mod, summary[-1500:]))
            ok = False
    hp = hygiene()
    if hp:
        ctx.broken.append(("hygiene", "forbidden vernacular", "; ".join(hp[:20])))
        ctx.discharged = 0
        ok = False
    return ok


def step_model(ctx):
    """Compile the executable model (no proofs needed), extract, build the OCaml driver."""
    rc, out = coq_make("Driver.vo")
    if rc != 0:
        ctx.broken.append(("model", "Driver.vo", out[-1500:]))
        return False
    od = os.path.join(CACHE, "ocaml")
    os.makedirs(od, exist_ok=True)
    deps = [os.path.join(COQ, "Driver.vo"), os.path.join(COQ, "Extract.v"), os.path.join(VERIF, "ocaml", "main.ml")]
    stamp = os.path.join(od, "stamp")
    h = hashlib.sha256()
    for d in deps:
        h.update(open(d, "rb").read())
    digest = h.hexdigest()
    if os.path.exists(stamp) and open(stamp).read() == digest and os.path.exists(os.path.join(od, "mdl")):
        return True
    rc, out = sh(["timeout", "900", "coqc", "-Q", COQ, "MPD", os.path.join(COQ, "Extract.v")], cwd=od)
    if rc != 0:
        ctx.broken.append(("model", "extraction", out[-1500:]))
        return False
    shutil.copy(os.path.join(VERIF, "ocaml", "main.ml"), os.path.join(od, "main.ml"))
    rc, out = sh(["timeout", "900", "ocamlfind", "ocamlopt", "-O2", "-w", "-a", "mdl.mli", "mdl.ml", "main.ml", "-o", "mdl"], cwd=od)
    if rc != 0:
        ctx.broken.append(("model", "ocamlopt", out[-1500:]))
        return False
    open(stamp, "w").write(digest)
    return True


def harness_dir():
    """The harness crate names /repo in its path dependencies; when VERIF_REPO points elsewhere
    (scratch copies used to try seeded changes) build from a staged copy with the paths rewritten."""
    if os.path.abspath(REPO) == "/repo":
        return HARNESS
    stage = os.path.join(CACHE, "harness_stage")
    os.makedirs(os.path.join(stage, "src"), exist_ok=True)
    for f in os.listdir(os.path.join(HARNESS, "src")):
        src = os.path.join(HARNESS, "src", f)
        dst = os.path.join(stage, "src", f)
        data = open(src, "rb").read()
        if not os.path.exists(dst) or open(dst, "rb").read() != data:
            open(dst, "wb").write(data)
    toml = open(os.path.join(HARNESS, "Cargo.toml")).read().replace('"/repo/', '"' + os.path.abspath(REPO) + "/")
    dst = os.path.join(stage, "Cargo.toml")
    if not os.path.exists(dst) or open(dst).read() != toml:
        open(dst, "w").write(toml)
    return stage


def step_harness_sync(ctx):
    """The blocking-flavour harness built against mpd_protocol WITHOUT its `async` feature (harness_sync/).  A failure to build it is
    a note, not a broken tie: the default configuration is the one the properties are claimed for."""
    src = os.path.join(VERIF, "harness_sync")
    if not os.path.isdir(src):
        return False
    stage = src
    if os.path.abspath(REPO) != "/repo":
        stage = os.path.join(CACHE, "harness_sync_stage")
        os.makedirs(os.path.join(stage, "src"), exist_ok=True)
        main = open(os.path.join(src, "src", "main.rs")).read().replace('"../../harness/src/', '"' + os.path.join(VERIF, "harness", "src") + "/")
        for name, data in (("src/main.rs", main), ("Cargo.toml", open(os.path.join(src, "Cargo.toml")).read().replace('"/repo/', '"' + os.path.abspath(REPO) + "/"))):
            dst = os.path.join(stage, name)
            if not os.path.exists(dst) or open(dst).read() != data:
                open(dst, "w").write(data)
    shutil.copy(os.path.join(REPO, "Cargo.lock"), os.path.join(stage, "Cargo.lock"))
    env = scratch_env({"CARGO_NET_OFFLINE": "true", "CARGO_TARGET_DIR": os.path.join(CACHE, TARGET + "_sync")}, TARGET + "_sync")
    rc, out = sh(["cargo", "build", "--offline", "--quiet"], cwd=stage, timeout=3000, env=env)
    if rc != 0:
        ctx.notes.append("the blocking-only harness (mpd_protocol without the async feature) did not build: " + out[-300:].replace("\n", " "))
        return False
    return True


def scratch_env(env, target):
    """Builds against a scratch copy of the repository (VERIF_REPO): every copy has a path of its own, so cargo keeps one set of
    artefacts of the two crates and of the harness per copy.  No incremental state for them, and what earlier copies left is removed
    (the caller holds the lock for the whole run)."""
    if os.path.abspath(REPO) == "/repo":
        return env
    env = dict(env)
    env["CARGO_INCREMENTAL"] = "0"
    import glob, time
    now = time.time()
    root = os.path.join(CACHE, target)
    for prof in ("debug", "release"):
        shutil.rmtree(os.path.join(root, prof, "incremental"), ignore_errors=True)
        for pat in ("deps/*mpd_client-*", "deps/*mpd_protocol-*", "deps/verif_harness*", ".fingerprint/mpd_client-*", ".fingerprint/mpd_protocol-*", ".fingerprint/verif_harness*"):
            for f in glob.glob(os.path.join(root, prof, pat)):
                try:
                    if now - os.path.getmtime(f) > 1800:
                        shutil.rmtree(f) if os.path.isdir(f) else os.remove(f)
                except OSError:
                    pass
    return env


def step_harness(ctx, features=None, target=None, release=False):
    target = target or TARGET
    HARNESS = harness_dir()
    shutil.copy(os.path.join(REPO, "Cargo.lock"), os.path.join(HARNESS, "Cargo.lock"))
    cmd = ["cargo", "build", "--offline", "--quiet"]
    if release:
        cmd.append("--release")
    if features is not None:
        cmd += ["--no-default-features", "--features", features] if features else ["--no-default-features"]
    env = scratch_env({"CARGO_NET_OFFLINE": "true", "CARGO_TARGET_DIR": os.path.join(CACHE, target)}, target)
    rc, out = sh(cmd, cwd=HARNESS, timeout=3000, env=env)
    if rc != 0:
        ctx.broken.append(("harness", "cargo build", out[-3000:]))
        return False
    return True


# ---------------------------------------------------------------------- known findings

def load_known():
    p = os.path.join(VERIF, "known_findings.json")
    if not os.path.exists(p):
        return []
    return json.load(open(p))["findings"]


# ---------------------------------------------------------------------- verdict

class Failure:
    def __init__(self, case, message, klass=None, extra=None):
        self.case = case
        self.message = message
        self.klass = klass
        self.extra = extra or {}


def marker_failures(cases, impl):
    """The harness cross-checks some things itself and reports them inside the answer (possibly hex-encoded with it):
    WIRE-DIFFERS (what reaches the wire depends on the connection flavour or on how many bytes the transport takes per write),
    INCONSISTENT (two constructors that must agree do not).  Each is a violation with the case as the failing input."""
    import re as _re
    out = []
    for c, o in zip(cases, impl):
        if o.startswith("PANIC-UNCAUGHT"):
            try:
                msg = bytes.fromhex(o.split(" ")[1]).decode(errors="replace")
            except Exception:
                msg = o[:300]
            out.append(Failure(c, "the implementation panicked on this input: " + msg[:600]))
            continue
        for m in ("WIRE-DIFFERS", "INCONSISTENT"):
            hm = m.encode().hex()
            if m in o:
                out.append(Failure(c, f"harness cross-check {o[o.index(m):][:900]}"))
                break
            if hm in o:
                run = _re.search(hm + "[0-9a-f]*", o).group(0)
                out.append(Failure(c, "harness cross-check " + bytes.fromhex(run[:len(run) // 2 * 2]).decode(errors="replace")[:900]))
                break
    return out


def write_replay(ctx, name, payload):
    # runs against a scratch copy of the repository (VERIF_REPO) never touch the committed evidence/replays
    d = os.path.join(VERIF, "replays") if TARGET == "target" else os.path.join(CACHE, "alt_replays")
    os.makedirs(d, exist_ok=True)
    path = os.path.join(d, f"{ctx.prop}_{name}.json")
    with open(path, "w") as f:
        json.dump(payload, f, indent=1)
    return path


def finish(ctx, *, evaluations, distinct_nontrivial, rule, samples, distribution, oracle_failures,
           disagreements, extra_cov=None, exhaustive=False):
    """Decide the verdict, print VIOLATION / KNOWN-FINDING lines, write evidence, return exit code."""
    scope_table_failures(ctx)
    oracle_failures = list(oracle_failures)
    seen_cases = {f.case for f in oracle_failures}
    oracle_failures += [f for f in ctx.marker_fails if f.case not in seen_cases]
    for c, a, b_ in ctx.profile_diffs[:20]:
        oracle_failures.append(Failure(c, "the optimised (release) build of the implementation answers differently from the debug build on this "
                                          f"input, so one of them breaks the property:\n  debug  : {a[:700]}\n  release: {b_[:700]}", extra={"profile": "release"}))
    for c, a, b_ in ctx.feature_diffs[:20]:
        oracle_failures.append(Failure(c, "the blocking connection answers differently when mpd_protocol is built without its `async` feature, so one "
                                          f"of the two builds breaks the property:\n  with the feature   : {a[:700]}\n  without the feature: {b_[:700]}", extra={"feature": "async off"}))
    if ctx.profile_cases:
        distribution = dict(distribution)
        distribution["also_run_on_release_build"] = ctx.profile_cases
    if ctx.feature_cases:
        distribution = dict(distribution)
        distribution["also_run_without_the_async_feature"] = ctx.feature_cases
    known = [k for k in load_known() if k["property"] == ctx.prop and k["status"] == "known"]
    known_classes = {k["class"]: k for k in known}
    new_fail = [f for f in oracle_failures if f.klass not in known_classes]
    seen_known = {}
    for f in oracle_failures:
        if f.klass in known_classes:
            seen_known.setdefault(f.klass, []).append(f)
    exit_code = 0
    violations = 0
    lines = []
    if new_fail:
        f0 = new_fail[0]
        path = write_replay(ctx, "oracle", {
            "property": ctx.prop, "kind": "oracle-failure", "message": f0.message,
            "cases": [f0.case], "extra": f0.extra,
            "other_failures": [{"case": f.case, "message": f.message} for f in new_fail[1:20]],
            "broken": [list(b) for b in ctx.broken],
        })
        lines.append(f"VIOLATION property={ctx.prop} replay={path}")
        violations = len(new_fail)
        exit_code = 1
    elif ctx.broken or disagreements:
        what = []
        for kind, name, detail in ctx.broken:
            what.append({"kind": kind, "name": name, "detail": detail})
        path = write_replay(ctx, "tie", {
            "property": ctx.prop, "kind": "broken-proof-or-correspondence",
            "no_longer_checks": what,
            "correspondence_disagreements": disagreements[:20],
            "cases": [d["case"] for d in disagreements[:20]],
            "note": "no input on which the property fails was found by the directed search; the property is no longer shown to hold",
        })
        lines.append(f"VIOLATION property={ctx.prop} replay={path} no-failing-input-found")
        violations = 1
        exit_code = 1
    for klass, k in known_classes.items():
        fs = seen_known.get(klass, [])
        if fs:
            lines.append(f"KNOWN-FINDING: property={ctx.prop} {k['what']} (class {klass}; {len(fs)} case(s) this run, e.g. {fs[0].case[:120]})")
        else:
            lines.append(f"KNOWN-FINDING: property={ctx.prop} {k['what']} (class {klass}; STALE: no case of this class failed in this run)")
    for l in lines:
        print(l)
    cov = {
        "obligations": ctx.obligations,
        "discharged": ctx.discharged,
        "checker_cmd": f"make -C coq Props/{ctx.prop}.vo (coqc 8.16.1, full .vo build) + coqc Props/{ctx.prop}.v for Print Assumptions",
        "trusted_base": TRUSTED_BASE,
        "evaluations": evaluations,
        "distinct_nontrivial": distinct_nontrivial,
        "rule": rule,
        "samples": samples[:8],
        "exhaustive": exhaustive,
        "generator_distribution": distribution,
        "print_assumptions_closed": getattr(ctx, "print_assumptions", 0),
        "coqchk": getattr(ctx, "coqchk", "not run in the quick tier (thorough: coqchk -o on the property's .vo closure)"),
        "tables_translator": ctx.tables_info,
        "tables_dependencies": ctx.table_deps,
        "correspondence_disagreements": len(disagreements),
        "oracle_failures_known_class": sum(len(v) for v in seen_known.values()),
        "oracle_failures_new": len(new_fail),
        "broken": [{"kind": k, "name": n} for k, n, _ in ctx.broken],
    }
    if extra_cov:
        cov.update(extra_cov)
    ev = {
        "property_id": ctx.prop,
        "tier": ctx.tier,
        "seed": ctx.seed,
        "level": "proof",
        "coverage": cov,
        "assumptions": ctx.notes + [
            "the theorem is about the Coq model; the model is tied to /repo by the regenerated Tables.v and by the correspondence run counted in 'evaluations'",
        ],
        "wall_s": round(time.time() - ctx.t0, 2),
        "violations": violations,
    }
    evdir = os.path.join(VERIF, "evidence") if TARGET == "target" else os.path.join(CACHE, "alt_evidence")
    os.makedirs(evdir, exist_ok=True)
    with open(os.path.join(evdir, f"{ctx.prop}.json"), "w") as f:
        json.dump(ev, f, indent=1)
    status = "OK" if exit_code == 0 else "FAIL"
    print(f"[{ctx.prop}] {status}: obligations {ctx.discharged}/{ctx.obligations}, {evaluations} cases "
          f"({distinct_nontrivial} distinct non-trivial), {len(disagreements)} correspondence disagreements, "
          f"{len(new_fail)} new / {sum(len(v) for v in seen_known.values())} known-class oracle failures, "
          f"{ev['wall_s']} s")
    return exit_code


def compare(cases, impl, model):
    dis = []
    for c, a, m in zip(cases, impl, model):
        if a != m:
            dis.append({"case": c, "impl": a[:4000], "model": m[:4000]})
    return dis
