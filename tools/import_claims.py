#!/usr/bin/env python3
"""import_claims.py <branch> <Cnn>...: copy CLAIMED entries of a branch's tools/gen_manifest.py (old dict style) into tools/claims/."""
import json, os, subprocess, sys, types
V = os.path.dirname(os.path.dirname(os.path.abspath(__file__)))
src = subprocess.run(["git", "show", f"{sys.argv[1]}:tools/gen_manifest.py"], capture_output=True, text=True, cwd=V).stdout
m = types.ModuleType("gm"); m.__file__ = os.path.join(V, "tools", "gen_manifest.py")
exec(compile(src, "gm", "exec"), m.__dict__)
for pid in sys.argv[2:]:
    c = m.CLAIMED[pid]
    d = {"text": c["text"], "design_ref": c["design_ref"], "technique": c["technique"]}
    if "note" in c:
        n = c["note"]
        d["note"] = n[:-len(m.NOTE)].rstrip() if n.endswith(m.NOTE) else n
        d["note_appends_trusted_base"] = n.endswith(m.NOTE)
    json.dump(d, open(os.path.join(V, "tools", "claims", pid + ".json"), "w"), indent=1)
    print("imported", pid)
