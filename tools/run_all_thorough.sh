#!/bin/bash
# run every registered thorough check once; one summary line per property (used with `vp run`)
cd "$(dirname "$0")/.."
./check --setup | tail -1
for p in $(python3 -c "import json; print(' '.join(c['property_id'] for c in json.load(open('MANIFEST.json'))['checks']))"); do
  s=$(date +%s); out=$(./check $p --tier thorough 2>&1); rc=$?; e=$(date +%s)
  echo "$p rc=$rc $((e-s))s :: $(echo "$out" | grep -c '^VIOLATION') violations :: $(echo "$out" | tail -1 | cut -c1-200)"
done
