#!/bin/bash
# coqgoal.sh <file.v> <line>: run coqtop on the first <line> lines and show the proof state there
f=$1; n=$2
( head -n $n "$f"; echo "Show."; ) | timeout 300 coqtop -Q /verif/coq MPD -quiet 2>&1 | tail -n ${3:-60}
