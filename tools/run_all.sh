#!/bin/bash
# run every registered quick check once on /repo (or on $VERIF_REPO); prints one summary line per property
cd "$(dirname "$(readlink -f "$0")")/.."
for p in $(python3 -c "import json; print(' '.join(c['property_id'] for c in json.load(open('MANIFEST.json'))['checks']))"); do
  s=$(date +%s); out=$(./check $p 2>&1); rc=$?; e=$(date +%s)
  echo "$p rc=$rc $((e-s))s $(echo "$out" | grep -c '^VIOLATION') violations :: $(echo "$out" | tail -1 | cut -c1-160)"
done
