#!/usr/bin/env python3
"""probe.py — second stage of the table translator: the sections of coq/Tables.v derived from the
BEHAVIOUR of the compiled implementation, observed through its public API by the correspondence
harness (ordinary case kinds plus `probe <what>` of harness/src/probecases.rs).

Every section is reported in the value format of tools/gen_tables.py under the same name:
    {"value": v}                                   obtained
    {"error": msg, "kind": "inconsistent"}         the behaviour contradicts the form the section has in the
                                                   model (e.g. a character class that depends on position,
                                                   a table that is not case-insensitive): broken tie
    {"error": msg, "kind": "unavailable"}          could not be probed (harness refused, nothing found)

Domains: the 256 bytes, every `char`, every enum variant the harness enumerates, every pair of a finite
universe are swept completely.  Name tables live on an infinite domain (strings); there the probe
sweeps a candidate list that always contains EVERY STRING LITERAL of the source file the table lives in
(a row added or renamed in whatever syntactic form is a literal there), the names recorded in
tools/tables_fallback.json, the names the implementation itself reports, and a generous list of MPD
vocabulary.

Usage: probe.py <repo> <harness_bin> <out.json>     (vlib.step_tables calls ensure(), which caches the
result under .cache/probe/<hash of the repo's src trees, the harness sources and this file>.json)
"""
import hashlib
import itertools
import json
import os
import re
import subprocess
import sys
import time

HERE = os.path.dirname(os.path.abspath(__file__))
VERIF = os.path.dirname(HERE)
sys.path.insert(0, HERE)
import gen_tables as G  # noqa: E402


class Inconsistent(Exception):
    pass


class Unavailable(Exception):
    pass


def hexs(b):
    if isinstance(b, str):
        b = b.encode()
    return b.hex() if b else "-"


def unhexs(s):
    return b"" if s == "-" else bytes.fromhex(s)


GREETING = b"OK MPD 0.23.5\n"

MPD_TAG_NAMES = ["Artist", "ArtistSort", "Album", "AlbumSort", "AlbumArtist", "AlbumArtistSort", "Title", "TitleSort", "Track", "Name",
                 "Genre", "Mood", "Date", "OriginalDate", "Composer", "ComposerSort", "Performer", "Conductor", "Work", "Ensemble",
                 "Movement", "MovementNumber", "ShowMovement", "Location", "Grouping", "Comment", "Disc", "Label",
                 "MUSICBRAINZ_ARTISTID", "MUSICBRAINZ_ALBUMID", "MUSICBRAINZ_ALBUMARTISTID", "MUSICBRAINZ_TRACKID",
                 "MUSICBRAINZ_RELEASETRACKID", "MUSICBRAINZ_WORKID", "MUSICBRAINZ_RELEASEGROUPID", "any", "file", "base",
                 "AlbumTitle", "TrackNumber", "DiscNumber", "Year", "Band", "Lyricist", "Publisher"]
MPD_SUBSYSTEMS = ["database", "update", "stored_playlist", "playlist", "player", "mixer", "output", "options", "partition",
                  "sticker", "subscription", "message", "neighbor", "mount", "queue", "storedplaylist", "stored-playlist",
                  "outputs", "option", "stickers", "messages", "neighbour", "mounts", "volume", "song"]
SPELLING_CANDIDATES = ["0", "1", "2", "-1", "true", "false", "True", "False", "TRUE", "yes", "no", "on", "off", "On", "OFF", "play", "pause",
                       "stop", "playing", "paused", "stopped", "Play", "PLAY", "Pause", "Stop", "oneshot", "Oneshot", "one-shot",
                       "once", "single", "enabled", "disabled", "track", "album", "auto", "Track", "Album", "Auto", "Off", "none", ""]
SONG_KEY_CANDIDATES = ["file", "directory", "playlist", "Last-Modified", "duration", "Time", "Range", "Format", "Prio", "Pos", "Id",
                       "Title", "Artist", "Album", "Track", "Date", "Genre", "Name", "added", "Added", "song", "File", "Directory",
                       "Playlist", "last-modified", "size", "binary", "changed", "volume"]
STATUS_VALID = {"volume": "50", "repeat": "0", "random": "0", "single": "0", "consume": "0", "partition": "default", "playlist": "7",
                "playlistlength": "3", "state": "play", "xfade": "0", "song": "1", "songid": "2", "elapsed": "1.500", "bitrate": "192",
                "duration": "200.000", "updating_db": "4", "error": "e", "nextsong": "2", "nextsongid": "3"}
STATUS_MINIMAL = ["state", "repeat", "random", "consume"]
STATUS_KEY_CANDIDATES = list(STATUS_VALID) + ["Time", "time", "audio", "mixrampdb", "mixrampdelay", "lastloadedplaylist", "Volume", "State"]


# ---------------------------------------------------------------------- source literals

def literals(repo, rel):
    """Every string literal (also b"...") of a source file, decoded, in source order, unique."""
    try:
        with open(os.path.join(repo, rel), encoding="utf-8") as f:
            src = G.strip_comments(f.read())
    except OSError:
        return []
    out = []
    for m in re.finditer(r'"((?:\\.|[^"\\])*)"', src):
        try:
            b = G.rust_str(m.group(1))
        except (G.TranslatorError, ValueError, IndexError):
            continue
        if len(b) <= 64 and b not in out:
            out.append(b)
    return out


def is_utf8(b):
    try:
        b.decode("utf-8")
        return True
    except UnicodeDecodeError:
        return False


# ---------------------------------------------------------------------- harness runner

class Runner:
    def __init__(self, harness_bin, workdir):
        self.bin = harness_bin
        self.workdir = workdir
        self.lines = []
        self.out = None
        self.rounds = 0
        self.total = 0

    def ask(self, line):
        self.lines.append(line)
        return len(self.lines) - 1

    def run(self):
        self.rounds += 1
        path = os.path.join(self.workdir, f"probe_cases_{self.rounds}.txt")
        with open(path, "w") as f:
            for l in self.lines:
                f.write(l + "\n")
        p = subprocess.run([self.bin, path], capture_output=True, text=True, timeout=600, errors="replace")
        out = p.stdout.split("\n")
        if out and out[-1] == "":
            out.pop()
        if p.returncode != 0 or len(out) != len(self.lines):
            raise Unavailable(f"probe harness failed: exit={p.returncode} in={len(self.lines)} out={len(out)} stderr={p.stderr[-500:]}")
        self.total += len(self.lines)
        res, self.lines = out, []
        return res


def kv(line):
    d = {}
    for tok in line.split(" "):
        if "=" in tok:
            k, v = tok.split("=", 1)
            d[k] = v
    return d


def mixed(s):
    return "".join(c.upper() if i % 2 else c.lower() for i, c in enumerate(s))


def bits_to_accept(bits, what, na=None):
    if "x" in bits:
        i = bits.index("x")
        raise Inconsistent(f"{what}: the class depends on the position of the character (byte {i})")
    if na is not None and na != "0/-":
        raise Inconsistent(f"{what}: non-ASCII characters are in the class ({na}); not a byte class")
    if not re.fullmatch(r"[01]+", bits):
        raise Unavailable(f"{what}: unreadable probe output {bits[:40]!r}")
    return [i for i, b in enumerate(bits) if b == "1"]


def arg_unescape(tok):
    """What MPD's tokenizer makes of one rendered argument (quoted: backslash escapes the next byte)."""
    if len(tok) >= 2 and tok[:1] == b'"' and tok[-1:] == b'"':
        out = bytearray()
        i = 1
        while i < len(tok) - 1:
            if tok[i] == 92 and i + 1 < len(tok) - 1:
                i += 1
            out.append(tok[i])
            i += 1
        return bytes(out)
    return tok


def first_word(line):
    m = re.match(rb"[^ \n]*", line)
    return m.group(0)


# ---------------------------------------------------------------------- the probe

def probe_all(repo, harness_bin, workdir, reference):
    os.makedirs(workdir, exist_ok=True)
    t0 = time.time()
    R = Runner(harness_bin, workdir)
    res = {}

    def ref(name):
        r = reference.get(name)
        return r["value"] if r else None

    def attempt(name, fn):
        try:
            v = fn()
            if isinstance(v, dict) and "__multi__" in v:
                for k, x in v["__multi__"].items():
                    res[k] = x
            else:
                res[name] = {"value": v}
        except Inconsistent as e:
            res[name] = {"error": str(e), "kind": "inconsistent"}
        except Unavailable as e:
            res[name] = {"error": str(e), "kind": "unavailable"}
        except (KeyError, IndexError, ValueError) as e:
            res[name] = {"error": f"probe output not understood ({type(e).__name__}: {e})", "kind": "unavailable"}

    # ================================================================ round 1: questions
    q = {}
    q["tag_list"] = R.ask("tag_list")
    q["sub_list"] = R.ask("sub_list")
    for w in ("cmd_charset", "tag_charset", "escape", "arg_reject", "tag_pairs", "sub_pairs", "read_space"):
        q["probe_" + w] = R.ask("probe " + w)

    # parser charsets
    def recv(b):
        return R.ask("recv b 0 eof " + hexs(b))
    q["key_base"] = recv(b"kk: v\nOK\n")
    q["key_A"] = [recv(b"k" + bytes([b]) + b": v\nOK\n") for b in range(128)]
    q["key_A2"] = [recv(bytes([b]) + b"k: v\nOK\n") for b in range(128)]
    q["key_B"] = [recv(b"k" + bytes([b])) for b in range(256)]
    seqs = [bytes([l, c]) for l in range(0xC2, 0xE0) for c in range(0x80, 0xC0)]
    seqs += [bytes([0xE0, 0xA0, 0x80])] + [bytes([l, 0x80, 0x80]) for l in list(range(0xE1, 0xED)) + [0xEE, 0xEF]] + [bytes([0xED, 0x80, 0x80])]
    seqs += [bytes([0xF0, 0x90, 0x80, 0x80])] + [bytes([l, 0x80, 0x80, 0x80]) for l in (0xF1, 0xF2, 0xF3, 0xF4)]
    q["key_seq"] = [recv(b"k" + s + b": v\nOK\n") for s in seqs]
    q["cmd_base"] = recv(b"ACK [1@0] {aa} m\n")
    q["cmd_A"] = [recv(b"ACK [1@0] {a" + bytes([b]) + b"} m\n") for b in range(128)]
    q["cmd_A2"] = [recv(b"ACK [1@0] {" + bytes([b]) + b"a} m\n") for b in range(128)]
    q["cmd_B"] = [recv(b"ACK [1@0] {a" + bytes([b])) for b in range(256)]
    q["cmd_seq"] = [recv(b"ACK [1@0] {a" + s + b"} m\n") for s in seqs]

    # command list framing
    q["list2"] = R.ask(f"cmd_list add {hexs('aaa')} {hexs('bbb')}")
    q["list3"] = R.ask(f"cmd_list add {hexs('aaa')} {hexs('bbb')} {hexs('ccc')}")

    # run loop: idle words, re-idle timer, album-art fallback
    g = hexs(GREETING)
    ok = hexs(b"OK\n")
    q["idle"] = R.ask(f"loop p~ d:{g} c1:ping d:{ok} d:{ok} " + " ".join(["t1"] * 1000))
    q["art"] = []
    for code in range(61):
        ack = hexs(b"ACK [" + str(code).encode() + b"@0] {readpicture} no\n")
        q["art"].append(R.ask(f"loop p~ d:{g} a1:{hexs('song')} d:{ok} d:{ack}"))

    two = hexs(b"changed: player\nchanged: mixer\nOK\n")
    q["two_idle"] = R.ask(f"loop p~ d:{g} d:{two}")
    q["two_noidle"] = R.ask(f"loop p~ d:{g} c1:ping d:{two} d:{ok}")
    umax = str(2 ** 64 - 1)
    q["sat"] = [R.ask(f"predef Delete.range rx{umax},u"), R.ask(f"predef Delete.range ri0,i{umax}")]

    # filter operators and value escaping
    ops = (ref("operator_enum") or {"variants": ["Equal", "NotEqual", "Contain", "Match", "NotMatch"]})["variants"]
    q["ops"] = {o: R.ask(f"filter find T/n:Album/{o}/{hexs('v')}") for o in ops}
    fe_tests = G.filter_escape_test_strings()
    q["fesc"] = [R.ask(f"filter find t/n:Album/{hexs(s)}") for s in fe_tests]

    # predefined commands
    q["vol"] = [R.ask(f"predef SetVolume n{k}") for k in range(256)]
    q["single_r"] = {v: R.ask(f"predef SetSingle e{v}") for v in ("Disabled", "Enabled", "Oneshot")}
    q["rg_r"] = {v: R.ask(f"predef SetReplayGainMode e{v}") for v in ("Off", "Track", "Album", "Auto")}
    q["words"] = [R.ask(c) for c in predef_catalogue()]

    # typed tuples
    tuple_cmds = [("Update", b"updating_db: 10\n"), ("Add", b"Id: 11\n"), ("StickerGet", b"sticker: n=v12\n"),
                  ("Count", b"songs: 13\nplaytime: 13\n"), ("ListChannels", b"channel: c14\n"),
                  ("ReplayGainStatus", b"replay_gain_mode: off\n"), ("GetPlaylists", b"playlist: p16\nLast-Modified: 2020-01-01T00:00:00Z\n"),
                  ("Stats", b"artists: 1\nalbums: 2\nsongs: 3\nuptime: 4\nplaytime: 5\ndb_playtime: 6\ndb_update: 7\n")]
    q["tuple_single"] = [R.ask("typed " + i + " - " + hexs(f + b"OK\n")) for i, f in tuple_cmds]
    q["tuple"] = []
    for n in range(1, 9):
        wire = b"".join(f + b"list_OK\n" for _, f in tuple_cmds[:n]) + b"OK\n"
        q["tuple"].append(R.ask(f"typedlist tuple {','.join(i for i, _ in tuple_cmds[:n])} {hexs(wire)}"))

    # enum spellings in replies
    resp_lits = [b for b in literals(repo, G.RESPONSES_RS) + literals(repo, "mpd_client/src/commands/mod.rs") if is_utf8(b) and b"\n" not in b]
    spell = []
    for s in [x.encode() for x in SPELLING_CANDIDATES] + resp_lits:
        if s not in spell:
            spell.append(s)

    def status_wire(over):
        fields = {k: STATUS_VALID[k] for k in STATUS_MINIMAL}
        fields.update(over)
        return b"".join(k.encode() + b": " + (v if isinstance(v, bytes) else v.encode()) + b"\n" for k, v in fields.items()) + b"OK\n"
    q["sp_bool"] = [R.ask(f"typed Status - {hexs(status_wire({'repeat': s}))}") for s in spell]
    q["sp_state"] = [R.ask(f"typed Status - {hexs(status_wire({'state': s}))}") for s in spell]
    q["sp_single"] = [R.ask(f"typed Status - {hexs(status_wire({'single': s}))}") for s in spell]
    q["sp_rg"] = [R.ask("typed ReplayGainStatus - " + hexs(b"replay_gain_mode: " + s + b"\nOK\n")) for s in spell]

    try:
        o = R.run()
    except Unavailable as e:
        return {"sections": {s.name: {"error": str(e), "kind": "unavailable"} for s in G.SECTIONS}, "meta": {"error": str(e)}}

    # ================================================================ round 1: answers
    def pairs_list(line):
        out = []
        for tok in line.split(" "):
            k, v = tok.split("=", 1)
            out.append((k, v))
        return out

    tags = pairs_list(o[q["tag_list"]])
    subs = pairs_list(o[q["sub_list"]])
    attempt("tag_enum", lambda: {"variants": [k for k, _ in tags]})
    attempt("tag_names", lambda: {"names": {k: (v if v != "-" else "") for k, v in tags}})
    attempt("sub_enum", lambda: {"variants": [k for k, _ in subs]})
    attempt("sub_names", lambda: {"names": {k: (v if v != "-" else "") for k, v in subs}})

    def f_tag_charset():
        d = kv(o[q["probe_tag_charset"]])
        return {"accept": bits_to_accept(d["class"], "Tag::try_from", d["class_na"])}
    attempt("tag_charset", f_tag_charset)

    def f_cmd_charset():
        d = kv(o[q["probe_cmd_charset"]])
        return {"accept": bits_to_accept(d["tail"], "Command::build (later characters)", d["tail_na"])}
    attempt("command_charset", f_cmd_charset)

    def f_cmd_first():
        d = kv(o[q["probe_cmd_charset"]])
        return {"accept": bits_to_accept(d["head"], "Command::build (first character)", d["head_na"])}
    attempt("command_first_charset", f_cmd_first)

    def f_should_escape():
        d = kv(o[q["probe_escape"]])
        if d["plain"] != hexs("xy"):
            raise Inconsistent("escape_argument changes a plain word")
        return {"accept": bits_to_accept(d["esc"], "escape_argument (backslash)", d["esc_na"])}
    attempt("should_escape", f_should_escape)

    def f_quote():
        d = kv(o[q["probe_escape"]])
        acc = bits_to_accept(d["quote"], "escape_argument (quotes)", d["quote_na"])
        if d["empty"] == hexs('""'):
            we = True
        elif d["empty"] == "-":
            we = False
        else:
            raise Inconsistent(f"escape_argument(\"\") is neither empty nor a pair of quotes: {d['empty']}")
        return {"accept": acc, "when_empty": we}
    attempt("quote", f_quote)

    def f_arg_reject():
        d = kv(o[q["probe_arg_reject"]])
        return {"accept": bits_to_accept(d["reject"], "Command::add_argument")}
    attempt("argument_reject", f_arg_reject)

    def pin_from(line, key):
        d = kv(line)
        v = d[key]
        okv = v == "1"
        out = {"value": {"ok": okv}}
        if not okv and ":" in v:
            out["detail"] = "witness " + unhexs(v.split(":", 1)[1]).decode("utf-8", "replace")
        return out
    for pin, key in (("pin_tag_eq", "eq"), ("pin_tag_cmp", "cmp"), ("pin_tag_partial_cmp", "partial"), ("pin_tag_hash", "hash"),
                     ("pin_tag_argument", "render")):
        try:
            res[pin] = pin_from(o[q["probe_tag_pairs"]], key)
        except (KeyError, ValueError) as e:
            res[pin] = {"error": f"tag_pairs output not understood: {e}", "kind": "unavailable"}
    for pin, key in (("pin_sub_eq", "eq"), ("pin_sub_hash", "hash")):
        try:
            res[pin] = pin_from(o[q["probe_sub_pairs"]], key)
        except (KeyError, ValueError) as e:
            res[pin] = {"error": f"sub_pairs output not understood: {e}", "kind": "unavailable"}

    attempt("default_buffer_capacity", lambda: {"n": int(kv(o[q["probe_read_space"]])["space"])})

    # ---- parser charsets
    def parser_class(what, base, A, A2, B, SEQ, accepted, special):
        """accepted(b, pos) -> the output line that means `accepted`; special: the byte that closes the token"""
        if o[base] != accepted(None, None):
            raise Unavailable(f"{what}: the baseline line is not accepted ({o[base][:60]})")
        acc = []
        for b in range(256):
            outB = o[B[b]]
            if outB not in ("ueof", "invalid"):
                raise Unavailable(f"{what}: truncated input with byte {b} gives {outB[:60]!r}")
            inB = outB == "ueof"
            if b == special:
                # the byte that ends the token is half-matched by the next parser on truncated input; a class
                # containing it could never be followed by it, and the baseline shows a token is followed by it
                inB = False
            if b < 128:
                inA = o[A[b]] == accepted(b, 1)
                inA2 = o[A2[b]] == accepted(b, 0)
                if not (inA == inA2 == inB):
                    raise Inconsistent(f"{what}: byte {b} accepted after a letter: {inA}, before a letter: {inA2}, "
                                       f"keeps the parser waiting at the end of input: {inB}")
            if inB:
                acc.append(b)
        accs = set(acc)
        for s, idx in zip(seqs, SEQ):
            exp = all(x in accs for x in s)
            gotv = o[idx] == accepted(s, 1)
            if exp != gotv:
                raise Inconsistent(f"{what}: UTF-8 sequence {s.hex()} accepted: {gotv}, but its bytes individually say {exp}")
        return {"accept": acc}

    def key_accepted(b, pos):
        if b is None:
            k = b"kk"
        elif isinstance(b, bytes):
            k = b"k" + b
        else:
            k = (b"k" + bytes([b])) if pos == 1 else (bytes([b]) + b"k")
        return f"resp[({hexs(k)}:{hexs('v')})bin=~]err[none] | eof"

    def cmd_accepted(b, pos):
        if b is None:
            k = b"aa"
        elif isinstance(b, bytes):
            k = b"a" + b
        else:
            k = (b"a" + bytes([b])) if pos == 1 else (bytes([b]) + b"a")
        return f"resp[]err[1,0,{hexs(k)},{hexs('m')}] | eof"
    attempt("parser_key_charset", lambda: parser_class("field key", q["key_base"], q["key_A"], q["key_A2"], q["key_B"], q["key_seq"], key_accepted, 58))
    attempt("parser_command_charset", lambda: parser_class("current command of an error", q["cmd_base"], q["cmd_A"], q["cmd_A2"], q["cmd_B"], q["cmd_seq"], cmd_accepted, 125))

    # ---- command list framing
    def list_bytes(line):
        d = kv(line)
        return unhexs(d["bytes"])

    def f_framing():
        b2, b3 = list_bytes(o[q["list2"]]), list_bytes(o[q["list3"]])
        mid2, mid3 = b"aaa\nbbb\n", b"aaa\nbbb\nccc\n"
        if b2.count(mid2) != 1 or b3.count(mid3) != 1:
            raise Inconsistent("send_list does not write the commands one per line in order")
        i2, i3 = b2.index(mid2), b3.index(mid3)
        beg, end = b2[:i2], b2[i2 + len(mid2):]
        if b3[:i3] != beg or b3[i3 + len(mid3):] != end:
            raise Inconsistent("command list delimiters depend on the number of commands")
        return beg, end
    framing = {}

    def f_begin():
        framing["be"] = f_framing()
        return {"bytes": framing["be"][0].hex()}
    attempt("command_list_begin", f_begin)
    attempt("command_list_end", lambda: {"bytes": f_framing()[1].hex()})

    # ---- run loop
    def segments(line):
        return re.findall(r"\[([^\]]*)\]", line)

    def f_idle():
        segs = segments(o[q["idle"]])
        # ops: d:greeting c1 d:OK d:OK t1*1000 ; segment 0 precedes the first op
        def written(seg):
            m = re.search(r"(?:^|;)w:([0-9a-f]+)", seg)
            return bytes.fromhex(m.group(1)) if m else b""
        if "conn=ok" not in segs[1]:
            raise Unavailable("the client did not connect")
        idle_w, noidle_w = written(segs[1]), written(segs[2])
        if not idle_w.endswith(b"\n") or not noidle_w.endswith(b"\n") or idle_w.count(b"\n") != 1 or noidle_w.count(b"\n") != 1:
            raise Inconsistent(f"idle / noidle are not single lines: {idle_w!r} {noidle_w!r}")
        if "r1=" not in segs[4]:
            raise Unavailable(f"the request was not answered where expected: {segs[3:6]}")
        n = None
        for i, seg in enumerate(segs[5:], 1):
            if written(seg) == idle_w:
                n = i
                break
            if seg:
                raise Unavailable(f"unexpected activity while waiting for the re-idle timer: {seg[:60]}")
        return idle_w[:-1], noidle_w[:-1], n
    idle_res = {}

    def f_idle_words():
        idle_res["r"] = f_idle()
        return {"idle": idle_res["r"][0].hex(), "noidle": idle_res["r"][1].hex()}
    attempt("idle_words", f_idle_words)

    def f_idle_timeout():
        n = (idle_res.get("r") or f_idle())[2]
        if n is None:
            raise Unavailable("the client did not idle again within 1000 ms of the reply")
        return {"n": n}
    attempt("idle_timeout_ms", f_idle_timeout)

    def f_art():
        codes = []
        for code, idx in enumerate(q["art"]):
            segs = segments(o[idx])
            last = segs[-1]
            m = re.search(r"(?:^|;)w:([0-9a-f]+)", last)
            if m and bytes.fromhex(m.group(1)).startswith(b"albumart "):
                codes.append(code)
            elif "r1=ack(" in last:
                pass
            else:
                raise Unavailable(f"album_art after ACK {code}: unexpected trace {last[:80]}")
        if len(codes) != 1:
            raise Inconsistent(f"album_art falls back to `albumart` after the error codes {codes}; the model has exactly one")
        return {"n": codes[0]}
    attempt("album_art_fallback_code", f_art)

    def two_events(line):
        evs = re.findall(r"ev:([0-9a-f]+)", line)
        if evs == [hexs("player"), hexs("mixer")]:
            return True
        if evs in ([hexs("player")], [hexs("mixer")]):
            return False
        raise Unavailable(f"idle reply with two changes: events {evs}")

    def f_all_changed():
        v = two_events(o[q["two_idle"]])
        return {"value": {"ok": v}} if v else {"value": {"ok": False}, "detail": "an idle reply naming two subsystems produced one event"}

    def f_event_sites():
        v = two_events(o[q["two_idle"]]) and two_events(o[q["two_noidle"]])
        return {"value": {"ok": v}} if v else {"value": {"ok": False}, "detail": "a reply naming two subsystems produced one event (while idling or on noidle)"}

    def f_saturating():
        exp = [f"delete {umax}:\n".encode(), f"delete 0:{umax}\n".encode()]
        outs = [o[i] for i in q["sat"]]
        v = all(x == "ok " + hexs(e) for x, e in zip(outs, exp))
        return {"value": {"ok": v}} if v else {"value": {"ok": False}, "detail": f"ranges touching usize::MAX render as {outs}"}
    for name, fn in (("sub_all_changed_fields", f_all_changed), ("sub_event_sites_iterate", f_event_sites), ("range_saturating", f_saturating)):
        try:
            res[name] = fn()
        except (Unavailable, Inconsistent, KeyError, ValueError) as e:
            res[name] = {"error": str(e), "kind": "unavailable"}

    # ---- filters
    def filter_expr(line, what):
        if not line.startswith("ok "):
            raise Unavailable(f"{what}: {line[:60]}")
        b = unhexs(line[3:])
        if not b.startswith(b"find ") or not b.endswith(b"\n"):
            raise Inconsistent(f"{what}: the find request is not `find <expression>`: {b!r}")
        return b[5:-1]          # Filter renders its own quoting: the wire form is compared as it is

    def f_operator_enum():
        good = [x for x in ops if o[q["ops"][x]].startswith("ok ")]
        if not good:
            raise Unavailable("no operator renders")
        return {"variants": good}
    attempt("operator_enum", f_operator_enum)

    def f_operator_str():
        names = {}
        for x in ops:
            e = filter_expr(o[q["ops"][x]], f"operator {x}")
            pre, post = b'"(Album ', b' \\"v\\")"'
            if not e.startswith(pre) or not e.endswith(post) or len(e) <= len(pre) + len(post):
                raise Inconsistent(f"operator {x}: expression {e!r} is not \"(Album <op> \\\"v\\\")\"")
            names[x] = e[len(pre):-len(post)].hex()
        return {"names": names}
    attempt("operator_str", f_operator_str)

    def f_filter_escape():
        images = {}
        for s, idx in zip(fe_tests, q["fesc"]):
            e = filter_expr(o[idx], f"filter value {s!r}")
            pre, post = b'"(Album == \\"', b'\\")"'
            if not e.startswith(pre) or not e.endswith(post) or len(e) < len(pre) + len(post):
                raise Inconsistent(f"filter value {s!r}: expression {e!r} is not \"(Album == \\\"...\\\")\"")
            images[s] = e[len(pre):-len(post)]
        singles = [(s[0], images[s]) for s in fe_tests if len(s) == 1 and images[s] != s]
        if len(singles) > 4:
            raise Inconsistent(f"{len(singles)} characters are rewritten in filter values; the model is a short list of replacements")
        for perm in itertools.permutations(singles):
            v = {"guard": [c for c, _ in perm], "repls": [[c, l.hex()] for c, l in perm]}
            if all(G.apply_filter_escape(v, s) == images[s] for s in fe_tests):
                return v
        raise Inconsistent("filter value escaping is not a sequence of single-character replacements")
    attempt("filter_escape", f_filter_escape)

    # ---- predefined commands
    def predef_bytes(line, what):
        if not line.startswith("ok "):
            raise Unavailable(f"{what}: {line[:40]}")
        return unhexs(line[3:])

    def f_volume():
        outs = []
        for k, idx in enumerate(q["vol"]):
            b = predef_bytes(o[idx], f"SetVolume({k})")
            m = re.fullmatch(rb"setvol (\d+)\n", b)
            if not m:
                raise Inconsistent(f"SetVolume({k}) renders {b!r}")
            outs.append(int(m.group(1)))
        mx = max(outs)
        for k, v in enumerate(outs):
            if v != min(k, mx):
                raise Inconsistent(f"SetVolume({k}) sends {v}: not a clamp at {mx}")
        return {"n": mx}
    attempt("volume_max", f_volume)

    def enum_render(qd, word):
        def f():
            rows = []
            for v, idx in qd.items():
                b = predef_bytes(o[idx], f"{word} {v}")
                if not b.startswith(word.encode() + b" ") or not b.endswith(b"\n"):
                    raise Inconsistent(f"{word} {v} renders {b!r}")
                rows.append([v.encode().hex(), arg_unescape(b[len(word) + 1:-1]).hex()])
            return {"rows": rows}
        return f
    attempt("single_render", enum_render(q["single_r"], "single"))
    attempt("replaygain_render", enum_render(q["rg_r"], "replay_gain_mode"))

    def f_words():
        ws = set()
        for idx in q["words"]:
            line = o[idx]
            if line.startswith("ok "):
                ws.add(first_word(unhexs(line[3:])))
            elif line == "bad-case":
                raise Unavailable("the catalogue of constructor paths is out of date")
        return {"list": [w.hex() for w in sorted(ws)]}
    attempt("predefined_command_words", f_words)

    # ---- tuples
    def f_tuples():
        singles = []
        for (ident, _), idx in zip(tuple_cmds, q["tuple_single"]):
            if not o[idx].startswith("ok "):
                raise Unavailable(f"{ident} does not decode its own reply: {o[idx][:60]}")
            singles.append(o[idx][3:])
        lists = []
        for n, idx in zip(range(1, 9), q["tuple"]):
            exp = "ok [" + " | ".join(singles[:n]) + "]"
            if o[idx] != exp:
                raise Inconsistent(f"tuple of arity {n}: positions and replies do not pair up in order ({o[idx][:80]})")
            lists.append(list(range(n)))
        return {"lists": lists}
    attempt("tuple_impls", f_tuples)

    # ---- spellings
    def spellings(qlist, rx, mapping=None):
        def f():
            rows = []
            for s, idx in zip(spell, qlist):
                line = o[idx]
                if not line.startswith("ok "):
                    continue
                m = re.search(rx, line)
                if not m:
                    raise Unavailable(f"cannot read the decoded value in {line[:80]}")
                v = m.group(1)
                if mapping:
                    v = mapping[v]
                rows.append([s.hex(), v.encode().hex()])
            if not rows:
                raise Unavailable("no candidate spelling decodes")
            return {"rows": rows}
        return f
    attempt("bool_spellings", spellings(q["sp_bool"], r" repeat=(\d)", {"0": "false", "1": "true"}))
    attempt("playstate_spellings", spellings(q["sp_state"], r" state=(\w+)"))
    attempt("single_spellings", spellings(q["sp_single"], r" single=(\w+)"))
    attempt("replaygain_spellings", spellings(q["sp_rg"], r" mode=(\w+)"))

    # ================================================================ round 2: questions that need round 1
    key_acc = set((res.get("parser_key_charset", {}).get("value") or ref("parser_key_charset") or {"accept": []})["accept"])
    tag_acc = set((res.get("tag_charset", {}).get("value") or ref("tag_charset") or {"accept": []})["accept"])

    def valid_key(b):
        return len(b) > 0 and all(x in key_acc for x in b) and b not in (b"binary", b"OK", b"ACK", b"list_OK")

    q2 = {}
    # tag parse table
    cands = []
    for b in (literals(repo, G.TAG_RS) + [unhexs(v) for _, v in tags] + [unhx_safe(p) for p, _ in (ref("tag_parse_table") or {"rows": []})["rows"]]
              + [x.encode() for x in MPD_TAG_NAMES]):
        if b and is_utf8(b) and all(x in tag_acc for x in b) and b not in cands:
            cands.append(b)
    q2["tag_parse"] = []
    for c in cands:
        s = c.decode()
        forms = []
        for f in (s, s.lower(), s.upper(), mixed(s)):
            if f not in forms:
                forms.append(f)
        q2["tag_parse"].append((c, [(f, R.ask("tag_parse " + hexs(f))) for f in forms]))
    # subsystem table and field key
    client_lits = literals(repo, G.CLIENT_MOD_RS) + literals(repo, G.CLIENT_CONN_RS)
    scands = []
    for b in ([unhexs(v) for _, v in subs] + [unhx_safe(p) for p, _ in (ref("sub_parse_table") or {"rows": []})["rows"]]
              + [x.encode() for x in MPD_SUBSYSTEMS] + client_lits):
        if b and is_utf8(b) and b"\n" not in b and b"\r" not in b and b not in scands:
            scands.append(b)
    q2["sub"] = [(c, R.ask("sub " + hexs(c))) for c in scands]
    kcands = [b"changed"] + [b for b in client_lits + [x.encode() for x in MPD_SUBSYSTEMS] if valid_key(b)]
    kcands = list(dict.fromkeys(kcands))
    q2["sub_key"] = [(k, R.ask(f"loop p~ d:{g} d:" + hexs(k + b": player\nOK\n"))) for k in kcands]
    # command list prefix
    be = framing.get("be")
    q2["clp"] = None
    if be:
        n1, n2 = be[0].rstrip(b"\n"), be[1].rstrip(b"\n")
        names = []
        for n in (n1, n2):
            names += [n[:i] for i in range(1, len(n) + 1)]
        names = list(dict.fromkeys(names))
        q2["clp"] = (n1, n2, {n: R.ask("cmd_build " + hexs(n)) for n in names})
    # songs
    skeys = [b for b in ([x.encode() for x in SONG_KEY_CANDIDATES] + literals(repo, G.SONG_RS)
                         + [unhx_safe(x) for x in (ref("start_fields") or {"list": []})["list"]]
                         + [unhx_safe(x) for x in (ref("song_attr_keys") or {"list": []})["list"]]) if valid_key(b)]
    skeys = list(dict.fromkeys(skeys))
    q2["songA"] = [(k, R.ask("songs Find " + hexs(k + b": v\nOK\n"))) for k in skeys]
    q2["songB"] = [(k, R.ask("songs Find " + hexs(b"file: a\n" + k + b": zz\nTitle: t\nOK\n"))) for k in skeys]
    q2["songC"] = [(k, R.ask("songs Find " + hexs(b"file: a\n" + k + b": zz\nOK\n"))) for k in skeys]
    # status fields
    stkeys = [b for b in ([x.encode() for x in STATUS_KEY_CANDIDATES] + literals(repo, G.RESPONSES_RS)
                          + [unhx_safe(x) for x in (ref("status_fields_read") or {"list": []})["list"]]) if valid_key(b)]
    stkeys = list(dict.fromkeys(stkeys))

    def st_wire(fields):
        return b"".join(k + b": " + v + b"\n" for k, v in fields) + b"OK\n"
    minimal = [(k.encode(), STATUS_VALID[k].encode()) for k in STATUS_MINIMAL]
    full = [(k.encode(), v.encode()) for k, v in STATUS_VALID.items()]
    q2["st_base"] = (R.ask("typed Status - " + hexs(st_wire(minimal))), R.ask("typed Status - " + hexs(st_wire(full))))
    q2["st"] = []
    junk = b"\xc2\xbfzz"
    for k in stkeys:
        a = R.ask("typed Status - " + hexs(st_wire([(x, (junk if x == k else v)) for x, v in minimal] + ([] if k in dict(minimal) else [(k, junk)]))))
        b_ = R.ask("typed Status - " + hexs(st_wire([(x, (junk if x == k else v)) for x, v in full] + ([] if k in dict(full) else [(k, junk)]))))
        q2["st"].append((k, a, b_))

    try:
        o = R.run()
    except Unavailable as e:
        for name in ("tag_parse_table", "sub_parse_table", "sub_field_key", "command_list_prefix", "start_fields", "song_start",
                     "song_attr_keys", "status_fields_read"):
            res[name] = {"error": str(e), "kind": "unavailable"}
        return finish_result(res, R, t0)

    # ================================================================ round 2: answers
    def f_tag_table():
        rows = []
        for c, forms in q2["tag_parse"]:
            outs = [(f, o[idx]) for f, idx in forms]
            named = [(f, x.split(" ")[2]) for f, x in outs if x.startswith("ok named ")]
            if not named:
                continue
            if len(named) != len(outs) or len({v for _, v in named}) != 1:
                raise Inconsistent(f"Tag::try_from is not a case-insensitive table lookup around {c!r}: {outs}")
            rows.append([c.hex(), named[0][1]])
        seen = set()
        out = []
        for p, v in rows:
            k = unhexs(p).lower()
            if k not in seen:
                seen.add(k)
                out.append([p, v])
        if not out:
            raise Unavailable("no candidate name parses to a named tag")
        return {"rows": out}
    attempt("tag_parse_table", f_tag_table)

    def f_sub_table():
        rows = []
        for c, idx in q2["sub"]:
            line = o[idx]
            if line.startswith("error") or line.startswith("skip"):
                continue
            d = kv(line)
            if d["variant"] != "Other":
                rows.append([c.hex(), d["variant"]])
            elif d["name"] != hexs(c):
                raise Inconsistent(f"the catch-all subsystem decoded from `changed: {c!r}` is called {unhexs(d['name'])!r}")
        if not rows:
            raise Unavailable("no candidate name decodes to a named subsystem")
        return {"rows": rows}
    attempt("sub_parse_table", f_sub_table)

    def f_sub_key():
        hits = [k for k, idx in q2["sub_key"] if re.search(r"ev:[0-9a-f]", o[idx])]
        if len(hits) != 1:
            raise (Unavailable if not hits else Inconsistent)(f"idle replies produce an event under the keys {hits}; the model has exactly one")
        return {"bytes": hits[0].hex()}
    attempt("sub_field_key", f_sub_key)

    def f_clp():
        if not q2["clp"]:
            raise Unavailable("command list delimiters unknown")
        n1, n2, idxs = q2["clp"]
        def verdict(n):
            x = o[idxs[n]]
            return "list" if x == "err list" else ("ok" if x.startswith("ok ") else x)
        rejected = [n for n in idxs if verdict(n) == "list"]
        other = [n for n in idxs if verdict(n) not in ("list", "ok")]
        if other:
            raise Inconsistent(f"Command::build({other[0]!r}) = {verdict(other[0])}")
        if not rejected:
            raise Inconsistent("no prefix of the list delimiters is refused as a command")
        p = min(rejected, key=len)
        framing["clp"] = p
        for n in idxs:
            if (verdict(n) == "list") != n.startswith(p):
                raise Inconsistent(f"refusal of list commands is not `starts with {p!r}`: {n!r} -> {verdict(n)}")
        return p
    clp = {}

    def f_clp_round2():
        clp["p"] = f_clp()
        return None
    try:
        f_clp_round2()
    except (Inconsistent, Unavailable) as e:
        clp["err"] = e

    # songs
    def song_results():
        url, skip, expected = [], [], set()
        for k, idx in q2["songA"]:
            line = o[idx]
            if line == "PANIC":
                continue        # a candidate key the decoder cannot digest at all says nothing about this table (C12's oracle judges it)
            if line == "ok []":
                skip.append(k)
            elif line.startswith("ok [url=" + hexs("v") + ","):
                url.append(k)
            elif line.startswith("err unexpected_field "):
                parts = line.split(" ")
                if parts[-1] != k.decode():
                    raise Inconsistent(f"listing starting with {k!r}: {line}")
                expected.add(" ".join(parts[2:-1]))
            else:
                raise Inconsistent(f"listing starting with {k!r}: {line[:80]}")
        if len(url) != 1 or len(expected) != 1:
            raise Inconsistent(f"keys that open a song: {url}; names reported as expected: {sorted(expected)}")
        return {"url_key": url[0].hex(), "skip": [k.hex() for k in skip], "expected": expected.pop().encode().hex()}
    attempt("song_start", song_results)

    start_keys = {}

    def f_start_fields():
        starts = []
        for k, idx in q2["songB"]:
            line = o[idx]
            if line == "PANIC":
                continue
            if line.startswith("ok ["):
                n_songs = line.count("|") + 1 if line != "ok []" else 0
                if n_songs == 2:
                    is_start = True
                elif n_songs == 1:
                    is_start = False
                else:
                    raise Inconsistent(f"entry with {k!r} inside: {line[:80]}")
            elif line.startswith("err unexpected_field "):
                found = line.split(" ")[-1]
                if found not in ("Title", k.decode()):
                    raise Inconsistent(f"entry with {k!r} inside: {line}")
                is_start = True
            elif line.startswith("err invalid_value ") or line.startswith("err other") or line.startswith("err missing"):
                is_start = False
            else:
                raise Inconsistent(f"entry with {k!r} inside: {line[:80]}")
            start_keys[k] = is_start
            if is_start:
                starts.append(k)
        if not starts:
            raise Unavailable("no candidate key starts an entry")
        return {"list": [k.hex() for k in starts]}
    attempt("start_fields", f_start_fields)

    def f_attr_keys():
        if not start_keys:
            raise Unavailable("entry-start keys unknown")
        attrs = []
        for k, idx in q2["songC"]:
            if start_keys.get(k) or k not in start_keys:
                continue
            line = o[idx]
            if line == "PANIC":
                continue
            if line.startswith("ok [") and ("=[" + hexs("zz") + "]") in line:
                continue                                    # stored as a tag
            attrs.append(k)
        return {"list": [k.hex() for k in attrs]}
    attempt("song_attr_keys", f_attr_keys)

    def f_status_fields():
        base_min, base_full = o[q2["st_base"][0]], o[q2["st_base"][1]]
        if not base_min.startswith("ok ") or not base_full.startswith("ok "):
            raise Unavailable(f"the reference status replies do not decode: {base_min[:60]} / {base_full[:60]}")
        read = [k for k, a, b_ in q2["st"] if o[a] != base_min or o[b_] != base_full]
        return {"list": [k.hex() for k in read]}
    attempt("status_fields_read", f_status_fields)

    # ================================================================ round 3: command list prefix variations
    if "p" in clp:
        p = clp["p"]
        var = {"suffix": [p + b"x", p + b"_end", p + b"abc"], "embedded": [b"x" + p, b"a" + p + b"b"],
               "case": [p.upper()] if p.upper() != p else [], "near": [p[:-1] + b"x"] if len(p) > 1 else []}
        q3 = {k: [(n, R.ask("cmd_build " + hexs(n))) for n in v] for k, v in var.items()}
        try:
            o = R.run()

            def f_clp3():
                def is_list(idx):
                    return o[idx] == "err list"
                if any(is_list(i) for k in ("embedded", "case", "near") for _, i in q3[k]):
                    raise Inconsistent(f"a command that does not start with {p!r} is refused as a list command")
                suffixed = [is_list(i) for _, i in q3["suffix"]]
                if all(suffixed):
                    return {"bytes": p.hex(), "is_prefix": True}
                if not any(suffixed):
                    return {"bytes": p.hex(), "is_prefix": False}
                raise Inconsistent(f"refusal of list commands is neither a prefix nor an equality test on {p!r}")
            attempt("command_list_prefix", f_clp3)
        except Unavailable as e:
            res["command_list_prefix"] = {"error": str(e), "kind": "unavailable"}
    else:
        e = clp.get("err")
        res["command_list_prefix"] = {"error": str(e), "kind": "inconsistent" if isinstance(e, Inconsistent) else "unavailable"}

    return finish_result(res, R, t0)


def unhx_safe(s):
    try:
        return bytes.fromhex(s)
    except ValueError:
        return b""


def finish_result(res, R, t0):
    for s in G.SECTIONS:
        if s.name not in res:
            res[s.name] = {"error": "not probed: " + (s.probe_note or "static only"), "kind": "unavailable"}
    return {"sections": res, "meta": {"cases": R.total, "rounds": R.rounds, "seconds": round(time.time() - t0, 2)}}


def predef_catalogue():
    """One case per constructor path and per choice of optional parameter / enum variant / song and position flavour."""
    import random
    from props import c15
    g = c15.Gen(random.Random(0), ["Album", "Artist", "Title", "Genre"])
    cases = []
    for name, kinds in c15.PATHS.items():
        choices = []
        for k in kinds:
            base = k.rstrip("?")
            if base == "ST":
                opts = ["- -", "eEq s" + hexs("5"), "eLt s" + hexs("5"), "eGt s" + hexs("5")]
            elif base.startswith("E:"):
                opts = ["e" + v for v in base[2:].split("|")]
            elif base == "So":
                opts = ["I5", "P5"]
            elif base == "Q":
                opts = ["qa1", "q+1", "q-1"]
            elif base == "S":
                opts = ["s" + hexs("abc")]
            elif base == "N":
                opts = ["n5"]
            elif base == "V":
                opts = ["n5"]
            elif base == "B":
                opts = ["b1"]
            elif base == "D":
                opts = ["d1,0"]
            elif base == "R":
                opts = ["ri1,x3"]
            elif base == "Tg":
                opts = ["tAlbum"]
            elif base == "Tgs":
                opts = ["TtAlbum", "T"]
            elif base == "F":
                opts = ["ftArtist,Equal," + hexs("x") + ",0"]
            else:
                opts = [g.default(base)]
            if k.endswith("?"):
                opts = opts + ["-"]
            choices.append(opts)
        for combo in itertools.product(*choices):
            cases.append(" ".join(["predef", name] + list(combo)))
    return cases


# ---------------------------------------------------------------------- cache

def source_key(repo, extra=()):
    h = hashlib.sha256()
    roots = [os.path.join(repo, "mpd_protocol", "src"), os.path.join(repo, "mpd_client", "src"), os.path.join(VERIF, "harness", "src")]
    files = [os.path.join(repo, "Cargo.lock"), os.path.join(repo, "mpd_protocol", "Cargo.toml"), os.path.join(repo, "mpd_client", "Cargo.toml"),
             os.path.join(VERIF, "harness", "Cargo.toml"), os.path.abspath(__file__), os.path.join(HERE, "gen_tables.py"),
             os.path.join(HERE, "props", "c15.py")] + list(extra)
    for r in roots:
        for d, _, names in sorted(os.walk(r)):
            for n in sorted(names):
                files.append(os.path.join(d, n))
    for f in files:
        h.update(os.path.relpath(f, "/").encode() + b"\0")
        try:
            with open(f, "rb") as fh:
                h.update(fh.read())
        except OSError:
            h.update(b"<missing>")
        h.update(b"\0")
    return h.hexdigest()


def load_reference():
    try:
        return json.load(open(G.DEFAULT_FALLBACK))["sections"]
    except (OSError, ValueError, KeyError):
        return {}


def ensure(repo, harness_bin, cache_dir):
    """Path of the probe result for the repository's current sources (computed once per source state)."""
    os.makedirs(cache_dir, exist_ok=True)
    key = source_key(repo, extra=[G.DEFAULT_FALLBACK])
    path = os.path.join(cache_dir, key[:32] + ".json")
    if os.path.exists(path):
        try:
            d = json.load(open(path))
            if d.get("key") == key:
                return path, d, True
        except ValueError:
            pass
    d = probe_all(repo, harness_bin, os.path.join(cache_dir, "work"), load_reference())
    d["key"] = key
    tmp = path + ".tmp"
    with open(tmp, "w") as f:
        json.dump(d, f, indent=1, sort_keys=True)
    os.replace(tmp, path)
    return path, d, False


if __name__ == "__main__":
    repo, hb, outp = sys.argv[1], sys.argv[2], sys.argv[3]
    d = probe_all(repo, hb, os.path.join(os.path.dirname(os.path.abspath(outp)), "probe_work"), load_reference())
    json.dump(d, open(outp, "w"), indent=1, sort_keys=True)
    bad = {k: v for k, v in d["sections"].items() if "error" in v}
    print(json.dumps({"meta": d["meta"], "errors": bad}, indent=1))
