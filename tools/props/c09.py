"""C09 — arbitrary peer bytes never panic or hang the protocol layer."""
import mpdgen as g
from connlib import COQ_FILES, run_cases, describe, print_replay
from vlib import Failure, finish, unhexs
import itertools

# named edge cases of the property with the outcome the property demands
EDGE = [
    (b"ACK [18446744073709551616@0] {} x\n", "invalid"),
    (b"ACK [0@18446744073709551616] {} x\n", "invalid"),
    (b"ACK [5@0] {pl1y} x\n", "invalid"),
    (b"ACK [5@0] {} \xff\n", "invalid"),
    (b"a: \xff\n", "invalid"),
    (b"\xc3: x\n", "invalid"),
    (b"a\xff: x\n", "invalid"),
    (b"a: x\x00y\nOK\n", "resp[(61:780079)bin=~]err[none]"),
    (b"binary: 18446744073709551615\nabc", "ueof"),
    (b"binary: 4294967296\nabc", "ueof"),
    (b"binary: 18446744073709551616\nOK\n", "resp[(62696e617279:3138343436373434303733373039353531363136)bin=~]err[none]"),
    (b"binary: 2\nabX", "invalid"),
    (b"binary: 2\nab\nOK\n", "resp[()bin=6162]err[none]"),
    (b"foo bar\n", "invalid"),
    (b"f o", "invalid"),
    (b": x\n", "invalid"),
    (b"1: x\n", "invalid"),
    (b"a:x\n", "invalid"),
    (b"OK \n", "invalid"),
    (b"ok\n", "invalid"),
    (b"\n", "invalid"),
    (b"\x00", "invalid"),
    (b"ACK\n", "invalid"),
    (b"ACK [5@0] {}\n", "invalid"),
    (b"list_OK", "ueof"),
    (b"a" * 9000, "ueof"),
    (b"a: " + b"\xe4" * 5000 + b"\n", "invalid"),
    (b"999999999999999999999999999999: x\n", "invalid"),
]
EDGE_CONNECT = [
    (b"OK MPD \xff\n", "connect:invalid"), (b"OK MPD \n", "connect:invalid"), (b"OK MPD 0.23\x00\n", "connected:302e323300 | eof"),
    (b"\x00", "connect:invalid"), (b"OK MPD " + b"9" * 9000, "connect:ueof"), (b"", "connect:ueof"),
]


def gen(ctx):
    rng = ctx.rng
    cases, expect = [], []

    def add(kind, s, tail, exp=None):
        for seg in (g.seg_whole(s), g.seg_random(rng, s), g.seg_bytes(s) if len(s) < 400 else g.seg_random(rng, s, maxlen=7)):
            for fl in ("b", "a"):
                cases.append(g.case_line(kind, fl, 3, tail, seg))
                expect.append(exp)

    for s, exp in EDGE:
        add("recv", s, "eof", exp)
    for z in (b"0", b"00", b"000", b"0000000000000000000000"):
        for n, payload in ((0, b""), (3, b"abc"), (10, b"OK\nOK\nxyz\n"), (12, b"binary: 2\nab")):
            add("recv", b"size: 1\nbinary: " + z + str(n).encode() + b"\n" + payload + b"\nOK\nvolume: 1\nOK\n", "eof",
                "resp[(73697a65:31)bin=" + (payload.hex() if payload else "-") + "]err[none]")
    for s, exp in EDGE_CONNECT:
        add("conn", s, "eof", exp)
    # lenient-number traps: every numeric position of the grammar with texts a sloppy integer parser would accept
    for v in g.numeric_variants(6):
        vb = v.encode()
        # a length written with leading zeros is the same number: the payload is still the six bytes after the header line
        add("recv", b"binary: " + vb + b"\nFOOBAR\nOK\n", "eof", "invalid" if vb not in (b"06", b"006") else "resp[()bin=464f4f424152]err[none]")
        add("recv", b"ACK [" + vb + b"@0] {} x\n", "eof", "invalid" if vb not in (b"06", b"006") else None)
        add("recv", b"ACK [5@" + vb + b"] {} x\n", "eof", "invalid" if vb not in (b"06", b"006") else None)
    # non-ASCII where only ASCII letters are allowed: every 2-byte UTF-8 sequence of two lead bytes plus a sample of the others
    # (their bytes read as Latin-1 "letters" by a byte-wise classification), inside a key and inside the command of an ACK line
    pairs = [(b1, b2) for b1 in (0xC2, 0xC3) for b2 in range(0x80, 0xC0)]
    others = [(b1, b2) for b1 in range(0xC4, 0xE0) for b2 in range(0x80, 0xC0)]
    rng.shuffle(others)
    for b1, b2 in pairs + others[:60 if ctx.tier == "quick" else 2000]:
        ch = bytes([b1, b2])
        for s_ in (b"T" + ch + b"te: x\nOK\n", ch + b": x\nOK\n", b"ACK [5@0] {pl" + ch + b"y} nope\n"):
            cases.append(g.case_line("recv", rng.choice("ab"), 1, "eof", [s_]))
            expect.append("invalid")
    # long malformed lines that are valid UTF-8, with a multi-byte character at every offset around the places where an excerpt
    # for a log message or an error value would be cut (32, 64, 128, 256 bytes), the whole line in one read
    for cut in (32, 64, 128, 256):
        for ch in ("\u00f3", "\u65e5", "\U0001F600"):
            for off in range(cut - 4, cut + 2):
                line = ("file Music/" + "a" * 400)[:off] + ch + "/track.flac"
                for s_ in (line.encode() + b"\nOK\n", b"foo: bar\n" + line.encode() + b"\nOK\n", b"ACK [5@0] {} " + line.encode()[:off + len(ch.encode())] + b"\xff\n"):
                    cases.append(g.case_line("recv", rng.choice("ab"), 1, "eof", [s_]))
                    expect.append("invalid")
                good = ("file: Music/" + "a" * 400)[:off] + ch + "/track.flac"
                cases.append(g.case_line("recv", rng.choice("ab"), 1, "eof", [good.encode() + b"\nOK\n"]))
                expect.append(None)
    # numbers just beyond u64 in every numeric position (a hand-rolled fold may overflow where str::parse reports an error)
    for nb in (2 ** 64 - 1, 2 ** 64, 2 ** 64 + 1, 2 ** 64 + 3, 2 ** 64 + 4, 2 ** 64 + 9, 10 ** 20 - 1, 2 ** 65, 2 ** 128):
        t_ = str(nb).encode()
        ok_ = nb < 2 ** 64
        add("recv", b"ACK [" + t_ + b"@0] {} x\nOK\n", "eof", None if ok_ else "invalid")
        add("recv", b"ACK [5@" + t_ + b"] {play} x\nOK\n", "eof", None if ok_ else "invalid")
        add("recv", b"binary: " + t_ + b"\nOK\n", "eof", None)        # not a length any more: an ordinary field named binary
    # a value that ends in a cut-off multi-byte sequence right before its line feed: the line is complete, hence malformed — not "incomplete"
    for tail_ in (b"\xc3", b"\xe6\x97", b"\xf0\x9f\x98", b"\xf0", b"a\xe2\x82", b"\xc3\xa9\xc3"):
        for line_ in (b"Title: caf" + tail_ + b"\n", b"a: b\nfile: " + tail_ + b"\nc: d\n", b"ACK [5@0] {} " + tail_ + b"\n"):
            add("recv", line_ + b"OK\nvolume: 1\nOK\n", "eof", "invalid" if line_.startswith((b"Title", b"ACK")) else None)
            for seg_ in ([line_, b"OK\n"], [line_[:-1], b"\nOK\n"]):
                for fl in ("b", "a"):
                    cases.append(g.case_line("recv", fl, len(seg_), "idle", seg_) if False else g.case_line("recv", fl, 2, "eof", seg_))
                    expect.append(None)
    # several binary parts in one frame, binary parts between fields, in list frames: unusual, never a reason to panic
    for st in (b"size: 3\nbinary: 3\nabc\nbinary: 2\nde\nOK\n", b"binary: 0\n\nbinary: 0\n\nOK\n", b"binary: 1\na\nx: y\nbinary: 1\nb\nz: w\nOK\n",
               b"binary: 2\nab\nlist_OK\nbinary: 1\nc\nbinary: 3\ndef\nlist_OK\nOK\n", b"a: 1\nbinary: 1\nq\nbinary: 1\nr\nbinary: 1\ns\nACK [5@0] {} x\n"):
        add("recv", st + b"volume: 1\nOK\n", "eof")
    # very long greetings (beyond one and two doublings of the receive buffer) with more or less data arriving in the same read
    for gl in (100, 4090, 4096, 5000, 8185, 8192, 9000, 20000):
        gr = b"OK MPD " + b"1" * gl + b"\n"
        for body in (b"", b"a: b\nOK\n", (b"k: " + b"v" * 84 + b"\n") * 100 + b"OK\n", (b"k: " + b"v" * 84 + b"\n") * 60 + b"OK\nbinary: 5000\n" + bytes(range(250)) * 20 + b"\nOK\n"):
            st = gr + body
            for seg in (g.seg_whole(st), [st[:len(gr) // 2], st[len(gr) // 2:]], [st[i:i + 4096] for i in range(0, len(st), 4096)], g.seg_random(rng, st, maxlen=3000)):
                for fl in ("b", "a"):
                    cases.append(g.case_line("conn", fl, 1, "eof", [c_ for c_ in seg if c_]))
                    expect.append(None)
    # sizes: a read that fills the buffer exactly, and large pipelined responses in bulk reads
    for st, _ in g.exact_fill_streams():
        add("recv", st, "eof")
    for st in g.pipelined_long_streams(rng, 2 if ctx.tier == "quick" else 30):
        add("recv", st, "eof")
    n = 300 if ctx.tier == "quick" else 5000
    for _ in range(n):
        r = rng.random()
        if r < 0.3:
            s = g.random_bytes(rng, rng.choice([1, 2, 5, 20, 100, 600]))
        else:
            s = b"".join(g.enc_response(g.gen_response(rng)) for _ in range(rng.choice([1, 2, 3])))
            for _ in range(rng.choice([1, 1, 2, 4])):
                s = g.corrupt(rng, s)
        kind = "recv" if rng.random() < 0.8 else "conn"
        if kind == "conn" and rng.random() < 0.7:
            s = g.corrupt(rng, b"OK MPD 0.23.5\n") + s
        add(kind, s, rng.choice(["eof", "err"]))
    if ctx.tier == "thorough":
        alpha = [b"O", b"K", b"\n", b"A", b"C", b" ", b":", b"a", b"[", b"\xff", b"\x00", b"1"]
        for ln in (1, 2, 3):
            for t in itertools.product(alpha, repeat=ln):
                s = b"".join(t)
                for fl in ("b", "a"):
                    cases.append(g.case_line("recv", fl, 2, "eof", [s]))
                    expect.append(None)
        seeds = [g.enc_response(g.gen_response(rng)) for _ in range(20)]
        for s in seeds:
            for i in range(min(len(s), 120)):
                for v in (0, 10, 255):
                    t = s[:i] + bytes([v]) + s[i + 1:]
                    cases.append(g.case_line("recv", rng.choice("ab"), 2, "eof", g.seg_random(rng, t)))
                    expect.append(None)
    return cases, expect


def idle_cases(ctx):
    """Complete responses, then a peer that stays silent with the transport open (no end of stream): each response must be returned
    without another read — a read there blocks forever.  Streams whose bytes end exactly where the receive buffer (4096 bytes and
    its doublings) ends, and ordinary ones; the model answers the same stream ending in EOF, of which the first n outcomes count."""
    rng = ctx.rng
    streams = [st for st, _ in g.exact_fill_streams() if st.endswith(b"OK\n")]
    for cap in (4096, 8192, 16384, 32768):
        for d in (-1, 0, 1):
            pl = cap + d - len(b"binary: NNNNN\n\nOK\n")
            streams.append(b"binary: " + str(pl).encode().rjust(5, b"0") + b"\n" + bytes((i * 7) % 256 for i in range(pl)) + b"\nOK\n")
            streams.append(b"a: b\nOK\n" + b"k: " + b"v" * (cap + d - 8 - 3 - 1 - 3) + b"\nOK\n")
    for _ in range(10 if ctx.tier == "quick" else 200):
        streams.append(b"".join(g.enc_response(g.gen_response(rng)) for _ in range(rng.choice([1, 2, 3]))))
    out = []
    for st in streams:
        for seg in (g.seg_whole(st), g.seg_random(rng, st, maxlen=5000), [st[i:i + 4096] for i in range(0, len(st), 4096)]):
            for fl in ("b", "a"):
                out.append((fl, seg))
    return out


def run_idle(ctx):
    items = idle_cases(ctx)
    eof = [g.case_line("recv", fl, 0, "eof", seg) for fl, seg in items]
    model = ctx.run_model(eof) if ctx.model_ok else None
    if model is None:
        return [], []
    cases, want = [], []
    for (fl, seg), m in zip(items, model):
        outs = m.split(" | ")
        n = 0
        while n < len(outs) and outs[n].startswith("resp["):
            n += 1
        if n:
            cases.append(g.case_line("recv", fl, n, "idle", seg))
            want.append(" | ".join(outs[:n]))
    impl = ctx.run_impl(cases)
    fails = []
    for c, o, w in zip(cases, impl, want):
        if o != w:
            what = o
            if "PANIC" in o:
                try:
                    what = "PANIC " + unhexs(o.split(" ")[-1]).decode(errors="replace")
                except Exception:
                    pass
            fails.append(Failure(c, f"{describe(c)[:300]}: the peer sent {w.count('resp[')} complete response(s) and then stays silent (no end of stream); "
                                    f"receive must return each of them without reading further.\n  got      {what[:400]}\n  expected {w[:400]}", extra={"idle": w}))
    return cases, fails


def run(ctx, only=None):
    if only is not None and only and only[0].split(" ")[3] == "idle":
        impl = ctx.run_impl(only)
        bad = 0
        for c, o in zip(only, impl):
            print("case:", describe(c)[:400], "\nimpl:", o[:600])
            if "PANIC" in o or not all(x.startswith("resp[") for x in o.split(" | ")):
                bad += 1
                print(f"VIOLATION property=C09 replay=(this case) receive read past the complete responses of a silent peer (or failed): {o[:200]}")
        return 1 if bad else 0
    if only is not None:
        cases, expect = only, [None] * len(only)
    else:
        cases, expect = gen(ctx)
    impl, model, dis = run_cases(ctx, cases)
    fails = []
    idle = []
    if only is None:
        idle, ifails = run_idle(ctx)
        fails += ifails
    for c, out, exp in zip(cases, impl, expect):
        if "PANIC" in out:
            msg = out.split(" ")[-1]
            try:
                msg = unhexs(msg).decode(errors="replace")
            except Exception:
                pass
            fails.append(Failure(c, f"panic ({msg}) on {describe(c)[:500]}"))
            continue
        outs = out.split(" | ")
        if exp is not None and outs[0] != exp.split(" | ")[0]:
            fails.append(Failure(c, f"{describe(c)[:300]}: first outcome {outs[0][:200]}, the property demands {exp[:200]}"))
        # after the first non-response outcome the layer must keep answering with non-fabricated outcomes
        term = [o for o in outs if not o.startswith("resp[") and not o.startswith("connected:")]
        want = 1 + int(c.split(" ")[2])
        if c.startswith("recv") and len(term) != want and not out.startswith("connect:"):
            fails.append(Failure(c, f"expected {want} terminal outcomes (1 + {want - 1} further calls), got {len(term)}: {out[:300]}"))
    if only is not None:
        print_replay(cases, impl, model, fails)
    dist = {"cases": len(cases), "silent_peer_cases": len(idle), "edge_cases": len(EDGE) + len(EDGE_CONNECT),
            "first_outcome": {k: sum(1 for o in impl if o.split(" | ")[0].startswith(k)) for k in ("resp[", "eof", "ueof", "invalid", "io", "connect:", "connected:")}}
    nontrivial = set(cases)
    return finish(
        ctx, evaluations=len(cases) + len(idle), distinct_nontrivial=len(nontrivial) + len(idle),
        rule="the property's named edge cases with their demanded outcome; random protocol-flavoured bytes; generated streams with 1..4 "
             "flips/insertions/deletions/truncations; corrupted greetings; every case whole, randomly split and byte-at-a-time, both flavours, "
             "under catch_unwind with a read counter, receive called 3 more times after the first error (thorough: all strings of length <= 3 "
             "over 12 protocol bytes, all single-byte corruptions of 20 seed streams); complete responses followed by a SILENT peer (no end of "
             "stream: a read past them blocks forever and is reported), sizes ending exactly at 4096/8192/16384/32768 bytes and one off; every case is non-trivial, distinct = distinct case lines",
        samples=[describe(cases[0])[:300], describe(cases[len(cases) // 2])[:300]], distribution=dist,
        oracle_failures=fails, disagreements=dis,
    )


def replay(ctx, payload):
    return run(ctx, only=payload.get("cases", []))
