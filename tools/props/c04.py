"""C04 — subsystem-change notifications are delivered exactly once and in order."""
import looplib as L
from vlib import Failure, finish, hexs

COQ_FILES = L.LOOP_COQ_FILES + L.REFINE_COQ_FILES + L.CANCEL_COQ_FILES + L.MUTE_COQ_FILES


def N(name):
    return "N:" + hexs(name)


def corpus():
    e = L.spec("echo", "a")
    return [
        # D8 (fixed 83baf26): several changes reported in one idle reply
        (L.Sched(labels=["D0", N("player"), N("mixer"), "S*", "D0"] + L.flush(0), note="two changes in one reply (D8)"), ["player", "mixer"]),
        # D9 (fixed e1b6839): a request is taken after part of the idle reply was consumed
        (L.Sched(labels=["D0", "S*", N("database"), "D18", "i1:" + e, "D0", "S*", "D0"] + L.flush(1), note="request while the idle reply is half consumed (D9)"), ["database"]),
        (L.Sched(labels=["D0", "S*", N("database"), "D3", "i1:" + e, "D3", "D0", "S*", "D0"] + L.flush(1), note="request while the first line is half delivered"), ["database"]),
        # unknown names are preserved verbatim; changes while a request is in flight are reported on the next idle
        (L.Sched(labels=["D0", "S*", "i1:" + e, "S*", N("fingerprint"), N("Player"), "D0", "S*", "D0"] + L.flush(1), note="changes during a request; unknown names"), ["fingerprint", "Player"]),
        (L.Sched(labels=["D0", "S*", N("player"), "D0", "S*", N("player"), "D0", "S*", N("player"), "D1", "D1", "D0"] + L.flush(0), note="same subsystem three times"), ["player"] * 3),
        # names are the bytes between "changed: " and the line feed, whatever they are: carriage returns, blanks, case, non-ASCII
        (L.Sched(labels=["D0", "S*", N("input\r"), "D0", "S*", N("player\r"), N("a\rb"), "D0", "S*", N(" mixer"), N("mixer "), N("Mixer"), "D0"] + L.flush(0), note="names with carriage returns and blanks"),
         ["input\r", "player\r", "a\rb", " mixer", "mixer ", "Mixer"]),
        (L.Sched(labels=["D0", N("player"), N("player"), N("mixer"), N("player"), "S*", "D0", "S*", N("x"), N("x"), "D0"] + L.flush(0), note="the same name on consecutive lines of one reply"),
         ["player", "player", "mixer", "player", "x", "x"]),
    ] + [
        # an idle reply with other fields among the changed: lines (a newer server, a proxy): every changed: line still counts
        (L.Sched(labels=["D0", "S*", "G:" + hexs(body), "t200"], note="idle reply with foreign fields"), names_)
        for body, names_ in ((b"changed: player\npartition: default\nchanged: mixer\nchanged: output\nOK\n", ["player", "mixer", "output"]),
                             (b"partition: default\nchanged: player\nOK\n", ["player"]),
                             (b"changed: player\nChanged: mixer\nchanged: options\nOK\n", ["player", "options"]),
                             (b"changed: a\nx: changed: b\nchanged: c\nchanged: \nOK\n", ["a", "c", ""]))
    ] + [
        (L.Sched(labels=["D0", "S*", "G:" + hexs(b"changed: player\nfoo: bar\n"), "D0", "G:" + hexs(b"changed: mixer\nOK\n"), "t200"], note="the same, the reply in two pieces"), ["player", "mixer"]),
    ] + [
        # the idle reply arrives in three pieces and the request is issued between the second and the third
        (L.Sched(labels=["D0", "S*", N("player"), f"D{k}", "D1", "c1:" + e, "D0", "S*", "D0"] + L.flush(1), note=f"idle reply cut after {k} and {k + 1} bytes, request in between"), ["player"])
        for k in range(1, 18)
    ] + [
        # more changes in one reply / more unpolled events than any bounded queue would hold
        (L.Sched(labels=["D0"] + [N(L.SUBSYSTEMS[i % 14]) for i in range(5000)] + ["S*", "D0"] + L.flush(0), note="5000 changes in one idle reply"),
         [L.SUBSYSTEMS[i % 14] for i in range(5000)]),
        (L.Sched(labels=["D0", "S*", "q"] + sum([[N(L.SUBSYSTEMS[i % 14]), "D0", "S*"] for i in range(300)], []) + ["c1:" + e, "S*", "D0", "S*", "D0", "Q"] + L.flush(1),
                 note="300 notifications while the event stream is not polled, then a request"), [L.SUBSYSTEMS[i % 14] for i in range(300)]),
    ]


def gen(ctx):
    rng = ctx.rng
    items = corpus()
    n = 150 if ctx.tier == "quick" else 3000
    for _ in range(n):
        labels = ["D0"]
        names = []
        rid = 0
        for _ in range(rng.choice([6, 15, 40, 80])):
            r = rng.random()
            if r < 0.30:
                nm = rng.choice(L.SUBSYSTEMS) if rng.random() < 0.85 else rng.choice(["input\r", "a\rb", "player\r", " mixer", "Player", "x", "é", "stored_playlist "])
                names.append(nm)
                labels.append(N(nm))
            elif r < 0.45:
                rid += 1
                labels.append(L.gen_request(rng, rid, allow_fail=True, allow_bin=False)[0])
                if rng.random() < 0.3:
                    # the caller gives up at once (or a moment later): the changes reported in the reply to the cancelled idle,
                    # and every later one, must still arrive
                    if rng.random() < 0.5:
                        nm = rng.choice(L.SUBSYSTEMS)
                        names.append(nm)
                        labels.append(N(nm))
                    labels.append(f"x{rid}")
            elif r < 0.62:
                labels.append(rng.choice(["S", "S*", "S*"]))
            elif r < 0.90:
                labels.append(rng.choice(["D0", "D1", "D1", "D2", "D5", "D9", "D17", "D18", "D19"]))
            else:
                labels.append("t" + str(rng.choice([1, 50, 100, 300])))
        items.append((L.Sched(labels=labels + L.flush(rid), note="random"), names))
    # the caller of the request that cancelled the idle has gone when the reply to the cancellation (carrying changes) arrives
    e = L.spec("echo", "a")
    for pre in (["S*"], ["S*", N("player")], [N("player"), "S*"], ["S*", N("player"), "D5"]):
        for mid in ([], [N("mixer")], ["S"], [N("mixer"), N("output")]):
            pn = [L.SUBSYSTEMS[4]] if N("player") in pre else []
            mn = [n_ for n_ in ("mixer", "output") if N(n_) in mid]
            items.append((L.Sched(labels=["D0"] + pre + ["c1:" + e, "x1"] + mid + ["S*", "D0"] + L.flush(1), note="caller gone before the reply to noidle"), pn + mn))
            items.append((L.Sched(labels=["D0"] + pre + ["c1:" + e] + mid + ["x1", "S*", "D0"] + L.flush(1), note="caller gone before the reply to noidle"), pn + mn))
    # the transport stops taking writes right after an idle reply that reports changes: those changes were reported, so they are delivered
    for k in (1, 2, 5):
        nm = [L.SUBSYSTEMS[i % 14] for i in range(k)]
        items.append((L.Sched(labels=["D0", "S*", "D0", "w"] + [N(x) for x in nm[:1]] + ["D0", "t200"] + [N(x) for x in nm[1:]] + ["t200"], note="write fault after an idle reply with a change"), nm[:1]))
        items.append((L.Sched(labels=["D0"] + [N(x) for x in nm] + ["w", "S*", "D0", "t200", "t200"], note="write fault; the first idle reply reports changes"), nm))
        items.append((L.Sched(labels=["D0", "S*"] + [N(x) for x in nm[:1]] + ["D7", "w", "D0", "t200"], note="write fault while the idle reply is half delivered"), nm[:1]))
    # sessions inside the fragment of the refinement theorems (c04_exec_events)
    for _ in range(40 if ctx.tier == "quick" else 800):
        labels, info, nreq = L.gen_fragment_session(rng, rng.choice([6, 15, 40, 80]), cancels=rng.random() < 0.4)
        items.append((L.Sched(labels=labels + L.flush(nreq), note="fragment session"), list(info["notified"])))
    return items


# Subsystem names of real-world-impossible but protocol-legal length (beyond 64 KiB: longer than any buffer the connection starts
# with), the idle reply arriving in two parts with or without a request in between: implementation only (harness-internal server,
# paused clock), judged from the arguments alone.
def bigevt_cases(tier):
    out = []
    for n in (10, 5000, 65536, 70000, 200000) + ((1048576 + 5,) if tier == "thorough" else ()):
        for lines in (1, 2):
            total = 16 * (lines - 1) + 9 + n + 4
            for cut in sorted({1, 9, 16 * (lines - 1) + 9 + n // 2, 16 * (lines - 1) + 9 + n - 1, total - 4, total - 3, total - 1} | ({40000} if n > 50000 else set())):
                for req in (0, 1):
                    out.append(f"bigevt {n} {cut} {req} {lines}")
    return out


def judge_bigevt(case, out):
    _, n, cut, req, lines = case.split(" ")
    n, lines = int(n), int(lines)
    name = bytes(97 + i % 23 for i in range(n)).decode()
    ev = f'SubsystemChange(Other("{name}"))'
    if len(ev) > 120:
        ev = f"{ev[:40]}..(len={len(ev)},sum={sum(ev.encode())})"
    want_ev = ",".join(["SubsystemChange(Player)"] * (lines - 1) + [ev])
    want_res = "ok" if req == "1" else ""
    m = __import__("re").match(r"events=(.*) results=(.*) session=(.*)$", out)
    if not m:
        return f"no result: {out[:200]}"
    if m.group(1) != want_ev:
        return (f"the server reported {lines - 1} x player and one subsystem with a name of {n} bytes, the reply arriving in two parts (cut after {cut} bytes"
                f"{', a request issued in between' if req == '1' else ''}); events delivered: {m.group(1)[:300] or '(none)'}; expected {want_ev[:200]}")
    if m.group(2) != want_res:
        return f"the request issued while the long idle reply was arriving returned {m.group(2)[:200]}"
    return None


def run(ctx, only=None):
    if only is not None and only and isinstance(only[0], str):
        bad = 0
        for c, o in zip(only, ctx.run_impl(only)):
            print("case:", c, "\nimpl:", o[:600])
            m = judge_bigevt(c, o)
            if m:
                bad += 1
                print(f"VIOLATION property=C04 replay=(this case) {m}")
        return 1 if bad else 0
    items = only if only is not None else gen(ctx)
    scheds = [s for s, _ in items]
    results = L.run_schedules(ctx, scheds)
    dis = L.disagreements(results)
    fails = []
    nontrivial = 0
    total_events = 0
    for r, (s, names) in zip(results, items):
        t = L.Trace(r)
        if t.panic:
            fails.append(Failure(s.model_case(), "the client panicked: " + r["impl_raw"][:300]))
        if names is None:
            continue
        evs = [x for _, x in t.events() if x != "end" and not x.startswith("closed")]
        want = [hexs(n) for n in names]
        total_events += len(evs)
        if len(names) >= 2 and any(l[0] in "ic" for l in s.labels):
            nontrivial += 1
        if evs != want:
            dec = lambda l: [bytes.fromhex(x).decode(errors="replace") if x not in ("-",) and not x.startswith("closed") else x for x in l]
            kind = "lost" if len(evs) < len(want) else "invented or duplicated" if len(evs) > len(want) else "reordered or altered"
            fails.append(Failure(s.model_case(), f"the server reported {names} (in its idle replies, in this order); the event stream delivered {dec(evs)} ({kind})",
                                 extra={"impl_case": r["impl_case"], "names": names}))
    nties = 0
    nbig = 0
    if only is None:
        tf, nties = L.run_ties(ctx, 25, 500)
        fails += tf
        big = bigevt_cases(ctx.tier)
        nbig = len(big)
        for c, o in zip(big, ctx.run_impl(big)):
            m = judge_bigevt(c, o)
            if m:
                fails.append(Failure(c, m, extra={"bigevt": True}))
    if only is not None:
        for r in results:
            print("labels:", " ".join(r["sched"].labels)[:1500], "\nops   :", " ".join(r["ops"])[:1500], "\nimpl  :", r["impl_raw"][:2500], "\nmodel :", " ".join(r["model_segs"])[:2500])
    inside, why = L.fragment_membership(ctx, scheds)
    dist = {"in_refinement_fragment": inside, "outside_fragment_first_label_kind": why, "schedules": len(scheds), "changes_reported": sum(len(n) for _, n in items if n), "events_delivered": total_events,
            "requests": sum(sum(1 for l in s.labels if l[0] in "ic") for s in scheds),
            "partial_deliveries": sum(sum(1 for l in s.labels if l[0] == "D" and l != "D0") for s in scheds), "long_name_runs": nbig}
    return finish(
        ctx, evaluations=len(scheds) + nties + nbig, distinct_nontrivial=nontrivial,
        rule="random schedules mixing subsystem changes (known names, unknown names, case variants, repeats; several pending at once so that one reply "
             "carries several changed lines), requests issued at every stage of an idle reply's delivery (replies cut after 1,2,5,9,17,18,19.. bytes), "
             "server steps and clock advances, then a flush; oracle: the names delivered by ConnectionEvents::next equal, in order, the names the "
             "simulated server was told to report (each exactly once, verbatim); non-trivial = >= 2 changes with requests interleaved.  Plus, "
             "implementation only: subsystem names of 10 bytes .. 200 000 bytes (1 MiB thorough) as the first or second changed line, the reply arriving "
             "in two parts cut at 7-8 places, with and without a request issued in between (harness-internal server, paused clock)",
        samples=[" ".join(scheds[0].labels)[:300], " ".join(scheds[-1].labels)[:300]], distribution=dist, oracle_failures=fails, disagreements=dis,
    )


def replay(ctx, payload):
    if payload.get("extra", {}).get("tie"):
        return L.replay_tie(ctx, payload)
    if any(str(c).startswith("bigevt") for c in payload.get("cases", [])):
        return run(ctx, only=[c for c in payload["cases"] if c.startswith("bigevt")])
    items = []
    names = payload.get("extra", {}).get("names")
    for c in payload.get("cases", []):
        toks = c.split(" ")
        items.append((L.Sched(cspec=toks[1], conf=toks[2], labels=toks[3:]), names))
    return run(ctx, only=items)
