"""C19 — frames and responses behave as ordered collections of what the server sent."""
import itertools
import mpdgen as g
from vlib import Failure, compare, finish, hexs, unhexs

COQ_FILES = ["Bytes.v", "FrameModel.v", "FrameProofs.v"]

KEYS = ["a", "A", "b", "file", "File", "x", "fil", "fi", "ab", "aB", "AlbumArtist", "Album", "songid", "song"]


def wire_of(fields, binary):
    s = b"".join(k.encode() + b": " + v.encode() + b"\n" for k, v in fields)
    if binary is not None:
        s += b"binary: " + str(len(binary)).encode() + b"\n" + binary + b"\n"
    return s + b"OK\n"


def take(q, d):
    """One step of a double-ended iterator over the remaining items q: f/b = next/next_back, digit k = nth(k), letter A+k = nth_back(k)."""
    if d == "f":
        return q.pop(0) if q else None
    if d == "b":
        return q.pop() if q else None
    if d.isdigit():
        for _ in range(int(d)):
            if q:
                q.pop(0)
        return q.pop(0) if q else None
    for _ in range(ord(d) - 65):
        if q:
            q.pop()
    return q.pop() if q else None


def spec_run(fields, binary, ops):
    """Independent reference: the ordered multimap over the wire pairs."""
    l = list(fields)
    out = []
    sp = lambda p: "~" if p is None else f"{hexs(p[0])}:{hexs(p[1])}"
    so = lambda v: "~" if v is None else hexs(v)
    for op in ops:
        name, _, arg = op.partition(":")
        if name == "find":
            k = unhexs(arg).decode()
            out.append("v=" + so(next((v for kk, v in l if kk == k), None)))
        elif name == "get":
            k = unhexs(arg).decode()
            i = next((i for i, (kk, _) in enumerate(l) if kk == k), None)
            out.append("v=" + so(None if i is None else l.pop(i)[1]))
        elif name == "len":
            out.append(f"n={len(l)}")
        elif name == "empty":
            out.append(f"b={int(len(l) == 0 and binary is None)}")
        elif name == "hasbin":
            out.append(f"b={int(binary is not None)}")
        elif name == "bin":
            out.append("v=" + so(binary))
        elif name == "takebin":
            out.append("v=" + so(binary))
            binary = None
        elif name == "iter":
            q = list(l)
            items = []
            for d in arg:
                items.append(sp(take(q, d)))
            out.append("p=[" + ",".join(items) + "]")
        elif name == "into":
            q = list(l)
            items = []
            for d in arg:
                if d == "t":
                    items.append("B" + so(binary))
                    binary = None
                else:
                    items.append(sp(take(q, d)))
            out.append("m=[" + ",".join(items) + "]")
            break
    return " ; ".join(out)


def gen(ctx):
    rng = ctx.rng
    cases, expect = [], []

    def add_frame(fields, binary, ops):
        cases.append(" ".join(["frame", hexs(wire_of(fields, binary))] + ops))
        expect.append(spec_run(fields, binary, ops))

    n = 600 if ctx.tier == "quick" else 6000
    for _ in range(n):
        nf = rng.choice([0, 1, 2, 3, 5, 8, 12])
        # values are everything between ": " and the line feed, verbatim: carriage returns, blanks and separators at either end included
        fields = [(rng.choice(KEYS), rng.choice(["1", "2", "", "v w", "é", " ", "\r", "a\rb", ": ", "\t"]) + str(i) + rng.choice(["", "", "", "\r", " ", "\r\r", ": ", "\t"]))
                  for i in range(nf)]
        binary = rng.choice([None, None, b"", b"xyz\n"])
        ops = []
        for _ in range(rng.choice([1, 3, 6, 12, 40])):
            r = rng.random()
            k = hexs(rng.choice(KEYS + ["zz"]))
            if r < 0.2:
                ops.append("find:" + k)
            elif r < 0.45:
                ops.append("get:" + k)
            elif r < 0.55:
                ops.append(rng.choice(["len", "empty", "hasbin", "bin"]))
            elif r < 0.6:
                ops.append("takebin")
            else:
                ops.append("iter:" + "".join(rng.choice("fbfbfb0123AB") for _ in range(rng.choice([1, 2, nf, nf + 2]))))
        if rng.random() < 0.6:
            ops.append("into:" + "".join(rng.choice("fbbftfb012AC") for _ in range(rng.choice([1, nf, nf + 3]))))
        add_frame(fields, binary, ops)
    # large frames (beyond any small-vector or compaction threshold) with many removals in arbitrary order
    for _ in range(30 if ctx.tier == "quick" else 400):
        nf = rng.choice([31, 32, 33, 40, 64, 100])
        keys = ["k" + chr(97 + i // 26) + chr(97 + i % 26) for i in range(nf)]
        fields = [(k, str(i)) for i, k in enumerate(keys)]
        order = list(keys)
        mode = rng.choice(["back", "random", "every-other", "front"])
        if mode == "back":
            order.reverse()
        elif mode == "random":
            rng.shuffle(order)
        elif mode == "every-other":
            order = keys[::2] + keys[1::2]
        ops = []
        for k in order[: rng.choice([nf // 2, nf // 2 + 2, nf - 1, nf])]:
            ops.append("get:" + hexs(k))
            if rng.random() < 0.15:
                ops.append(rng.choice(["len", "empty", "iter:fb", "find:" + hexs(rng.choice(keys))]))
        ops += ["len", "iter:" + "f" * 5 + "b" * 5, "into:" + "fb" * 8]
        add_frame(fields, rng.choice([None, b"x"]), ops)
    if ctx.tier == "thorough":
        # exhaustive small scope: all frames with <= 3 fields over 3 keys, all op sequences of length <= 4 over a small op alphabet
        alpha = ["find:" + hexs("a"), "get:" + hexs("a"), "get:" + hexs("A"), "len", "iter:fb", "iter:bbf", "takebin"]
        for nf in range(0, 4):
            for keys in itertools.product(["a", "A", "b"], repeat=nf):
                fields = [(k, str(i)) for i, k in enumerate(keys)]
                for ln in range(1, 5):
                    for ops in itertools.product(alpha, repeat=ln):
                        add_frame(fields, b"q", list(ops) + ["into:fbtf"])
    # responses
    m = 200 if ctx.tier == "quick" else 2000
    for _ in range(m):
        nfr = rng.choice([0, 1, 2, 3, 6])
        err = rng.random() < 0.5
        wire = b""
        frames = []
        for i in range(nfr):
            f = [(rng.choice(KEYS), str(i))] * rng.choice([0, 1, 2])
            frames.append(f)
            wire += b"".join(k.encode() + b": " + v.encode() + b"\n" for k, v in f) + b"list_OK\n"
        if err and rng.random() < 0.5:
            # what the failing command printed before it failed belongs to no frame
            wire += b"".join(k.encode() + b": " + v.encode() + b"\n" for k, v in [(rng.choice(KEYS), "p" + str(j)) for j in range(rng.choice([1, 2, 5]))])
            if rng.random() < 0.3:
                wire += b"binary: 3\nabc\n"
        wire += b"ACK [7@1] {x} m\n" if err else b"OK\n"
        if nfr == 0 and not err:
            frames = [[]]
        dirs = "".join(rng.choice("fbfb0123AB") for _ in range(rng.choice([1, nfr + 1, nfr + 3])))
        seq = [("F", f) for f in frames] + ([("E", 7)] if err else [])
        items = []
        q = list(seq)
        for d in dirs:
            sz = len(q)
            it = take(q, d)
            if it is None:
                s = "~"
            elif it[0] == "E":
                s = "E7"
            else:
                s = "F(" + ",".join(f"{hexs(k)}:{hexs(v)}" for k, v in it[1]) + ")bin=~"
            items.append(f"{sz}:{s}")
        for which in ("ref", "own"):
            cases.append(f"resp {hexs(wire)} {which} {dirs}")
            expect.append("[" + ",".join(items) + "]")
    return cases, expect


def _fr(fields, binary=None):
    return {"fields": fields, "bin": binary, "binpos": (len(fields) if binary is not None else None)}


def interrupted(ctx):
    """A response is the frames the server completed, in order, then its error — also when the receive that collects it was interrupted
    (a read that would block, was interrupted or timed out) after any line of it and then called again."""
    import connlib
    lists = [
        {"form": "list", "frames": [_fr([("a", "1")]), _fr([("b", "2"), ("c", "3")]), _fr([("d", "4")])], "error": None, "partial": None},
        {"form": "list", "frames": [_fr([("a", "1")]), _fr([], b"xyz"), _fr([("b", "2")])], "error": (50, 3, "play", "No such song"), "partial": None},
        {"form": "list", "frames": [_fr([]), _fr([("x", "y"), ("x", "y")])], "error": None, "partial": None},
        {"form": "single", "frames": [_fr([("a", "1"), ("b", "2"), ("a", "3")])], "error": None, "partial": None},
    ]
    nxt = {"form": "single", "frames": [_fr([("volume", "5")])], "error": None, "partial": None}
    out = []
    for r in lists:
        out += connlib.interrupted_stream_cases([r, nxt])
    return out


def run(ctx, only=None):
    if only is not None:
        cases, expect = only["cases"], only["expect"]
    else:
        cases, expect = gen(ctx)
        for c, e in interrupted(ctx):
            cases.append(c)
            expect.append(e)
    impl = ctx.run_impl(cases)
    model = ctx.run_model(cases) if ctx.model_ok else None
    dis = compare(cases, impl, model) if model is not None else []
    fails = []
    for c, out, exp in zip(cases, impl, expect):
        if exp is not None and out != exp and c.startswith("recv "):
            import connlib
            fails.append(Failure(c, f"a response collected by a receive that was interrupted and called again: {connlib.describe(c)[:300]}\n  frames in order, then the error: {exp[:600]}\n  implementation:                  {out[:600]}", extra={"expect": exp}))
        elif exp is not None and out != exp:
            fails.append(Failure(c, f"operation sequence {c.split(' ')[2:]} on wire {unhexs(c.split(' ')[1])!r}\n  ordered-multimap spec: {exp[:600]}\n  implementation:        {out[:600]}", extra={"expect": exp}))
    if only is not None:
        for i, c in enumerate(cases):
            print("case :", c[:800], "\nimpl :", impl[i][:800])
            if model is not None:
                print("model:", model[i][:800])
            print("spec :", (expect[i] or "")[:800])
    dist = {"frame_cases": sum(1 for c in cases if c.startswith("frame")), "response_cases": sum(1 for c in cases if c.startswith("resp")),
            "interrupted_receives": sum(1 for c in cases if c.startswith("recv")),
            "ops_total": sum(len(c.split(" ")) - 2 for c in cases if c.startswith("frame")),
            "with_get_before_iteration": sum(1 for c in cases if " get:" in c and ("iter:" in c or "into:" in c))}
    nontrivial = {c for c in cases if (" get:" in c and ("iter:" in c or "into:" in c)) or c.startswith("resp")}
    return finish(
        ctx, evaluations=len(cases), distinct_nontrivial=len(nontrivial),
        rule="real frames obtained by pushing generated wire bytes through the real parser (0..12 fields, duplicate keys, keys differing only in "
             "case, with/without payload), random sequences of <= 40 find/get/len/is_empty/has_binary/binary/take_binary/borrowed iteration "
             "(mixing next and next_back, both ways of obtaining the iterator)/owned iteration with take_binary; responses of 0..6 frames with/without "
             "error driven from both ends through FramesRef and Frames with size_hint and len() before every step (thorough: ALL op sequences of "
             "length <= 4 over a 7-op alphabet on ALL frames of <= 3 fields over 3 keys); non-trivial = a removal precedes an iteration, or a response case",
        samples=[cases[0][:300], cases[-1][:300]], distribution=dist, oracle_failures=fails, disagreements=dis,
        exhaustive=False,
    )


def replay(ctx, payload):
    cases = payload.get("cases", [])
    exp = payload.get("extra", {}).get("expect")
    return run(ctx, only={"cases": cases, "expect": [exp for _ in cases]})
