"""C12 — typed response conversion is total: never panics on any server reply.

Mostly-plausible replies (the right field names for the command carrying boundary values, unexpected
tags, repeated and missing fields), typed command lists (Vec and tuples of arity 1..8) answered
with N-1, N and N+1 frames, and a malformed stream (byte flips / truncations / random bytes) are
pushed through the real parser and converted by the real `Command::response` /
`CommandList::responses` of EVERY predefined command; the result is then read through every public
accessor and iterator, all under catch_unwind.  Correspondence with the Coq model (song listings
print `skip-model`: they are modelled by C14).  Oracle: the implementation never prints PANIC."""
import typedlib as t
from typedlib import list_case, typed_case, wire
from vlib import Failure, finish, unhexs

COQ_FILES = ["Bytes.v", "ParserModel.v", "FrameModel.v", "FrameProofs.v", "TagModel.v", "TagProofs.v", "TypedModel.v", "TypedSpec.v", "TypedProofs.v", "SongStd.v", "SongModel.v", "SongProofs.v"]

NUMS = ["0", "1", "255", "256", "65536", "4294967295", "4294967296", str(2 ** 63), str(2 ** 64 - 1), str(2 ** 64), str(2 ** 64 + 1),
        "18446744073709550592", "18446744073709549568", "1e300", "1e308", "1e309", "1e19", "1.8446744073709552e19", "inf", "-inf", "+inf",
        "Infinity", "NaN", "nan", "-nan", "-0", "-0.0", "-0e9", "1e-320", "-1e-320", "-1e-400", "4e-324", "-2e-324", "9" * 400,
        "0." + "0" * 400 + "1", "1" + "0" * 400 + "e-400", "1e99999999999999999999", "1e-99999999999999999999", "-1", "+5", "1.", ".5", ".",
        "", " ", "1 ", "0x10", "1_0", "12.345", "0.0005", "4194303.999999999", "4194304.000000001", "9007199254740993",
        # seconds at the edge of u64 with fractions that round up into the next second, and long fractions elsewhere
        "18446744073709551615.9999999995", "18446744073709551615.999999999", "18446744073709551615.9999999994", "18446744073709551615.5",
        "18446744073709551615.0", "18446744073709551614.9999999999", "18446744073709551615." + "9" * 30, "0.9999999995", "0.99999999949",
        "1.0000000005", "4294967295.9999999999", "4294967295.9999999995", "9223372036854775807.9999999999", "0." + "9" * 40, "1." + "0" * 40,
        "00000000000000000000001.5", "1.5e0", "1.5E0", "15e-1", "18446744073709551615e0", "1.8446744073709551615e19"]
WORDS = ["play", "pause", "stop", "oneshot", "off", "track", "album", "auto", "abc", "a=b", "=", "==", "a=", "=b", "1:2", "3:", ":4",
         "1-2", "0-", "-5", "0.5-", "1.5-18446744073709551616", "-", "18446744073709551616-", "nan-nan", "é", "日本", "x" * 300,
         "2024-01-02T03:04:05Z", "9999-99-99T99:99:99Z", "2024-01-02T03:04:05+25:00", "2024-02-30T00:00:00Z", "2024-01-02T03:04:60Z",
         "+2024-01-02T03:04:05Z", "2024-01-02T03:04:05.999999999999999999999Z", "20240-01-02T03:04:05Z", "44100:16:2", "Artist", "artist",
         "MUSICBRAINZ_TRACKID", "a b", "a-b_c",
         # name=value texts whose name is not ASCII (a split at the '=' must count bytes the way it cuts them)
         "é=5", "größe=3", "评分=1", "\U0001F3B5=1", "é=", "=é", "aé=bé", "é==", "日本語=日本語", "a\u0301=1", "ß=ß=ß"]
# long invalid values with a multi-byte character at every offset around the sizes at which an error message might be cut
LONG = ["x" * pad + ch + "x" * 3 for pad in list(range(250, 260)) + [126, 127, 509, 510, 511, 1022, 1023] for ch in ("é", "日", "\U0001F600")] + ["é" * 300]
VALUES = NUMS + WORDS + LONG
STATUS_KEYS = [f for f, _, _ in t.STATUS_FIELDS] + ["Time", "update_job"]
SONG_KEYS = ["file", "directory", "playlist", "Last-Modified", "Format", "duration", "Time", "Range", "Pos", "Id", "Prio", "Artist", "Title",
             "Album", "AlbumArtist", "Track", "Disc", "Genre", "Date", "x-custom", "MUSICBRAINZ_TRACKID"]
TAGKEYS = ["Artist", "Album", "Title", "AlbumArtist", "Genre", "artist", "ALBUM", "x", "Foo-Bar", "songs", "file"]
import mpdgen as _g
# keys the protocol parser must refuse (digits, non-ASCII letters of every kind): if one gets through, Tag::try_from(..).unwrap() is next
ODD_KEYS = ["x", "X_y", "a-b", "Z", "OKx", "binaryx", "Binary", "a1", "_", "-"] + \
           [pre + ch + post for ch in _g.TRICKY_CHARS for pre, post in (("", ""), ("Cr", "pe"), ("Album", ""))]

# command -> (params choices, plausible keys)
COMMANDS = {
    "Status": ([None], STATUS_KEYS), "Stats": ([None], t.STATS_FIELDS), "ReplayGainStatus": ([None], ["replay_gain_mode"]),
    "Count": ([None], ["songs", "playtime"]),
    "CountGrouped": (["n:Album", "n:Artist", "o:" + b"album".hex(), "o:" + b"x".hex()], ["Album", "Artist", "album", "x", "songs", "playtime"]),
    "List": (["n:Title", "n:Title+n:Album", "n:Title+n:Album+n:AlbumArtist", "n:Artist+n:Album+n:Genre+n:Date", "n:Album+n:Album",
              "o:" + b"x".hex() + "+n:Album", "n:Title+o:" + b"artist".hex()], TAGKEYS),
    "GetPlaylists": ([None], ["playlist", "Last-Modified"]), "GetEnabledTagTypes": ([None], ["tagtype"]),
    "Add": ([None], ["Id"]), "Update": ([None], ["updating_db"]), "Rescan": ([None], ["updating_db"]),
    "StickerGet": ([None], ["sticker"]), "StickerList": ([None], ["sticker"]), "StickerFind": ([None], ["file", "sticker"]),
    "ReadChannelMessages": ([None], ["channel", "message"]), "ListChannels": ([None], ["channel"]),
    "AlbumArt": ([None], ["size", "type"]), "AlbumArtEmbedded": ([None], ["size", "type"]),
    "Queue": ([None], SONG_KEYS), "QueueRange": ([None], SONG_KEYS), "CurrentSong": ([None], SONG_KEYS), "Find": ([None], SONG_KEYS),
    "GetPlaylist": ([None], SONG_KEYS), "ListAllIn": ([None], SONG_KEYS),
}
UNIT = ["ClearQueue", "Next", "Ping", "Previous", "Stop", "ClearPlaylist", "DeletePlaylist", "SaveQueueAsPlaylist", "SetConsume", "SetPause",
        "SetRandom", "SetRepeat", "SubscribeToChannel", "UnsubscribeFromChannel", "SetVolume", "SetSingle", "SetReplayGainMode", "Crossfade",
        "SeekTo", "Seek", "Shuffle", "Play", "Delete", "Move", "RenamePlaylist", "LoadPlaylist", "AddToPlaylist", "RemoveFromPlaylist",
        "MoveInPlaylist", "SetBinaryLimit", "TagTypes", "StickerSet", "StickerDelete", "SendChannelMessage"]
for u in UNIT:
    COMMANDS[u] = ([None], ["x"])

# a valid reply per command (the mutation base)
GOOD = {
    "Status": [("volume", "50"), ("repeat", "1"), ("random", "0"), ("single", "0"), ("consume", "0"), ("playlist", "2"), ("playlistlength", "3"),
               ("state", "play"), ("song", "1"), ("songid", "2"), ("elapsed", "1.500"), ("bitrate", "320"), ("duration", "200.000"),
               ("nextsong", "2"), ("nextsongid", "3")],
    "Stats": [(f, "5") for f in t.STATS_FIELDS], "ReplayGainStatus": [("replay_gain_mode", "off")],
    "Count": [("songs", "1"), ("playtime", "2")],
    "CountGrouped": [("Album", "a"), ("songs", "1"), ("playtime", "2"), ("Album", "b"), ("playtime", "3"), ("songs", "4")],
    "List": [("AlbumArtist", "Foo"), ("Album", "Bar"), ("Title", "T1"), ("Title", "T2"), ("Album", "Quz"), ("Title", "T3")],
    "GetPlaylists": [("playlist", "a"), ("Last-Modified", "2024-01-02T03:04:05Z")], "GetEnabledTagTypes": [("tagtype", "Artist"), ("tagtype", "Album")],
    "Add": [("Id", "3")], "Update": [("updating_db", "3")], "Rescan": [("updating_db", "3")],
    "StickerGet": [("sticker", "a=b")], "StickerList": [("sticker", "a=b"), ("sticker", "c=d")],
    "StickerFind": [("file", "f"), ("sticker", "a=b"), ("file", "g"), ("sticker", "a=c")],
    "ReadChannelMessages": [("channel", "c"), ("message", "m")], "ListChannels": [("channel", "c")],
    "AlbumArt": [("size", "10"), ("type", "image/png")], "AlbumArtEmbedded": [("size", "10"), ("type", "image/png")],
}
SONG = [("file", "a.mp3"), ("Last-Modified", "2024-01-02T03:04:05Z"), ("Format", "44100:16:2"), ("Artist", "x"), ("Title", "t"), ("Track", "3"),
        ("Disc", "1"), ("Time", "200"), ("duration", "200.000"), ("Range", "1.5-3.5"), ("Pos", "0"), ("Id", "1"), ("Prio", "2"),
        ("file", "b.mp3"), ("Pos", "1"), ("Id", "2")]
for c in ("Queue", "QueueRange", "CurrentSong", "Find", "GetPlaylist", "ListAllIn"):
    GOOD[c] = SONG

CORPUS = [
    # fix 9b21408: 2^64 seconds passed the range guard and panicked in Duration::from_secs_f64
    typed_case("Status", None, wire([("state", "stop"), ("repeat", "0"), ("random", "0"), ("consume", "0"), ("duration", "18446744073709551616")])),
    typed_case("Status", None, wire([("state", "stop"), ("repeat", "0"), ("random", "0"), ("consume", "0"), ("elapsed", "18446744073709551616")])),
    typed_case("Stats", None, wire([(f, "18446744073709551616" if f == "uptime" else "5") for f in t.STATS_FIELDS])),
    typed_case("Count", None, wire([("songs", "1"), ("playtime", "18446744073709551616")])),
    typed_case("CountGrouped", "n:Album", wire([("Album", "a"), ("songs", "1"), ("playtime", "18446744073709551616")])),
    typed_case("Queue", None, wire([("file", "a"), ("duration", "18446744073709551616")])),
    typed_case("Find", None, wire([("file", "a"), ("Time", "18446744073709551616")])),
    typed_case("Queue", None, wire([("file", "a"), ("Range", "0-18446744073709551616")])),
    # relations BETWEEN fields that no decoder is entitled to assume: a range that ends before it starts, alone and beside
    # a duration / Time; a position beyond the length; elapsed beyond duration
    *[typed_case(c, None, wire([("file", "a.cue/track1"), ("Range", r)] + extra + [("Pos", "0"), ("Id", "1")]))
      for c in ("Queue", "QueueRange", "CurrentSong", "Find", "GetPlaylist", "ListAllIn")
      for r in ("35.500-10.000", "1-0", "0.001-0", "18446744073709551615-0", "5-5", "10-")
      for extra in ([], [("duration", "3.000")], [("Time", "3")])],
    typed_case("Status", None, wire([("state", "play"), ("repeat", "0"), ("random", "0"), ("consume", "0"), ("elapsed", "500.5"), ("duration", "3.000"),
                                     ("song", "7"), ("playlistlength", "2"), ("nextsong", "9")])),
    # fix 18ee26e: grouped list iterator unwrapped the position of a field that is no grouping tag
    typed_case("List", "n:Title+n:Album", wire([("Album", "a"), ("Artist", "x"), ("Title", "t")])),
    typed_case("List", "n:Title+n:Album+n:AlbumArtist", wire([("Genre", "g"), ("Title", "t")])),
    # fix 1288aae: typed lists panicked when the frame count differs from the command count
    list_case("tuple", ["Ping", "Ping"], b"OK\n"),
    list_case("vec", ["Ping", "Ping"], b"list_OK\nOK\n"),
    list_case("vec", ["Status"], wire(GOOD["Status"], end=b"list_OK\n") * 2 + b"OK\n"),
    list_case("tuple", ["Status", "Stats", "Ping"], wire(GOOD["Status"], end=b"list_OK\n") + b"OK\n"),
]


def extra_builds(ctx):
    """the other configuration of the crate: feature `chrono` off (Timestamp keeps the raw text only)"""
    import os
    import vlib
    target = vlib.TARGET + "_nochrono"
    ctx.nochrono_bin = None
    n_before = len(ctx.broken)
    if vlib.step_harness(ctx, features="", target=target):
        ctx.nochrono_bin = os.path.join(vlib.CACHE, target, "debug", "verif_harness")
    else:
        # not a broken tie of the default configuration: report as a note only
        del ctx.broken[n_before:]
        ctx.notes.append("the harness did not build with feature chrono off; only the default configuration was exercised")


def gen_fields(rng, ident):
    params, keys = COMMANDS[ident]
    base = list(GOOD.get(ident, []))
    r = rng.random()
    if r < 0.15:
        fields = base
    elif r < 0.65:
        # mutate the valid reply: boundary values, dropped / repeated / foreign fields
        fields = base
        for _ in range(rng.choice([1, 1, 2, 4])):
            m = rng.random()
            if fields and m < 0.45:
                i = rng.randrange(len(fields))
                fields[i] = (fields[i][0], rng.choice(VALUES))
            elif fields and m < 0.6:
                del fields[rng.randrange(len(fields))]
            elif fields and m < 0.75:
                fields.insert(rng.randrange(len(fields) + 1), rng.choice(fields))
            elif m < 0.9:
                fields.insert(rng.randrange(len(fields) + 1), (rng.choice(keys), rng.choice(VALUES)))
            else:
                fields.insert(rng.randrange(len(fields) + 1), (rng.choice(ODD_KEYS + TAGKEYS), rng.choice(VALUES)))
    else:
        fields = [(rng.choice(keys if rng.random() < 0.85 else ODD_KEYS + SONG_KEYS), rng.choice(VALUES))
                  for _ in range(rng.choice([0, 1, 2, 3, 5, 9, 20]))]
    return rng.choice(params), fields


def spec_of(ident, params):
    return ident if params is None else f"{ident}/{params}"


def gen(ctx):
    rng = ctx.rng
    cases = list(CORPUS)
    dist = {"corpus": len(CORPUS)}
    thorough = ctx.tier == "thorough"
    idents = sorted(COMMANDS)
    typed_idents = [c for c in idents if c not in UNIT]
    per = 45 if not thorough else 900
    for ident in idents:
        for _ in range(per if ident not in UNIT else 2):
            params, fields = gen_fields(rng, ident)
            binary = None
            if ident.startswith("AlbumArt") or rng.random() < 0.03:
                binary = rng.choice([None, b"", b"abc", b"OK\n", bytes(rng.randrange(256) for _ in range(40))])
            cases.append(typed_case(ident, params, wire(fields, binary)))
            dist["typed"] = dist.get("typed", 0) + 1
    # every value of the pool through every duration / integer / enum / timestamp reader once
    for v in VALUES:
        for ident, fields in (("Status", [("state", "stop"), ("repeat", "0"), ("random", "0"), ("consume", "0"), ("elapsed", v), ("xfade", v)]),
                              ("Status", [("state", v), ("repeat", v), ("random", "0"), ("consume", "0")]),
                              ("Status", [("state", "stop"), ("repeat", "0"), ("random", "0"), ("consume", "0"), ("Time", v), ("volume", v)]),
                              ("Count", [("songs", v), ("playtime", v)]), ("Count", [("songs", "1"), ("playtime", v)]),
                              ("GetPlaylists", [("playlist", "p"), ("Last-Modified", v)]),
                              ("Queue", [("file", "f"), ("Range", v), ("Prio", v)]), ("Queue", [("file", "f"), ("duration", v)]),
                              ("Find", [("file", "f"), ("Last-Modified", v)]), ("GetEnabledTagTypes", [("tagtype", v)]),
                              # free-text tags that accessors interpret (Song::number reads Track / Disc): every value, alone and after a first one
                              ("Queue", [("file", "f"), ("Track", v), ("Disc", v)]), ("Find", [("file", "f"), ("Disc", "1"), ("Disc", v), ("Track", v), ("Track", "2")]),
                              ("CurrentSong", [("file", "f"), ("Track", v + "/12"), ("Disc", v + "/" + v)]),
                              # entry-start lines with every value (an empty url is 'no song in progress' for the builder)
                              ("Queue", [("file", v)]), ("CurrentSong", [("file", v), ("Title", "t")]), ("Find", [("file", "a"), ("file", v), ("file", "b")]),
                              ("ListAllIn", [("directory", v), ("file", v), ("playlist", v), ("Last-Modified", "2024-01-02T03:04:05Z")]),
                              ("GetPlaylist", [("file", v), ("directory", "d"), ("file", v)]),
                              ("StickerGet", [("sticker", v)]), ("AlbumArt", [("size", v)])):
            cases.append(typed_case(ident, None, wire(fields, b"x" if ident == "AlbumArt" else None)))
            dist["value-sweep"] = dist.get("value-sweep", 0) + 1
    # every one-edit neighbour of every valid reply: a line repeated right after itself, a line repeated at the end, a line dropped,
    # two neighbouring lines swapped, a foreign line inserted before each line
    for ident, base in GOOD.items():
        params = COMMANDS[ident][0][0] if ident in COMMANDS else None
        if ident == "CountGrouped":
            params = "n:Album"
        if ident == "List":
            continue          # its parameters decide the grouping: covered by the list sweep below
        for i in range(len(base)):
            edits = [base[:i + 1] + [base[i]] + base[i + 1:], base + [base[i]], base[:i] + base[i + 1:], base[:i] + [("x-foreign", "1")] + base[i:]]
            if i + 1 < len(base):
                edits.append(base[:i] + [base[i + 1], base[i]] + base[i + 2:])
            for fields in edits:
                cases.append(typed_case(ident, params, wire(fields, b"x" if ident in ("AlbumArt", "AlbumArtEmbedded") else None)))
                dist["one-edit"] = dist.get("one-edit", 0) + 1
    # values with the exact SHAPE (and byte length) of a valid one in which a multi-byte character takes the place of 2, 3 or 4 ASCII
    # characters at every position — what a fixed-offset fast path slices through — or of one character (one byte longer)
    def shaped(valid):
        out = []
        for i in range(len(valid)):
            for ch in ("\u00e9", "\u65e5", "\U0001F600"):
                w = len(ch.encode())
                if i + w <= len(valid):
                    out.append(valid[:i] + ch + valid[i + w:])
            out.append(valid[:i] + "\u00e9" + valid[i + 1:])
        return out
    for valid, sweeps in (("2024-01-02T03:04:05Z", [("GetPlaylists", "Last-Modified", [("playlist", "p")]), ("Find", "Last-Modified", [("file", "f")])]),
                          ("2024-01-02T03:04:05+01:00", [("ListAllIn", "Last-Modified", [("file", "f")])]),
                          ("123.456", [("Queue", "duration", [("file", "f")]), ("Status", "elapsed", [("state", "stop"), ("repeat", "0"), ("random", "0"), ("consume", "0")])]),
                          ("10.500-20.250", [("Queue", "Range", [("file", "f")])]),
                          ("44100:16:2", [("CurrentSong", "Format", [("file", "f")])])):
        for v in shaped(valid):
            for ident, key, pre in sweeps:
                cases.append(typed_case(ident, None, wire(pre + [(key, v)], None)))
                dist["shape-sweep"] = dist.get("shape-sweep", 0) + 1
    for k in ODD_KEYS:
        for ident, params, fields in (("Queue", None, [("file", "a.flac"), (k, "x")]), ("ListAllIn", None, [("file", "a.flac"), (k, "x"), ("directory", "d")]),
                                      ("List", "n:Title+n:Album", [("Album", "x"), (k, "y"), ("Title", "z")]), ("List", "n:Title", [(k, "y")]),
                                      ("CurrentSong", None, [(k, "x"), ("file", "a")]), ("Status", None, list(GOOD["Status"]) + [(k, "1")])):
            cases.append(typed_case(ident, params, wire(fields)))
            dist["odd-keys"] = dist.get("odd-keys", 0) + 1
    # list / count replies whose keys are the requested catch-all tags in ANOTHER letter case (the server echoes its own spelling), as the
    # primary tag, as a grouping tag, among known tags: grouped_values / values must cope, whatever they make of the lines
    for req, echo in (("mood", "Mood"), ("Mood", "mood"), ("MOOD", "mood"), ("x-y", "X-Y"), ("album", "Album"), ("ALBUM", "album")):
        o = "o:" + req.encode().hex()
        for params, fields in ((o + "+n:Album", [("Album", "A"), (echo, "happy"), ("Album", "B"), (echo, "sad")]),
                               ("n:Title+" + o, [(echo, "happy"), ("Title", "t1"), ("Title", "t2"), (echo, "sad"), ("Title", "t3")]),
                               (o + "+" + o, [(echo, "a"), (echo, "b")]), (o, [(echo, "v1"), (req, "v2"), (echo.upper(), "v3")]),
                               ("n:Album+" + o + "+n:Artist", [("Artist", "r"), (echo, "m"), ("Album", "a1"), ("Album", "a2"), (req, "m2"), ("Album", "a3")])):
            cases.append(typed_case("List", params, wire(fields)))
            dist["list-case-echo"] = dist.get("list-case-echo", 0) + 1
        cases.append(typed_case("CountGrouped", o, wire([(echo, "A"), ("songs", "1"), ("playtime", "2"), (req, "B"), ("songs", "3"), ("playtime", "4")])))
    # typed lists: Vec and tuples 1..8, N-1 / N / N+1 frames
    for _ in range(260 if not thorough else 4000):
        shape = rng.choice(["vec", "tuple", "tuple"])
        n = rng.choice([0, 1, 2, 3, 5]) if shape == "vec" else rng.randrange(1, 9)
        if shape == "vec":
            ident = rng.choice(typed_idents + ["Ping"])
            params = rng.choice(COMMANDS[ident][0])
            cmds = [(ident, params)] * n
        else:
            cmds = []
            for _ in range(n):
                ident = rng.choice(typed_idents + ["Ping", "Next"])
                cmds.append((ident, rng.choice(COMMANDS[ident][0])))
        nframes = max(0, n + rng.choice([-1, 0, 0, 0, 1]))
        w = b""
        for i in range(nframes):
            ident = cmds[i][0] if i < len(cmds) else "Ping"
            _, fields = (None, list(GOOD.get(ident, []))) if rng.random() < 0.6 else gen_fields(rng, ident)
            w += wire(fields, end=b"list_OK\n")
        w += b"OK\n" if rng.random() < 0.93 else b"ACK [5@1] {x} boom\n"
        cases.append(list_case(shape, [spec_of(i, p) for i, p in cmds], w))
        dist["lists"] = dist.get("lists", 0) + 1
    # malformed stream
    base_cases = [c for c in cases if c.startswith("typed ")]
    for _ in range(300 if not thorough else 5000):
        toks = rng.choice(base_cases).split(" ")
        wb = bytearray(unhexs(toks[3]))
        for _ in range(rng.choice([1, 1, 2, 5])):
            m = rng.random()
            if wb and m < 0.4:
                wb[rng.randrange(len(wb))] = rng.choice([10, 58, 32, 0, 255, 0xC3, 0x80, 79, 75, rng.randrange(256)])
            elif wb and m < 0.6:
                del wb[rng.randrange(len(wb))]
            elif m < 0.8:
                wb.insert(rng.randrange(len(wb) + 1), rng.choice([10, 58, 32, 0, 255, 0xE2, 65]))
            elif wb:
                del wb[rng.randrange(len(wb)):]
        cases.append(" ".join(toks[:3] + [t.hexs(bytes(wb))]))
        dist["malformed"] = dist.get("malformed", 0) + 1
    for _ in range(60):
        raw = bytes(rng.choice([10, 58, 32, 79, 75, 65, 97, 48, rng.randrange(256)]) for _ in range(rng.choice([0, 3, 20, 100])))
        cases.append(typed_case(rng.choice(typed_idents), None, raw))
        dist["malformed"] = dist.get("malformed", 0) + 1
    return cases, dist


def run(ctx, only=None):
    if only is not None:
        cases, dist = only["cases"], {}
    else:
        cases, dist = gen(ctx)
    impl = ctx.run_impl(cases)
    model = ctx.run_model(cases) if ctx.model_ok else None
    dis = t.compare(cases, impl, model) if model is not None else []
    fails = []
    for c, out in zip(cases, impl):
        if "PANIC" in out:
            toks = c.split(" ")
            fails.append(Failure(c, f"converting the reply {unhexs(toks[3])!r} into the typed response of {toks[1]} {toks[2]} panicked "
                                    f"(expected a value or a typed-response error)"))
    fails.sort(key=lambda f: len(f.case))      # report the shortest failing input first
    nochrono = getattr(ctx, "nochrono_bin", None)
    if nochrono:
        for c, out in zip(cases, ctx.run_impl(cases, harness_bin=nochrono)):
            if "PANIC" in out and not any(f.case == c for f in fails):
                toks = c.split(" ")
                fails.append(Failure(c, f"(feature chrono off) converting the reply {unhexs(toks[3])!r} into the typed response of {toks[1]} "
                                        f"{toks[2]} panicked (expected a value or a typed-response error)"))
        ctx.notes.append("every case was also run against the harness built with feature chrono off (no-PANIC oracle only)")
        fails.sort(key=lambda f: len(f.case))
    if model is not None:
        for c, out in zip(cases, model):
            if "PANIC" in out and not any(f.case == c for f in fails):
                dis.append({"case": c, "impl": "(no panic)", "model": out})
    if only is not None:
        for i, c in enumerate(cases):
            print("case :", c[:800], "\nimpl :", impl[i][:800])
            if model is not None:
                print("model:", model[i][:800])
    outcomes = {}
    for o in impl:
        k = o.split(" ")[0] + (" " + o.split(" ")[1] if o.startswith("err ") else "")
        outcomes[k] = outcomes.get(k, 0) + 1
    dist["impl_outcomes"] = outcomes
    dist["model_abstains"] = sum(1 for m in (model or []) if m in ("undetermined", "skip-model"))
    return finish(
        ctx, evaluations=len(cases), distinct_nontrivial=len({c for c, o in zip(cases, impl) if o not in ("noresponse", "errresp")}),
        rule="for EVERY predefined command (song listings included): a valid reply and mutations of it (boundary values 2^64-1, 2^64, 1e300, "
             "inf, NaN, -0, 1e-320, 400-digit numerals, foreign spellings; dropped, repeated, foreign and unexpected fields), random field "
             "sets over the command's vocabulary, every pool value through every duration/integer/enum/timestamp/range reader, typed lists "
             "(Vec; tuples of arity 1..8) answered by N-1/N/N+1 frames or an ACK, byte-level corruptions and random bytes; real parser, real "
             "Command::response / CommandList::responses, every public accessor and iterator walked under catch_unwind; regression witnesses "
             "of fixes 9b21408, 18ee26e, 1288aae always first; floats never appear in the model: decimal text is classified exactly "
             "(syntax of str::parse::<f64>, NaN/inf/negative/>= 2^64 => error) with exact nanoseconds where std is provably exact and an "
             "opaque value ('~', compared as Ok only) elsewhere; the model abstains ('undetermined', not compared) within 4096 of 2^64 s, "
             "for negative values between 1e-325 and 1e-322 and for timestamps that are neither canonical nor obviously malformed; "
             "song-listing commands print skip-model (modelled by C14) - for all of these the no-PANIC oracle still applies; "
             "non-trivial = the bytes reached the typed conversion",
        samples=[cases[0][:300], cases[-1][:300]], distribution=dist, oracle_failures=fails, disagreements=dis, exhaustive=False)


def replay(ctx, payload):
    return run(ctx, only={"cases": payload.get("cases", [])})
