"""C10 — end of stream is clean only on a response boundary."""
import mpdgen as g
from connlib import run_bigbin, replay_bigbin, COQ_FILES, run_cases, describe, print_replay
from vlib import Failure, finish, unhexs


def gen(ctx):
    rng = ctx.rng
    cases, expect = [], []
    n = 25 if ctx.tier == "quick" else 250

    def add_stream(rs, positions=None):
        encs = [g.enc_response(r) for r in rs]
        shows = [g.show_response(r) for r in rs]
        s = b"".join(encs)
        bounds = [0]
        for e in encs:
            bounds.append(bounds[-1] + len(e))
        cuts = range(len(s) + 1) if positions is None else positions
        for cut in cuts:
            done = max(i for i, bnd in enumerate(bounds) if bnd <= cut)
            exp = shows[:done] + ["eof" if cut == bounds[done] else "ueof"]
            t = s[:cut]
            seg = rng.choice([g.seg_whole, g.seg_bytes, lambda x: g.seg_random(rng, x)])(t)
            cases.append(g.case_line("recv", rng.choice("ab"), 0, "eof", seg))
            expect.append(exp)

    corpus = [
        [{"form": "single", "frames": [{"fields": [("a", "b")], "bin": None, "binpos": None}], "error": None, "partial": None}],
        [{"form": "single", "frames": [{"fields": [("size", "9")], "bin": b"OK\nOK\n\n", "binpos": 1}], "error": None, "partial": None},
         {"form": "list", "frames": [{"fields": [("x", "OK")], "bin": None, "binpos": None}] * 3, "error": None, "partial": None}],
        [{"form": "list", "frames": [{"fields": [], "bin": None, "binpos": None}], "error": (5, 1, "x", "m"), "partial": {"fields": [("k", "v")], "bin": None, "binpos": None}}],
    ]
    for rs in corpus:
        add_stream(rs)
    for _ in range(n):
        rs = [g.gen_response(rng, payload_max=40) for _ in range(rng.choice([1, 2, 3]))]
        s_len = sum(len(g.enc_response(r)) for r in rs)
        if s_len <= 200:
            add_stream(rs)
        else:
            add_stream(rs, sorted(set(rng.randrange(s_len + 1) for _ in range(60)) | {0, s_len}))
    # a long payload: cut inside it and at every line boundary
    big = {"form": "single", "frames": [{"fields": [("size", "5000")], "bin": bytes(range(256)) * 20, "binpos": 1}], "error": None, "partial": None}
    e = g.enc_response(big)
    add_stream([big, big], [0, 1, 11, 12, 26, 27, 4096, 4097, len(e) - 4, len(e) - 3, len(e) - 1, len(e), len(e) + 1, 2 * len(e) - 1, 2 * len(e)])
    # the last read before the end fills the receive buffer exactly (4096 and its doublings)
    for cap in (4096, 8192):
        one = {"form": "single", "frames": [{"fields": [("k", "v" * (cap - 3 - 1 - 3))], "bin": None, "binpos": None}], "error": None, "partial": None}
        small = {"form": "single", "frames": [{"fields": [("a", "b")], "bin": None, "binpos": None}], "error": None, "partial": None}
        assert len(g.enc_response(one)) == cap
        for rs, cuts in (([one], [cap]), ([one, small], [cap, cap + 3, cap + 8]), ([small, one], [cap, 8 + cap])):
            encs = [g.enc_response(r) for r in rs]
            st = b"".join(encs)
            for cut in cuts:
                bounds = [0]
                for e_ in encs:
                    bounds.append(bounds[-1] + len(e_))
                done = max(i for i, bnd in enumerate(bounds) if bnd <= cut)
                exp = [g.show_response(r) for r in rs[:done]] + ["eof" if cut == bounds[done] else "ueof"]
                t = st[:cut]
                for seg in ([t], [t[:cap], t[cap:]], [t[:100], t[100:]], [t[i:i + 4096] for i in range(0, len(t), 4096)]):
                    for fl in "ab":
                        cases.append(g.case_line("recv", fl, 0, "eof", [c for c in seg if c]))
                        expect.append(exp)
    # an interrupted receive (one read fails with a transient error, e.g. a timeout layer under the connection) keeps what it
    # had consumed: the end of the stream after it is still unclean
    def add_interrupted(rs, extra_tail):
        encs = [g.enc_response(r) for r in rs]
        st = b"".join(encs) + extra_tail
        shows = [g.show_response(r) for r in rs]
        for k in sorted(set([1, len(st) // 2, len(st) - 1, len(st)] + [rng.randrange(1, len(st) + 1) for _ in range(4)])):
            if not (0 < k <= len(st)):
                continue
            bounds = [0]
            for e_ in encs:
                bounds.append(bounds[-1] + len(e_))
            # outcomes: responses completed before the interruption, the transient error, the rest, then the end
            done_before = max(i for i, bnd in enumerate(bounds) if bnd <= k)
            end = "eof" if extra_tail == b"" else "ueof"
            exp = shows[:done_before] + ["io"] + shows[done_before:] + [end]
            for fl in "ab":
                cases.append(" ".join(["recv", fl, "0", "eof", hexs(st[:k]), "!"] + ([hexs(st[k:])] if st[k:] else [])))
                expect.append(exp)
    from vlib import hexs
    smallr = {"form": "single", "frames": [{"fields": [("foo", "bar")], "bin": None, "binpos": None}], "error": None, "partial": None}
    listr = {"form": "list", "frames": [{"fields": [("foo", "bar")], "bin": None, "binpos": None}] * 2, "error": None, "partial": None}
    binr = {"form": "single", "frames": [{"fields": [], "bin": b"abc", "binpos": 0}], "error": None, "partial": None}
    for rs in ([smallr], [listr], [binr], [smallr, listr]):
        for tail_ in (b"", b"foo: bar\n", b"foo: bar\nlist_OK\n", b"binary: 3\nabc\n", b"x"):
            add_interrupted(rs, tail_)
    # a long history: hundreds of distinct field names seen on this connection (whatever cache of names the connection keeps is
    # full, about to be trimmed, just trimmed), then a response whose first lines arrive, the receive is interrupted, and the
    # stream ends: still unclean
    def name(i):
        s_ = ""
        i += 26
        while i:
            s_ = chr(97 + i % 26) + s_
            i //= 26
        return "k" + s_
    for n_names in (100, 1000, 1020, 1024, 1100, 5000) if ctx.tier == "quick" else (100, 500, 1000, 1010, 1020, 1023, 1024, 1025, 1100, 2048, 5000, 20000):
        hist = {"form": "single", "frames": [{"fields": [(name(i), "v") for i in range(n_names)], "bin": None, "binpos": None}], "error": None, "partial": None}
        for n_new in (1, 40):
            part = b"".join(f"{name(n_names + j)}: w\n".encode() for j in range(n_new))
            st1 = g.enc_response(hist)
            for fl in "ab":
                cases.append(" ".join(["recv", fl, "0", "eof", hexs(st1), hexs(part), "!"]))
                expect.append([g.show_response(hist), "io", "ueof"])
                cases.append(" ".join(["recv", fl, "0", "eof", hexs(st1), hexs(part), "!", hexs(b"OK\n")]))
                expect.append([g.show_response(hist), "io", g.show_response({"form": "single", "frames": [{"fields": [(name(n_names + j), "w") for j in range(n_new)], "bin": None, "binpos": None}], "error": None, "partial": None}), "eof"])
    # what follows the greeting arrives in the same read as the greeting (connect keeps it for the first receive): every cut of the
    # stream, the greeting and the cut stream in one chunk, or the greeting with the first bytes and then the rest
    G = b"OK MPD 0.23.5\n"
    conn_streams = [corpus[0], corpus[1], [smallr, listr], [binr]] + [[g.gen_response(rng, payload_max=20)] for _ in range(3 if ctx.tier == "quick" else 40)]
    for rs in conn_streams:
        encs = [g.enc_response(r) for r in rs]
        shows = [g.show_response(r) for r in rs]
        st = b"".join(encs)
        bounds = [0]
        for e_ in encs:
            bounds.append(bounds[-1] + len(e_))
        cuts = range(len(st) + 1) if len(st) <= 120 else sorted(set(rng.randrange(len(st) + 1) for _ in range(60)) | {0, len(st)})
        for cut in cuts:
            done = max(i for i, bnd in enumerate(bounds) if bnd <= cut)
            exp = ["connected:" + hexs(b"0.23.5")] + shows[:done] + ["eof" if cut == bounds[done] else "ueof"]
            t = st[:cut]
            j = rng.randrange(len(t) + 1)
            for seg in ([G + t], [G + t[:j], t[j:]] if t[j:] else [G + t], [G[:5], G[5:] + t]):
                for fl in "ab":
                    cases.append(g.case_line("conn", fl, 0, "eof", seg))
                    expect.append(exp)
    # greeting: every proper prefix of a valid greeting line is an unexpected EOF
    for v in (b"0.23.5", b"x", "0.21.11 ä".encode()):
        gr = b"OK MPD " + v + b"\n"
        for cut in range(len(gr)):
            cases.append(g.case_line("conn", rng.choice("ab"), 0, "eof", rng.choice([g.seg_whole, g.seg_bytes])(gr[:cut])))
            expect.append(["connect:ueof"])
    # how the stream ended does not change when the application asks again: two further receives after the end, every third case
    for i in range(0, len(cases), 3):
        t = cases[i].split(" ")
        if t[0] in ("recv", "conn") and t[2] == "0" and expect[i] and expect[i][-1] in ("eof", "ueof"):
            cases.append(" ".join(t[:2] + ["2"] + t[3:]))
            expect.append(expect[i] + [expect[i][-1]] * 2)
    return cases, expect


def run(ctx, only=None):
    if only is not None:
        cases, expect = only["cases"], only["expect"]
    else:
        cases, expect = gen(ctx)
    impl, model, dis = run_cases(ctx, cases)
    fails = []
    for c, out, exp in zip(cases, impl, expect):
        if exp is None:
            continue
        if out.split(" | ") != exp:
            fails.append(Failure(c, f"{describe(c)[:500]}\n  stream ends here; expected {' | '.join(exp)[-300:]}\n  got {out[-300:]}", extra={"expect": exp}))
    if only is not None:
        print_replay(cases, impl, model, fails)
    dist = {"cases": len(cases), "clean_cuts": sum(1 for e in expect if e and e[-1] == "eof"), "unclean_cuts": sum(1 for e in expect if e and e[-1] == "ueof"),
            "greeting_cuts": sum(1 for e in expect if e and e[-1] == "connect:ueof")}
    nontrivial = {c for c, e in zip(cases, expect) if e and e[-1] != "eof"}
    n_big = 0
    if only is None:
        bc, _, bf = run_bigbin(ctx)
        n_big = len(bc)
        fails = list(fails) + bf
        dist = dict(dist)
        dist["large_payload_runs_64KiB_to_8MiB"] = n_big
    return finish(
        ctx, evaluations=len(cases) + n_big, distinct_nontrivial=len(nontrivial),
        rule="every cut position of every generated well-formed stream of <= 200 bytes (60 sampled positions of longer ones; payload interior and "
             "each line boundary of a 5 KB payload), whole / byte-at-a-time / random segmentation, both flavours; expected outcome from the "
             "encoder's boundary table: responses before the cut, then clean EOF iff the cut is a response boundary; every proper prefix of "
             "three greeting lines; non-trivial = the cut is not on a boundary",
        samples=[describe(cases[1])[:300], describe(cases[len(cases) // 2])[:300]], distribution=dist,
        oracle_failures=fails, disagreements=dis,
    )


def replay(ctx, payload):
    if any(str(c).startswith("bigbin") for c in payload.get("cases", [])):
        return replay_bigbin(ctx, [c for c in payload["cases"] if c.startswith("bigbin")])
    cases = payload.get("cases", [])
    exp = payload.get("extra", {}).get("expect")
    return run(ctx, only={"cases": cases, "expect": [exp for _ in cases]})
