"""C11 — filter expressions mean on the server what was built on the client.
Correspondence: the wire line written for a filter built by a construction script, implementation
(real mpd_client::filter::Filter through Find/Count/List) against the Coq model.
Oracle: the Coq ports of MPD's request tokenizer and filter grammar (spec side, extracted) applied
to the IMPLEMENTATION's bytes; the resulting expression is compared here, in Python, with the mirror
expression the generator keeps for the script (AND lists flattened on both sides)."""
from vlib import Failure, compare, finish, hexs, unhexs

COQ_FILES = ["Bytes.v", "Tables.v", "TagModel.v", "CommandModel.v", "MpdTokenizer.v", "MpdFilter.v", "FilterModel.v",
             "CommandProofs.v", "EscapeProofs.v", "FilterProofs.v"]

# protocol names of the tags the generator uses, from the MPD protocol reference (independent of /repo)
TAGS = {
    "n:Artist": b"Artist", "n:Album": b"Album", "n:Title": b"Title", "n:AlbumArtistSort": b"AlbumArtistSort",
    "n:MusicBrainzArtistId": b"MUSICBRAINZ_ARTISTID", "n:MusicBrainzRecordingId": b"MUSICBRAINZ_TRACKID",
    "n:OriginalDate": b"OriginalDate", "n:Date": b"Date", "n:Genre": b"Genre",
    "any": b"any", "o:" + hexs("file"): b"file", "o:" + hexs("x-y_Z"): b"x-y_Z",
}
# tags obtained from a name through Tag::try_from (any letter case): the model is given the tag the MPD reference says that name
# denotes, the implementation has to find it itself
P_MODEL = {}
for _name, _spec in (("artist", "n:Artist"), ("ARTIST", "n:Artist"), ("Album", "n:Album"), ("albumartistsort", "n:AlbumArtistSort"),
                     ("MUSICBRAINZ_TRACKID", "n:MusicBrainzRecordingId"), ("musicbrainz_trackid", "n:MusicBrainzRecordingId"),
                     ("MusicBrainz_ArtistId", "n:MusicBrainzArtistId"), ("originaldate", "n:OriginalDate"), ("GENRE", "n:Genre"),
                     ("file", "o:" + hexs("file")), ("x-y_Z", "o:" + hexs("x-y_Z"))):
    P_MODEL["p:" + hexs(_name)] = _spec
    TAGS["p:" + hexs(_name)] = TAGS[_spec]
TAGSPECS = list(TAGS)


def to_model(case):
    import re as _re
    return _re.sub(r"p:[0-9a-f]+", lambda m: P_MODEL.get(m.group(0), m.group(0)), case)
OPS = {"Equal": "==", "NotEqual": "!=", "Contain": "contains", "Match": "=~", "NotMatch": "!~"}
HOWS = {"find": (1, 2), "count": (1, 2), "list": (2, 3), "countg": (1, 4), "list2": (2, 3), "countg2": (1, 4)}   # how -> (filter token index, token count)

PLAIN = ["", " ", "  ", "\t", "\r", "'", "\\", "\\\\", "(", ")", "AND", " AND ", ") AND (", "a", "Z", "b c", "é", "€",
         "\U0001F600", "\x01", "\x1f", "\x7f", "!", "==", "(x == 'y')", "\\'", "contains", "-", "_"]
WITH_DQ = ['"', '\\"', 'a"b', '""', "'\"", '")']
REJECTED = ["\n", "\x00"]
SMALL = [" ", '"', "'", "\\", "(", ")", "a", "é", "A"]
MPD_QUOTED_MAX = 4096


# ------------------------------------------------------------------ construction scripts

def enc(t):
    k = t[0]
    if k == "T":
        return f"T/{t[1]}/{t[2]}/{hexs(t[3])}"
    if k == "t":
        return f"t/{t[1]}/{hexs(t[2])}"
    if k in "EA":
        return f"{k}/{t[1]}"
    if k in "N!R":
        return f"{k}({enc(t[1])})"
    return f"&({enc(t[1])},{enc(t[2])})"


def dec(s):
    def go(i):
        if i + 1 < len(s) and s[i + 1] == "(":
            k = s[i]
            if k in "N!R":
                x, j = go(i + 2)
                assert s[j] == ")"
                return (k, x), j + 1
            assert k == "&"
            x, j = go(i + 2)
            assert s[j] == ","
            y, j = go(j + 1)
            assert s[j] == ")"
            return ("&", x, y), j + 1
        j = i
        while j < len(s) and s[j] not in "(),":
            j += 1
        f = s[i:j].split("/")
        if f[0] == "T":
            return ("T", f[1], f[2], unhexs(f[3]).decode()), j
        if f[0] == "t":
            return ("t", f[1], unhexs(f[2]).decode()), j
        return (f[0], f[1]), j
    t, j = go(0)
    assert j == len(s)
    return t


def values(t):
    k = t[0]
    if k == "T":
        return [t[3]]
    if k == "t":
        return [t[2]]
    if k in "EA":
        return [""]
    out = []
    for x in t[1:]:
        out += values(x)
    return out


def leaves(t):
    if t[0] in "TtEA":
        return [t]
    out = []
    for x in t[1:]:
        out += leaves(x)
    return out


def tag_name(spec):
    if spec in TAGS:
        return TAGS[spec]
    if spec.startswith("o:"):
        return unhexs(spec[2:])
    raise KeyError(spec)


def mirror(t):
    """The expression the script MEANS (MPD protocol reference): exists = (tag != ''), absent = (tag == ''),
    and = conjunction (associative, hence flattened)."""
    k = t[0]
    if k == "T":
        return ("L", tag_name(t[1]), OPS[t[2]], t[3].encode())
    if k == "t":
        return ("L", tag_name(t[1]), "==", t[2].encode())
    if k == "E":
        return ("L", tag_name(t[1]), "!=", b"")
    if k == "A":
        return ("L", tag_name(t[1]), "==", b"")
    if k in "N!":
        return ("N", mirror(t[1]))
    if k == "R":        # rendered once by reference at this point: a filter is a value, its meaning does not depend on having been rendered
        return mirror(t[1])
    return norm(("A", [mirror(t[1]), mirror(t[2])]))


def norm(a):
    if a[0] == "L":
        return a
    if a[0] == "N":
        return ("N", norm(a[1]))
    items = []
    for x in a[1]:
        x = norm(x)
        if x[0] == "A":
            items += x[1]
        else:
            items.append(x)
    return items[0] if len(items) == 1 else ("A", items)


def parse_ast(s):
    """L(hex,op,hex) | N(ast) | A(ast;ast;...) as printed by the filter_parse oracle kind."""
    def go(i):
        k = s[i]
        assert s[i + 1] == "("
        if k == "L":
            j = s.index(")", i)
            w, o, v = s[i + 2:j].split(",")
            return ("L", unhexs(w), o, unhexs(v)), j + 1
        if k == "N":
            x, j = go(i + 2)
            assert s[j] == ")"
            return ("N", x), j + 1
        assert k == "A"
        items = []
        j = i + 2
        while True:
            x, j = go(j)
            items.append(x)
            if s[j] == ")":
                return ("A", items), j + 1
            assert s[j] == ";"
            j += 1
    a, j = go(0)
    assert j == len(s)
    return a


def show(a):
    if a[0] == "L":
        return f"({a[1].decode(errors='replace')} {a[2]} {a[3]!r})"
    if a[0] == "N":
        return f"(!{show(a[1])})"
    return "(" + " AND ".join(show(x) for x in a[1]) + ")"


def klass(t):
    """Known-finding class, decided by the script alone (DESIGN.md section 4, D12)."""
    return "filter_value_with_dquote" if any('"' in v for v in values(t)) else None


# ------------------------------------------------------------------ generation

def gen_value(rng):
    r = rng.random()
    pool = PLAIN
    n = rng.choice([0, 1, 1, 1, 2, 2, 3, 4])
    parts = [rng.choice(pool) for _ in range(n)]
    if r < 0.025:
        parts.insert(rng.randrange(len(parts) + 1), rng.choice(WITH_DQ))
    elif r < 0.033:
        parts.insert(rng.randrange(len(parts) + 1), rng.choice(REJECTED))
    return "".join(parts)


def gen_leaf(rng):
    tag = rng.choice(TAGSPECS)
    r = rng.random()
    if r < 0.55:
        return ("T", tag, rng.choice(list(OPS)), gen_value(rng))
    if r < 0.8:
        return ("t", tag, gen_value(rng))
    return ("E", tag) if r < 0.9 else ("A", tag)


def assoc(rng, items, how):
    """Combine with .and in the given association."""
    if len(items) == 1:
        return items[0]
    if how == "left":
        t = items[0]
        for x in items[1:]:
            t = ("&", t, x)
        return t
    if how == "right":
        t = items[-1]
        for x in reversed(items[:-1]):
            t = ("&", x, t)
        return t
    if how == "balanced":
        m = len(items) // 2
        return ("&", assoc(rng, items[:m], how), assoc(rng, items[m:], how))
    m = rng.randrange(1, len(items))
    return ("&", assoc(rng, items[:m], how), assoc(rng, items[m:], how))


def gen_tree(rng, depth):
    if depth <= 1 or rng.random() < 0.25:
        return gen_leaf(rng)
    r = rng.random()
    if r < 0.08:
        return ("R", gen_tree(rng, depth - 1))
    if r < 0.3:
        t = gen_tree(rng, depth - 1)
        return (rng.choice("N!"), ("R", t) if rng.random() < 0.2 else t)
    n = rng.choice([2, 2, 3, 3, 4, 5])
    items = [gen_tree(rng, depth - 1) for _ in range(n)]
    return assoc(rng, items, rng.choice(["left", "right", "balanced", "random"]))


def corpus():
    A = "n:Artist"
    l = lambda v: ("t", A, v)
    c = []
    for v in ["foo's bar\"", "a\\b", "foo", "", " ", "  lead", "trail  ", "\t", "a\rb", "'", "\\", "\\\\", "a\\'b", "(", ")",
              "AND", ") AND (Album == 'x", "(Artist == 'x')", "é", "日本 語", "\U0001F600", "\x01", "\x7f", '"', 'a"b', '\\"',
              "a\nb", "a\x00b", "x" * (MPD_QUOTED_MAX - 1), "x" * MPD_QUOTED_MAX, "!", "=="]:
        c.append(("find", l(v)))
    for op in OPS:
        c.append(("find", ("T", "n:Album", op, "mep mep")))
    c.append(("find", ("E", A)))
    c.append(("find", ("A", A)))
    c.append(("find", ("E", "any")))
    c.append(("find", ("N", l("hello"))))
    c.append(("find", ("!", l("hello"))))
    c.append(("find", ("N", ("N", l("x")))))
    # a filter that was already rendered (sent once, or logged) and is then negated / extended / sent again
    c.append(("find", ("N", ("R", l("live")))))
    c.append(("count", ("!", ("!", ("R", l("live"))))))
    c.append(("find", ("&", ("R", l("a")), l("b"))))
    c.append(("find", ("R", ("N", ("R", l("x"))))))
    # a prepared list / grouped count whose filter is set a second time
    c.append(("list2", ("&", l("a\\b"), ("N", l("it's (AND) é")))))
    c.append(("countg2", l("second")))
    c.append(("count", ("&", l("hello"), ("t", "n:Album", "world"))))
    three = [l("hello"), ("t", "n:Album", "world"), ("t", "n:Title", "foo")]
    for how in ("left", "right", "balanced"):
        c.append(("find", assoc(None, three, how)))
        c.append(("list", assoc(None, three + [("E", "n:Genre"), ("N", l("a b"))], how)))
    c.append(("countg", ("&", ("N", ("&", l("a"), l("b"))), l("c"))))
    c.append(("find", ("N", ("&", ("&", l("a"), l("b")), ("&", l("c"), l("d"))))))
    c.append(("list", ("&", ("!", ("&", l("a\\b"), ("E", "any"))), ("A", "o:" + hexs("x-y_Z")))))
    c.append(("find", ("&", ("&", l("p q"), ("N", ("&", l("("), l(") AND (")))), ("T", "n:Title", "Match", "^a.*\\.b$"))))
    return c


def gen(ctx):
    rng = ctx.rng
    out = corpus()
    n_random = 700 if ctx.tier == "quick" else 40000
    hows = list(HOWS)
    for _ in range(n_random):
        out.append((rng.choice(hows) if rng.random() < 0.4 else "find", gen_tree(rng, rng.choice([1, 2, 3, 3, 4, 5]))))
    if ctx.tier == "thorough":
        import itertools
        vals = [""]
        for ln in (1, 2, 3, 4):
            vals += ["".join(p) for p in itertools.product(SMALL, repeat=ln)]
        for v in vals:
            leaf = ("T", "n:Artist", "Equal", v)
            out.append(("find", leaf))
            out.append(("find", ("N", leaf)))
            out.append(("find", ("&", leaf, ("&", ("t", "n:Album", "z"), leaf))))
    return [f"filter {how} {enc(t)}" for how, t in out]


# ------------------------------------------------------------------ run

def oracle(ctx, cases, impl):
    """Failures of the property on the implementation's own output."""
    fails, stats = [], {"sent": 0, "panic_lf_nul": 0, "mpd_value_limit": 0, "dquote_class": 0, "dquote_class_read_back_correctly": 0,
                        "ok-class": 0}
    ocases, idx = [], []
    for i, (c, out) in enumerate(zip(cases, impl)):
        _, how, tree = c.split(" ")
        t = dec(tree)
        vs = values(t)
        if out == "panic":
            if any("\n" in v or "\x00" in v for v in vs):
                stats["panic_lf_nul"] += 1      # documented: Command::argument panics on LF / NUL
            else:
                fails.append(Failure(c, f"building or sending {show(mirror(t))} panicked", klass(t)))
            continue
        if not out.startswith("ok "):
            fails.append(Failure(c, "harness could not run the case: " + out))
            continue
        stats["sent"] += 1
        ocases.append(f"filter_parse {HOWS[how][0]} {out.split(' ')[1]}")
        idx.append(i)
    res = ctx.run_model(ocases) if ocases else []
    for i, oc, r in zip(idx, ocases, res):
        c = cases[i]
        _, how, tree = c.split(" ")
        t = dec(tree)
        want = mirror(t)
        k = klass(t)
        sent = unhexs(oc.split(" ")[2])
        too_long = any(len(v.encode()) >= MPD_QUOTED_MAX for v in values(t))
        stats["dquote_class" if k else "ok-class"] += 1
        if r == "notok":
            fails.append(Failure(c, f"sent {sent[:300]!r} for {show(want)[:300]}: rejected by MPD's request tokenizer", k))
            continue
        f = dict(x.split("=", 1) for x in r.split(" "))
        if f["parse"] == "none":
            if too_long and not k:
                stats["mpd_value_limit"] += 1    # MPD's own limit on a quoted value (4095 bytes), not an encoding error
                continue
            fails.append(Failure(c, f"sent {sent[:300]!r} for {show(want)[:300]}: rejected by MPD's filter grammar", k))
            continue
        got = norm(parse_ast(f["parse"]))
        if got == want and k and int(f["tokens"]) == HOWS[how][1]:
            stats["dquote_class_read_back_correctly"] += 1   # would show the excluded class to be wider than what fails
        if got != want:
            fails.append(Failure(c, f"sent {sent[:300]!r} for {show(want)[:300]}: MPD understands {show(got)[:300]}", k))
        elif int(f["tokens"]) != HOWS[how][1]:
            fails.append(Failure(c, f"sent {sent[:300]!r}: MPD splits the request into {f['tokens']} words, expected {HOWS[how][1]}", k))
    return fails, stats


TRIVIAL = ("t", "n:Artist", "a")


def reductions(t):
    """Every script obtained from t by one simplifying step."""
    out = []
    if t[0] in "TtEA":
        if t != TRIVIAL:
            out.append(TRIVIAL)
            if t[0] == "T" and t[3] not in ("", "a"):
                out += [("T", t[1], t[2], "a"), ("T", t[1], t[2], t[3][: len(t[3]) // 2]), ("T", t[1], t[2], t[3][len(t[3]) // 2:])]
            if t[0] == "t" and t[2] not in ("", "a"):
                out += [("t", t[1], "a"), ("t", t[1], t[2][: len(t[2]) // 2]), ("t", t[1], t[2][len(t[2]) // 2:])]
        return out
    out += list(t[1:])                                   # hoist a child
    for i in range(1, len(t)):
        for r in reductions(t[i]):
            out.append(t[:i] + (r,) + t[i + 1:])
    return out


def shrink(ctx, failure):
    """Greedy structural shrinking (hoist a child, replace a leaf by a trivial one, halve a value): the
    smallest script that still fails in the same class is reported."""
    _, how, tree = failure.case.split(" ")
    best, cur = failure, dec(tree)
    for _ in range(40):
        cands = list(dict.fromkeys(f"filter {how} {enc(x)}" for x in reductions(cur)))[:600]
        if not cands:
            break
        try:
            fs, _ = oracle(ctx, cands, ctx.run_impl(cands))
        except Exception:
            break
        fs = [f for f in fs if f.klass == failure.klass and len(f.case) < len(best.case)]
        if not fs:
            break
        best = min(fs, key=lambda f: len(f.case))
        cur = dec(best.case.split(" ")[2])
    if best is not failure:
        best.extra = {"shrunk_from": failure.case}
    return best


def run(ctx, only=None):
    ctx.notes += [
        "theorems c11_roundtrip / c11_roundtrip_args are about Command::argument(filter) among string arguments; that Find, Count, List "
        "and Count::group_by build exactly such commands is shown by the correspondence run (and is C15's subject)",
        "spec side (trusted, from memory): MpdTokenizer.v and MpdFilter.v; a leaf of the ported grammar is (word, operator, value): "
        "MPD's tag-table lookup and the special grammar of base/modified-since/AudioFormat/prio are not ported; the theorems hold for "
        "both readings of whether blanks are skipped after the parenthesis closing an AND list (the oracle uses the stricter one)",
        "values of 4096 bytes or more are rejected by MPD's ExpectQuoted buffer; counted as mpd_value_limit, not as failures",
        "values containing LF or NUL make Command::argument panic (documented); counted as panic_lf_nul, nothing is sent",
    ]
    cases = gen(ctx) if only is None else only
    impl = ctx.run_impl(cases)
    disagreements = []
    model = []
    if ctx.model_ok:
        model = ctx.run_model([to_model(c) for c in cases])
        disagreements = compare(cases, impl, model)
    fails, stats = ([], {})
    if ctx.model_ok:
        fails, stats = oracle(ctx, cases, impl)
        known = [f for f in fails if f.klass]
        new = [f for f in fails if not f.klass]
        n_corpus = len(corpus())
        if new and only is None and new[0].case not in cases[:n_corpus]:
            new[0] = shrink(ctx, new[0])       # hand-picked corpus cases are reported as they are
        fails = new + known
    if only is not None:
        for i, c in enumerate(cases):
            print("case  :", c)
            print("script:", show(mirror(dec(c.split(" ")[2])))[:400])
            print("impl  :", impl[i][:400], unhexs(impl[i].split(" ")[1])[:300] if impl[i].startswith("ok ") else "")
            if model:
                print("model :", model[i][:400])
        for f in fails:
            print("oracle:", f.message)
        if not fails:
            print("oracle: MPD's tokenizer and filter grammar give back the expression that was built")
    shapes = {}
    for c in cases:
        d = depth(mirror(dec(c.split(" ")[2])))
        shapes[f"depth{d}"] = shapes.get(f"depth{d}", 0) + 1
    nontrivial = {c for c in cases if any(any(ch in v for ch in " \t\r\"'\\()") or v == "" for v in values(dec(c.split(" ")[2])))
                  or dec(c.split(" ")[2])[0] in "N!&"}
    return finish(
        ctx, evaluations=len(cases), distinct_nontrivial=len(nontrivial),
        rule="corpus (the two D12 witnesses, boundary values, every operator, exists/absent, negate and !, and in left/right/balanced "
             "association through find/count/list/count-group), then random construction scripts of depth <= 5 and width <= 5 with "
             "values over the class alphabet (empty, blanks, tab, CR, both quotes, backslash, parentheses, AND, non-ASCII, control bytes, "
             "LF/NUL); thorough adds every value of length <= 4 over 9 symbols as a leaf, under negation and inside an AND; "
             "oracle = extracted MPD tokenizer + filter grammar on the implementation's bytes, compared with the script's mirror "
             "expression after flattening AND; non-trivial = a value that is empty or holds a blank, quote, backslash or parenthesis, or a "
             "script with negation/and",
        samples=[cases[0], cases[len(cases) // 2], cases[-1]], distribution=dict(stats, **shapes),
        oracle_failures=fails, disagreements=disagreements,
    )


def depth(a):
    """nesting depth of the expression (after flattening)"""
    if a[0] == "L":
        return 1
    if a[0] == "N":
        return 1 + depth(a[1])
    return 1 + max(depth(x) for x in a[1])


def replay(ctx, payload):
    return run(ctx, only=payload.get("cases", []))
