"""C16 — status, stats, count, list, playlist and sticker replies decode faithfully.

Abstract replies are generated on the SPEC side (typedlib: Python mirror of coq/TypedSpec.v), encoded
to wire bytes, pushed through the real parser and the real `Command::response`.  Correspondence:
implementation line = Coq model line.  Oracle (independent of the code model): the decoded value
printed by the implementation equals the canonical print of the abstract value the generator started
from; a value outside a field's domain must give `err invalid <field>`, never a value."""
import itertools
import re

import typedlib as t
from typedlib import U8, U32, U64, hx, typed_case, wire
from vlib import Failure, finish, unhexs

COQ_FILES = ["Bytes.v", "FrameModel.v", "FrameProofs.v", "TagModel.v", "TagProofs.v", "TypedModel.v", "TypedSpec.v", "TypedProofs.v"]

STRS = ["x", "", " ", "a b", " lead", "trail ", "é", "日本", "=", "a=b", "a: b", "OK", "ACK [5@0] {} x", "list_OK", "0", "tab\there", "\"q\"", "x" * 300,
        # carriage returns and other control characters are ordinary bytes of a value, wherever they stand (the line ends at the line feed)
        # values longer than the receive buffer and its first doubling (one line of 4097 .. 9000 bytes)
        "y" * 4097, "z" * 4096, "w" * 9000,
        "Live\r", "\r", "a\rb", "\rlead", "x\r\r", "end\t", "bell\x07", "\x7f", "nbsp\u00a0", "\u00a0", "x\u2028", "trail\u3000"]
NAMES = ["rating", "playcount", "a b", "é", "x_y", "0"]
TS = ["2024-01-02T03:04:05Z", "1970-01-01T00:00:00Z", "2038-12-28T23:59:59Z", "0001-02-03T00:00:00Z",
      "2024-01-02T03:04:05+02:00", "2024-01-02T03:04:05-08:00", "2024-01-02T03:04:05+00:00", "2024-01-02T03:04:05.25Z", "2024-01-02T23:30:00+05:30"]
BOUND = {"u8": [0, 1, 100, U8], "u32": [0, 1, U32], "u64": [0, 1, 2 ** 32, U64], "usize": [0, 1, U64],
         "secs": [0, 1, 5, 4194303], "ms": [0, 1, 500, 999, 1000, 123456, 4194303999]}
BAD_UINT = ["", "-1", "abc", "1.5", " 1", "1 ", "0x10", "١", "9" * 400, "1_0", "1e2", "+", "-", "++1", "1+", "１", "0b1", "1\t",
            # numbers that come out small again when an accumulator of some width wraps around
            str(2 ** 64 + 50), str(5 * 2 ** 64 + 7), "9" * 20, "1" + "0" * 20, str(2 ** 128 + 3), str(2 ** 63 * 3), "0" * 30 + str(2 ** 64)]
# texts that are not numbers although each half of them might look like one to a "fast path"
BAD_FLOAT = ["12.+34", "12.-34", "+12.+34", "1.2.3", "1..2", "1. 5", "1 .5", "1.5 ", "1_000.0", "0x1p3", "1.5f", "1,500", "٣.٥", "1.0e", "e5",
             "--1", "+-1", "1.+00", "0.-00", ".+5", "12.３４", "12.34\t", "\t12.34"]
BAD = {"u8": BAD_UINT + [str(U8 + 1), str(2 ** 8 + 7), str(2 ** 16 + 7), str(2 ** 32 + 7), "0256"], "u32": BAD_UINT + [str(U32 + 1), str(2 ** 32 + 7), str(2 ** 40)], "u64": BAD_UINT + [str(U64 + 1)],
       # ... including the words that are valid for ANOTHER field (a value of single is not a value of repeat, and so on)
       "usize": BAD_UINT + [str(U64 + 1)], "bool": ["", "2", "true", "01", "yes", "-1", "oneshot", "false", "on", "off", "no", "1 ", " 1", "0x1", "play", "10", "00"],
       "state": ["", "PLAY", "playing", "paused", "stopped", "0", "1", "oneshot", "Play", " play", "play ", "play\r"],
       "single": ["", "2", "Oneshot", "on", "true", "play", "1 ", "oneshot ", "ONESHOT", "one shot", "01"],
       "ms": ["", "abc", "-1", "nan", "inf", "-inf", "1e300", str(2 ** 64), "1,5", "1:5", " 1"] + BAD_FLOAT,
       "secs": ["", "abc", "-1", "NaN", "infinity", str(2 ** 64)] + BAD_FLOAT}
UNITS = [["volume"], ["partition"], ["mixrampdb"], ["xfade"], ["mixrampdelay"], ["song", "songid"], ["time"], ["elapsed"],
         ["bitrate"], ["duration"], ["audio"], ["updating_db"], ["error"], ["nextsong", "nextsongid"]]
KIND = {f: k for f, k, _ in t.STATUS_FIELDS}


def strip_idents(line):
    return re.sub(r"\b[A-Za-z]+/([0-9a-f-]+)", r"/\1", line)


def val_for(rng, field, boundary=False):
    k = KIND[field]
    if k in BOUND:
        if boundary or rng.random() < 0.5:
            return rng.choice(BOUND[k])
        hi = {"u8": U8, "u32": U32, "u64": U64, "usize": U64, "secs": 4194303, "ms": 4194303999}[k]
        return rng.randrange(hi + 1)
    if k == "bool":
        return rng.random() < 0.5
    if k == "state":
        return rng.choice(list(t.PLAYSTATE))
    if k == "single":
        return rng.choice(list(t.SINGLE))
    if field == "time":
        return f"{rng.randrange(500)}:{rng.randrange(500)}"
    if field == "audio":
        return rng.choice(["44100:16:2", "48000:f:2", "dsd64:2"])
    if k == "ignored":
        return rng.choice(["0.000000", "nan", "-1"])
    return rng.choice(STRS)


def gen_status(rng, units, boundary=False):
    s = {}
    for f, k, req in t.STATUS_FIELDS:
        if req:
            s[f] = val_for(rng, f, boundary)
    for u in units:
        for f in u:
            s[f] = val_for(rng, f, boundary)
    return s


def spec_tokens(s):
    """abstract status -> tokens of the `spec_status` driver kind (the Coq encoder of TypedSpec.v)"""
    toks = []
    for f, k, _ in t.STATUS_FIELDS:
        if f not in s or f in ("songid", "nextsongid"):
            continue
        v = s[f]
        if f in ("song", "nextsong"):
            toks.append(f"{f}={v}/{s[f + 'id']}")
        elif k in ("u8", "u32", "u64", "usize", "secs", "ms"):
            toks.append(f"{f}={v}")
        elif k == "bool":
            toks.append(f"{f}={int(v)}")
        elif k in ("state", "single"):
            toks.append(f"{f}={v}")
        else:
            toks.append(f"{f}={hx(v)}")
    return "spec_status " + " ".join(toks)


MIRROR = []     # (spec_status case, Python mirror's encoding) — compared with the Coq encoder in run()


def gen(ctx):
    rng = ctx.rng
    cases, expect = [], []
    dist = {}
    del MIRROR[:]

    def add(kind, ident, params, fields, exp, binary=None, permute=False):
        fields = list(fields)
        if permute:
            rng.shuffle(fields)
        cases.append(typed_case(ident, params, wire(fields, binary)))
        expect.append(exp)
        dist[kind] = dist.get(kind, 0) + 1

    thorough = ctx.tier == "thorough"
    # ---- regression corpus (always first): the field MPD names updating_db (fix 018518f)
    s = {"repeat": False, "random": False, "single": "0", "consume": False, "playlist": 1, "playlistlength": 0, "state": "stop",
         "updating_db": 7}      # = the witness recorded in known_findings.json
    add("corpus", "Status", None, t.enc_status(s), t.expect_status(s))
    s = gen_status(rng, [["updating_db"]])
    s["updating_db"] = 7
    add("corpus", "Status", None, t.enc_status(s), t.expect_status(s))
    s = gen_status(rng, UNITS)
    add("corpus", "Status", None, t.enc_status(s), t.expect_status(s))

    # ---- status: optional-field subsets (all of size <= 2 and >= k-1, sampled otherwise), permutations
    k = len(UNITS)
    subsets = [c for r in (0, 1, 2, k - 1, k) for c in itertools.combinations(range(k), r)]
    for _ in range(300 if not thorough else 5000):
        subsets.append(tuple(i for i in range(k) if rng.random() < 0.5))
    for n, sub in enumerate(subsets):
        s = gen_status(rng, [UNITS[i] for i in sub], boundary=(n % 3 == 0))
        add("status", "Status", None, t.enc_status(s), t.expect_status(s), permute=(n % 2 == 1))
        MIRROR.append((spec_tokens(s), ",".join(f"{hx(a)}:{hx(v)}" for a, v in t.enc_status(s))))
    # single omitted (servers before 0.15): the documented default
    s = gen_status(rng, UNITS)
    del s["single"]
    add("status", "Status", None, t.enc_status(s), t.expect_status(s))
    # boundary values of every numeric field, one at a time
    for f, kind, _ in t.STATUS_FIELDS:
        for v in BOUND.get(kind, []):
            s = gen_status(rng, UNITS)
            s[f] = v
            add("status-boundary", "Status", None, t.enc_status(s), t.expect_status(s))
        for spelling in ({"state": t.PLAYSTATE, "single": t.SINGLE}.get(kind, {})):
            s = gen_status(rng, UNITS)
            s[f] = spelling
            add("status-enum", "Status", None, t.enc_status(s), t.expect_status(s))
    # ---- domain: one out-of-domain value => err invalid <field>
    for f, kind, _ in t.STATUS_FIELDS:
        for bad in BAD.get(kind, []):
            s = gen_status(rng, UNITS)
            fields = [(a, bad if a == f else v) for a, v in t.enc_status(s)]
            add("status-domain", "Status", None, fields, "err invalid " + f, permute=rng.random() < 0.5)
    # ---- stats
    for n in range(60 if not thorough else 600):
        s = {f: rng.choice(BOUND["u64"] if f in ("artists", "albums", "songs", "db_update") else BOUND["secs"]) if n % 2 else
             rng.randrange(4194304) for f in t.STATS_FIELDS}
        add("stats", "Stats", None, t.enc_stats(s), t.expect_stats(s), permute=n % 3 == 0)
    for f in t.STATS_FIELDS:
        kind = "u64" if f in ("artists", "albums", "songs", "db_update") else "secs"
        for bad in BAD[kind]:
            s = {g: 5 for g in t.STATS_FIELDS}
            add("stats-domain", "Stats", None, [(a, bad if a == f else v) for a, v in t.enc_stats(s)], "err invalid " + f)
    # ---- replay gain
    for sp, ident in t.REPLAYGAIN.items():
        add("replaygain", "ReplayGainStatus", None, [("replay_gain_mode", sp)], "ok replaygain mode=" + ident)
    for bad in ["", "OFF", "on", "Track", "0"]:
        add("replaygain-domain", "ReplayGainStatus", None, [("replay_gain_mode", bad)], "err invalid replay_gain_mode")
    # ---- count, plain and grouped
    for _ in range(40):
        songs, pt = rng.choice(BOUND["u64"]), rng.choice(BOUND["secs"])
        add("count", "Count", None, [("songs", str(songs)), ("playtime", str(pt))], f"ok count songs={songs} playtime={pt * 10 ** 9}",
            permute=rng.random() < 0.5)
    for bad in BAD["u64"]:
        add("count-domain", "Count", None, [("songs", bad), ("playtime", "1")], "err invalid songs")
    for bad in BAD["secs"]:
        add("count-domain", "Count", None, [("songs", "1"), ("playtime", bad)], "err invalid playtime")
    tags = ctx.tags
    for _ in range(150 if not thorough else 1500):
        ident, name = rng.choice(tags)
        ng = rng.choice([0, 1, 2, 3, 6, 12])
        pool = rng.sample(STRS + [""], 3)
        groups = [(rng.choice(pool), rng.choice(BOUND["u64"] + [rng.randrange(1000)]), rng.choice(BOUND["secs"])) for _ in range(ng)]
        add("count-grouped", "CountGrouped", ("o:" + name.encode().hex()) if rng.random() < 0.25 else "n:" + ident,
            t.enc_count_grouped(name, groups, rng), t.expect_count_grouped(groups))
    # ---- list, plain and grouped (N = 0..3)
    for _ in range(250 if not thorough else 2500):
        n = rng.choice([0, 0, 1, 2, 3])
        chosen = rng.sample(tags, n + 1)
        (pid, pname), gs = chosen[0], chosen[1:]
        pools = [rng.sample(STRS + ["", "A", "B"], 3) for _ in gs]
        rows = []
        cur = [rng.choice(p) for p in pools]
        for _ in range(rng.choice([0, 1, 2, 5, 12])):
            r = rng.random()
            if gs and r < 0.5:
                j = rng.randrange(len(gs))
                cur = list(cur)
                cur[j] = rng.choice(pools[j])
            rows.append((rng.choice(STRS + ["", "T1", "T2"]), list(cur)))
        fields = t.enc_list_grouped(pname, [g[1] for g in gs], rows)
        exp = "ok list grouped_by=[{}] raw=[{}] values={} grouped=[{}]".format(
            ",".join("/" + hx(g[1]) for g in gs), ",".join(f"/{hx(k)}:{hx(v)}" for k, v in fields),
            "[" + ",".join(hx(v) for v, _ in rows) + "]" if n == 0 else "na",
            ",".join(f"{hx(v)}({';'.join(hx(g) for g in g_)})" for v, g_ in rows))
        # a tag made by hand with a known tag's own (canonical) name is the same tag: a quarter of the lists name their tags that way
        spec_of = lambda i, nm: ("o:" + nm.encode().hex()) if rng.random() < 0.25 else "n:" + i
        add(f"list-{n}", "List", "+".join(spec_of(i, nm) for i, nm in chosen), fields, exp)
    # ---- playlists
    for _ in range(40):
        pl = [(rng.choice(STRS), rng.choice(TS)) for _ in range(rng.choice([0, 1, 2, 5]))]
        fields = [x for n_, ts in pl for x in (("playlist", n_), ("Last-Modified", ts))]
        add("playlists", "GetPlaylists", None, fields, "ok playlists [" + ",".join(f"{hx(a)}@{hx(b_)}" for a, b_ in pl) + "]")
    # names that are legal but unusual: empty (a file called ".m3u"), blanks only, with '=' ':' — alone, first, between others, last
    for odd in ["", " ", "  x ", "a: b", "=", "Last-Modified", "playlist"]:
        for pl in ([(odd, TS[0])], [(odd, TS[0]), ("b", TS[-1])], [("a", TS[0]), (odd, TS[-1]), ("c", TS[0])], [("a", TS[0]), (odd, TS[-1])], [(odd, TS[0]), (odd, TS[0])]):
            fields = [x for n_, ts in pl for x in (("playlist", n_), ("Last-Modified", ts))]
            add("playlists-odd-names", "GetPlaylists", None, fields, "ok playlists [" + ",".join(f"{hx(a)}@{hx(b_)}" for a, b_ in pl) + "]")
    for bad in ["", "yesterday", "1700000000", "2024-01-02", "x024-01-02T03:04:05Z"]:
        add("playlists-domain", "GetPlaylists", None, [("playlist", "p"), ("Last-Modified", bad)], "err invalid Last-Modified")
    # ---- stickers: values containing '=' survive; find pairs each sticker with the preceding file
    for _ in range(60):
        name, val = rng.choice(NAMES), rng.choice(STRS + ["", "==", "a=b=c", "=x"])
        add("sticker-get", "StickerGet", None, [("sticker", f"{name}={val}")], "ok sticker " + hx(val))
        names = rng.sample(NAMES, rng.choice([0, 1, 3, 6]))
        m = {n_: rng.choice(STRS + ["", "==", "a=b=c", "=x"]) for n_ in names}
        add("sticker-list", "StickerList", None, [("sticker", f"{a}={b_}") for a, b_ in m.items()],
            "ok stickers [" + ",".join(f"{hx(a)}={hx(m[a])}" for a in sorted(m, key=lambda z: z.encode())) + "]")
        files = rng.sample(["a.mp3", "dir/b c.flac", "é.ogg", "x=y.mp3", "f"], rng.choice([0, 1, 3, 5]))
        m = {f: rng.choice(STRS + ["", "==", "a=b=c"]) for f in files}
        add("sticker-find", "StickerFind", None, [x for f in files for x in (("file", f), ("sticker", f"{name}={m[f]}"))],
            "ok stickers [" + ",".join(f"{hx(a)}={hx(m[a])}" for a in sorted(m, key=lambda z: z.encode())) + "]")
    add("sticker-domain", "StickerGet", None, [("sticker", "novalue")], "err invalid sticker")
    add("sticker-domain", "StickerList", None, [("sticker", "a=b"), ("sticker", "novalue")], "err invalid sticker")
    # ---- channels, messages, tag types, ids, album art
    for _ in range(30):
        ch = [rng.choice(STRS) for _ in range(rng.choice([0, 1, 4]))]
        add("channels", "ListChannels", None, [("channel", c) for c in ch], "ok channels [" + ",".join(hx(c) for c in ch) + "]")
        ms = [(rng.choice(NAMES), rng.choice(STRS)) for _ in range(rng.choice([0, 1, 4]))]
        add("messages", "ReadChannelMessages", None, [x for c, m_ in ms for x in (("channel", c), ("message", m_))],
            "ok messages [" + ",".join(f"{hx(c)}:{hx(m_)}" for c, m_ in ms) + "]")
        tt = [rng.choice(tags)[1] for _ in range(rng.choice([0, 1, 5, 31]))]
        add("tagtypes", "GetEnabledTagTypes", None, [("tagtype", n_) for n_ in tt], "ok tags [" + ",".join("/" + hx(n_) for n_ in tt) + "]")
    import mpdgen as _g
    for bad in ["", "a b", "é", "x:y", "Künstler", "Interprète", "日本", "Artist1", "1", "a.b"] + ["Art" + ch for ch in _g.TRICKY_CHARS] + list(_g.TRICKY_CHARS):
        add("tagtypes-domain", "GetEnabledTagTypes", None, [("tagtype", "Artist"), ("tagtype", bad)], "err invalid tagtype")
    for v in BOUND["u64"]:
        for ident, field in (("Update", "updating_db"), ("Rescan", "updating_db"), ("Add", "Id")):
            add("ids", ident, None, [(field, str(v))], f"ok id {v}")
    for bad in BAD["u64"]:
        for ident, field in (("Update", "updating_db"), ("Rescan", "updating_db"), ("Add", "Id")):
            add("ids-domain", ident, None, [(field, bad)], "err invalid " + field)
    for _ in range(30):
        data = bytes(rng.choice([0, 10, 79, 75, 255, rng.randrange(256)]) for _ in range(rng.choice([0, 1, 8, 300])))
        size = rng.choice(BOUND["usize"])
        mime = rng.choice([None, "image/png", "image/jpeg"])
        for ident in ("AlbumArt", "AlbumArtEmbedded"):
            add("albumart", ident, None, [("size", str(size))] + ([("type", mime)] if mime else []),
                f"ok albumart size={size} mime={t.opt(mime, hx)} data={hx(data)}", binary=data)
    add("albumart", "AlbumArt", None, [], "ok albumart none")
    return cases, expect, dist


def run(ctx, only=None):
    tl = ctx.run_impl(["tag_list"])[0].split(" ")
    ctx.tags = [(x.split("=")[0], unhexs(x.split("=")[1]).decode()) for x in tl]
    if only is not None:
        cases, expect, dist = only["cases"], only["expect"], {}
    else:
        cases, expect, dist = gen(ctx)
    impl = ctx.run_impl(cases)
    model = ctx.run_model(cases) if ctx.model_ok else None
    dis = t.compare(cases, impl, model) if model is not None else []
    if model is not None and MIRROR and only is None:
        # the Python mirror of the spec-side encoder must agree with TypedSpec.enc_status (extracted from Coq)
        coq = ctx.run_model([m[0] for m in MIRROR])
        bad = [(m[0], m[1], c) for m, c in zip(MIRROR, coq) if m[1] != c]
        if bad:
            ctx.broken.append(("spec-mirror", "typedlib.enc_status vs TypedSpec.enc_status",
                               f"{len(bad)} abstract replies encode differently, e.g. {bad[0][0][:200]}: python {bad[0][1][:300]} coq {bad[0][2][:300]}"))
        ctx.notes.append(f"spec mirror: {len(MIRROR)} abstract status replies encoded identically by the Python mirror and by TypedSpec.enc_status")
    fails = []
    for c, out, exp in zip(cases, impl, expect):
        if exp is None:
            continue
        got = strip_idents(out)
        ok = got.startswith(exp) if exp.startswith("err ") else got == exp
        if not ok:
            toks = c.split(" ")
            fails.append(Failure(c, f"{toks[1]} {toks[2]} on reply {unhexs(toks[3])!r}\n  value the server sent (spec): {exp[:700]}\n"
                                    f"  value decoded by the code:    {out[:700]}", extra={"expect": exp}))
    fails.sort(key=lambda f: len(f.case))      # report the shortest failing input first
    if only is not None:
        for i, c in enumerate(cases):
            print("case :", c[:800], "\nimpl :", impl[i][:800])
            if model is not None:
                print("model:", model[i][:800])
            print("spec :", (expect[i] or "")[:800])
    return finish(
        ctx, evaluations=len(cases), distinct_nontrivial=len({c for c, e in zip(cases, expect) if e and len(c) > 40}),
        rule="abstract replies generated from the spec-side records (every optional-field subset of status of size <= 2 and >= k-1 plus "
             "sampled subsets, MPD field order and random permutations, boundary numbers per width 0/max, every enum spelling, out-of-domain "
             "values max+1/400 digits/non-numerals/foreign spellings one field at a time, sticker values containing '=', grouped count and "
             "grouped list with repeated and changing group keys for 0..3 grouping tags), encoded to wire bytes, parsed by the real parser, "
             "decoded by the real Command::response; durations are generated inside the exactness domain of the model (no exponent, <= 9 "
             "fraction digits, < 2^22 s) and compared as nanoseconds; timestamps only in the canonical MPD form; oracle = canonical print of "
             "the abstract value (tag identifiers stripped, names compared); non-trivial = a case carrying an expectation",
        samples=[cases[0][:300], cases[-1][:300]], distribution=dist, oracle_failures=fails, disagreements=dis, exhaustive=False)


def replay(ctx, payload):
    cases = payload.get("cases", [])
    exp = payload.get("extra", {}).get("expect")
    return run(ctx, only={"cases": cases, "expect": [exp for _ in cases]})
