"""C20 — tags and subsystems compare, hash and parse by protocol name."""
import itertools
from vlib import Failure, compare, finish, hexs, unhexs

COQ_FILES = ["Bytes.v", "Tables.v", "TagModel.v", "TagSpec.v", "TagProofs.v"]

ALLOWED = set(b"ABCDEFGHIJKLMNOPQRSTUVWXYZabcdefghijklmnopqrstuvwxyz_-")


def mixed(s):
    return "".join(c.upper() if i % 2 else c.lower() for i, c in enumerate(s))


def parse_list(line):
    out = []
    for tok in line.split(" "):
        if "=" in tok:
            k, v = tok.split("=", 1)
            out.append((k, unhexs(v).decode()))
    return out


def build_cases(ctx, tags, subs):
    cases = []
    names = [n for _, n in tags]
    unknown = ["Foo", "x", "any", "MUSICBRAINZ_RELEASEGROUPID", "TitleSort", "a-b_c", "Albumx", "Albu", "-", "_"]
    # parsing: every name in four letter cases, unknown names, invalid strings
    for n in names:
        for s in {n, n.lower(), n.upper(), mixed(n)}:
            cases.append("tag_parse " + hexs(s))
    for s in unknown:
        cases.append("tag_parse " + hexs(s))
    invalid = ["", " ", "a1", "a b", "ä", "Album ", " Album", "Al.bum", "Album\n", "a\x00b", "älbum", "Albumä", "a\U0001F600", "1", "Artist:"]
    for c in range(128):
        invalid.append("a" + chr(c) + "b")
        invalid.append(chr(c))
    # every known name with one character replaced by / followed by a character a sloppy conversion mistreats (case-folds to
    # ASCII, looks like a letter in another alphabet, shares its low byte with an ASCII character)
    import mpdgen as g
    for n in names:
        for ch in g.TRICKY_CHARS:
            for pos in sorted({0, len(n) // 2, len(n) - 1}):
                invalid.append(n[:pos] + ch + n[pos + 1:])
            invalid.append(n + ch)
            # replace every k/K/s/S/i/I by its look-alike
        for src, dst in (("k", "\u212a"), ("K", "\u212a"), ("s", "\u017f"), ("S", "\u017f"), ("i", "\u0131"), ("I", "\u0130")):
            if src in n:
                invalid.append(n.replace(src, dst))
                invalid.append(n.replace(src, dst, 1))
    for s in invalid:
        cases.append("tag_parse " + hexs(s))
    # comparisons: all pairs over variants and catch-all values holding each name in four cases
    specs = []
    for ident, n in tags:
        specs.append("n:" + ident)
        for s in sorted({n, n.lower(), n.upper(), mixed(n)}):
            specs.append("o:" + hexs(s))
    for s in unknown[:6]:
        specs.append("o:" + hexs(s))
    pairs = list(itertools.product(specs, specs))
    if ctx.tier == "quick":
        # all pairs that share a name ignoring case, plus a seeded sample of the rest
        def key(sp):
            if sp.startswith("n:"):
                return dict(tags)[sp[2:]].lower()
            return unhexs(sp[2:]).decode().lower()
        close = [p for p in pairs if key(p[0]) == key(p[1])]
        rest = [p for p in pairs if key(p[0]) != key(p[1])]
        ctx.rng.shuffle(rest)
        pairs = close + rest[:3000]
    for a, b_ in pairs:
        cases.append(f"tag_cmp {a} {b_}")
    for sp in specs:
        cases.append("tag_rt " + sp)
    # subsystems, each through a real idle reply
    subnames = [n for _, n in subs] + ["foo", "Player", "PLAYER", "stored_playlis", "x-y", "ß", "playlist2", "queue", "Queue",
                                        # a known name with something around it is another name (nothing is trimmed or folded)
                                        "player\r", "player ", "player\t", " player", "mixer\u00a0", "output\r", "database ", "player\x0b",
                                        "pl\u0131ayer", "update\x00"]
    for n in subnames:
        cases.append("sub " + hexs(n))
    # pairs: every value against every other (named vs named, named vs catch-all, catch-all vs catch-all)
    for a in subnames:
        for b_ in subnames:
            cases.append("sub_cmp " + hexs(a) + " " + hexs(b_))
    return cases


def oracle(ctx, cases, impl, tags, subs, spec_tags, spec_subs):
    fails = []
    by_lower = {}
    for ident, n in tags:
        by_lower.setdefault(n.lower(), []).append(ident)
        if n not in spec_tags:
            fails.append(Failure("tag_list", f"variant {ident} has protocol name {n!r}, which is not an MPD tag name"))
    for low, ids in by_lower.items():
        if len(ids) > 1:
            fails.append(Failure("tag_list", f"variants {ids} share the protocol name {low!r}"))
    for ident, n in subs:
        if n not in spec_subs:
            fails.append(Failure("sub_list", f"subsystem variant {ident} has protocol name {n!r}, not an MPD subsystem"))
    name_of = dict(tags)
    for c, out in zip(cases, impl):
        t = c.split(" ")
        if out.startswith("panic"):
            fails.append(Failure(c, "panic: " + out))
            continue
        if out.startswith("INCONSISTENT"):
            continue        # reported by vlib.marker_failures with this case as the failing input
        if t[0] == "tag_parse":
            s = unhexs(t[1])
            if not s:
                exp = "err empty"
            else:
                bad = [i for i, x in enumerate(s) if x not in ALLOWED]
                if bad:
                    exp = f"err char {bad[0]}"
                else:
                    ids = by_lower.get(s.decode().lower())
                    exp = f"ok named {ids[0]}" if ids else f"ok other {hexs(s)}"
            if out != exp:
                fails.append(Failure(c, f"Tag::try_from({s!r}) gave [{out}], the property requires [{exp}]"))
        elif t[0] == "tag_cmp":
            kv = dict(x.split("=", 1) for x in out.split(" "))
            a, b_ = [unhexs(x) for x in kv["names"].split(",")]
            eq = "1" if a == b_ else "0"
            cmp_ = "eq" if a == b_ else ("lt" if a < b_ else "gt")
            exp = {"eq": eq, "cmp": cmp_, "hashcoh": "1", "hmap": eq, "bmap": eq}
            for k, v in exp.items():
                if kv.get(k) != v:
                    fails.append(Failure(c, f"{k}={kv.get(k)} but comparing by protocol name ({a!r} vs {b_!r}) requires {v}"))
                    break
        elif t[0] == "tag_rt":
            if out != "parsed=1 eq=1":
                klass = None
                if t[1].startswith("o:"):
                    s = unhexs(t[1][2:]).decode()
                    ids = by_lower.get(s.lower())
                    if ids and name_of[ids[0]] != s:
                        klass = "noncanonical_known"
                fails.append(Failure(c, f"parsing the tag's own protocol name gave [{out}]", klass))
        elif t[0] == "sub_cmp":
            kv = dict(x.split("=", 1) for x in out.split(" ")) if "=" in out else {}
            same = "1" if t[1] == t[2] else "0"
            if kv.get("eq") != same or kv.get("hset") != same or kv.get("hashcoh") != "1" or kv.get("names") != f"{t[1]},{t[2]}":
                fails.append(Failure(c, f"subsystems for names {unhexs(t[1])!r} and {unhexs(t[2])!r}: [{out}]; comparing and hashing by protocol name requires eq={same} hset={same} hashcoh=1"))
        elif t[0] == "sub":
            kv = dict(x.split("=", 1) for x in out.split(" ")) if "=" in out else {}
            if kv.get("name") != t[1] or kv.get("eq_other") != "1" or kv.get("hashcoh") != "1":
                fails.append(Failure(c, f"subsystem obtained for name {unhexs(t[1])!r}: [{out}]"))
    return fails


def run(ctx, only_cases=None):
    heads = ["tag_list", "sub_list"]
    impl_h = ctx.run_impl(heads)
    tags, subs = parse_list(impl_h[0]), parse_list(impl_h[1])
    disagreements = []
    spec_tags, spec_subs = set(), set()
    if ctx.model_ok:
        model_h = ctx.run_model(heads + ["spec_tag_names", "spec_sub_names"])
        disagreements += compare(heads, impl_h, model_h[:2])
        spec_tags = {unhexs(x).decode() for x in model_h[2].split(" ")}
        spec_subs = {unhexs(x).decode() for x in model_h[3].split(" ")}
    cases = only_cases if only_cases is not None else build_cases(ctx, tags, subs)
    impl = ctx.run_impl(cases)
    if ctx.model_ok:
        model = ctx.run_model(cases)
        disagreements += compare(cases, impl, model)
    fails = oracle(ctx, cases, impl, tags, subs, spec_tags, spec_subs) if spec_tags else []
    if only_cases is not None:
        for c, o in zip(cases, impl):
            print("case :", c)
            print("impl :", o)
        if ctx.model_ok:
            for m in model:
                print("model:", m)
        for f in fails:
            print("oracle:", f.message)
    dist = {}
    for c in cases:
        k = c.split(" ")[0]
        dist[k] = dist.get(k, 0) + 1
    nontrivial = {c for c in cases if c.split(" ")[0] != "tag_cmp" or c.split(" ")[1] != c.split(" ")[2]}
    return finish(
        ctx,
        evaluations=len(cases) + 2,
        distinct_nontrivial=len(nontrivial),
        rule="every variant name in 4 letter cases, unknown and invalid strings (each ASCII byte inside and alone), "
             "pairs over {31 variants} x {Other(name) in 4 cases} (quick: all same-name pairs + 3000 sampled; thorough: all pairs), "
             "round trip of every value's own name, every subsystem name through a real idle reply; "
             "non-trivial = not a comparison of a value with itself; distinct = distinct case lines",
        samples=[cases[0], cases[len(cases) // 2], cases[-1]],
        distribution=dist,
        oracle_failures=fails,
        disagreements=disagreements,
        exhaustive=(ctx.tier == "thorough"),
    )


def replay(ctx, payload):
    cases = [c for c in payload.get("cases", []) if c not in ("tag_list", "sub_list")]
    return run(ctx, only_cases=cases)
