"""C07 — user-supplied strings can never add a command or change list framing."""
import itertools
import mpdgen as g
from vlib import Failure, compare, finish, hexs, unhexs

COQ_FILES = ["Bytes.v", "Tables.v", "CommandModel.v", "MpdTokenizer.v", "CommandProofs.v"]

NAME_ALPHABET = ["a", "Z", "0", "9", "_", " ", "\n", "\x00", '"', "'", "\t", "é", "-", "\r"]
MPD_WORD = set("ABCDEFGHIJKLMNOPQRSTUVWXYZabcdefghijklmnopqrstuvwxyz0123456789_")
BEGIN, END = b"command_list_ok_begin", b"command_list_end"


def gen(ctx):
    rng = ctx.rng
    cases = []
    names = [""]
    for ln in (1, 2):
        names += ["".join(t) for t in itertools.product(NAME_ALPHABET, repeat=ln)]
    names += ["command_list_begin", "command_list_ok_begin", "command_list_end", "command_list", "command_lis",
              "command_listx", "command_list_", "Command_list_end", "xcommand_list_end", "COMMAND_LIST_END",
              "command_list_end ", "status\nclose", "status\n", "\nstatus", "st atus", "status", "x" * 3000, "play1",
              "noidle", "idle", "日本", "a b", "close\r"]
    for ch in g.TRICKY_CHARS:          # Unicode numerics/letters, case-folding characters, low-byte look-alikes of ASCII
        names += ["x" + ch, "track" + ch, ch, ch + "x", "command_list" + ch, "find" + ch + "y"]
    for n in names:
        cases.append("cmd_build " + hexs(n))
    # long commands inside lists (a fast path for commands beyond some size must still end each with its line feed)
    for ln in (1459, 1460, 4090, 4091, 4092, 4093, 4094, 4095, 4096, 4097, 5000, 8192, 20000):
        long_cmd = ",".join([hexs("add"), hexs("x" * ln)])
        short = ",".join([hexs("status")])
        for shape in ([long_cmd, short], [short, long_cmd], [short, long_cmd, short], [long_cmd, long_cmd]):
            cases.append(" ".join(["cmd_list", rng.choice(["add", "command", "extend"])] + shape))
    # a line feed at every position of a long argument, after every kind of neighbour (a word-at-a-time scan must not miss
    # one), through the string renderers (quoted) and the raw renderer (unquoted)
    for pos in list(range(0, 40)) + [63, 64, 65, 127, 128, 255, 256, 257, 300, 1000]:
        for prev in (b"", b"\x01", b"\x09", b"\x0b", b"a", b"\xff", b'"', b"\\"):
            body = (b"q" * pos)[: max(0, pos - len(prev))] + prev + b"\n" + rng.choice([b"", b"kill", b"x" * 20, b"command_list_end"])
            ty = rng.choice(["s", "c", "r", "r"])
            try:
                body.decode()
            except UnicodeDecodeError:
                ty = "r"
            cases.append(" ".join(["cmd_args", hexs("find"), "s:" + hexs("a"), f"{ty}:{hexs(body)}", "s:" + hexs("fallback")]))
    # long rejected arguments: whatever is kept for the error message, the command must be exactly as before
    for ln in (100, 255, 256, 257, 258, 300, 511, 512, 513, 1000, 5000):
        for where in ("front", "middle", "end"):
            raw = b"x" * ln
            i = {"front": 1, "middle": ln // 2, "end": ln - 1}[where]
            raw = raw[:i] + b"\nkill\n" + raw[i:]
            cases.append(" ".join(["cmd_args", hexs("sticker"), "s:" + hexs("comment"), f"{rng.choice(['s', 'r', 'cb'])}:{hexs(raw)}", "s:" + hexs("fallback")]))
    # argument sequences: accepted / rejected add_argument calls of every Argument kind
    lfs = ["\n", "\nx", "x\n", "a\nb", "a b\nc", "\n\n", '"\n"', "x\\\n"]
    oks = ["x", "a b", "", '"', "é", "\\", "a\rb", "0"]
    n_seq = 300 if ctx.tier == "quick" else 3000
    for i in range(n_seq):
        k = rng.choice([1, 2, 3, 4, 5, 6])
        specs = []
        for _ in range(k):
            r = rng.random()
            if r < 0.30:
                specs.append(f"{rng.choice(['s', 'S', 'c', 'cb'])}:{hexs(rng.choice(lfs))}")
            elif r < 0.55:
                specs.append(f"{rng.choice(['s', 'S', 'c', 'cb'])}:{hexs(rng.choice(oks))}")
            elif r < 0.70:
                raw = bytes(rng.choice([10, 10, 32, 0, 255, 65, 34, 13]) for _ in range(rng.choice([0, 1, 2, 3, 5])))
                specs.append("r:" + hexs(raw))
            elif r < 0.75:
                specs.append("t:" + hexs(rng.choice(["Artist", "x-y", "Artist\nkill", "\n", "a\x00b", "mood\ncommand_list_end", "ok", ""])))
            elif r < 0.80:
                specs.append("b:" + rng.choice("01"))
            elif r < 0.92:
                ty, mx = rng.choice([("u8", 255), ("u16", 65535), ("u32", 2**32 - 1), ("u64", 2**64 - 1), ("usize", 2**64 - 1)])
                specs.append(f"{ty}:{rng.choice([0, 1, mx - 1, mx, rng.randrange(mx + 1)])}")
            else:
                specs.append(f"d:{rng.choice([0, 1, 59, 2**32, 2**64 - 1])}.{rng.choice([0, 1, 499999, 500000, 999999999])}")
        cases.append(" ".join(["cmd_args", hexs(rng.choice(["find", "x", "sticker"]))] + specs))
    # lists
    n_list = 150 if ctx.tier == "quick" else 1500
    for i in range(n_list):
        n = rng.choice([1, 1, 2, 2, 3, 4, 6, 9]) if ctx.tier == "quick" else rng.choice([1, 2, 3, 5, 8, 20, 40])
        cmds = []
        for _ in range(n):
            name = rng.choice(["status", "play", "add", "x", "command", "list"])
            args = [rng.choice(["a", "b c", "", "command_list_end", "x y z", '"', "é"]) for _ in range(rng.choice([0, 0, 1, 2]))]
            cmds.append(",".join([hexs(name)] + [hexs(a) for a in args]))
        cases.append(" ".join(["cmd_list", rng.choice(["add", "command", "extend"])] + cmds))
    return cases


def oracle(cases, impl):
    fails = []
    for c, out in zip(cases, impl):
        t = c.split(" ")
        if out.startswith("panic"):
            fails.append(Failure(c, "panic: " + out))
            continue
        if t[0] == "cmd_build":
            name = unhexs(t[1]).decode()
            must_reject = (name == "" or any(ch not in MPD_WORD for ch in name) or name.startswith("command_list"))
            if out.startswith("ok "):
                sent = unhexs(out.split(" ")[1])
                if must_reject:
                    fails.append(Failure(c, f"command name {name!r} was accepted; it wrote {sent!r}"))
                elif sent != name.encode() + b"\n":
                    fails.append(Failure(c, f"command {name!r} wrote {sent!r}"))
            elif not out.startswith("err "):
                fails.append(Failure(c, "unexpected output " + out))
        elif t[0] == "cmd_args":
            steps = out.split(" ; ")
            if not steps[0].startswith("ok "):
                continue
            prev = unhexs(steps[0].split(" ")[1])
            for spec, st in zip(t[2:], steps[1:]):
                res, hx = st.split(" ")
                cur = unhexs(hx)
                ty, val = spec.split(":", 1)
                has_lf = (b"\n" in unhexs(val)) if ty in ("s", "S", "c", "cb", "r") else False
                if cur.count(b"\n") != 1 or not cur.endswith(b"\n"):
                    nl = cur.count(b"\n")
                    fails.append(Failure(c, f"after argument {spec}: the command occupies {nl} lines: {cur!r}"))
                    break
                if res != "ok":
                    if cur != prev:
                        fails.append(Failure(c, f"rejected argument {spec} changed the command: before {prev!r}, after {cur!r}"))
                        break
                elif has_lf:
                    fails.append(Failure(c, f"argument {spec} holds a line feed but was accepted: command before {prev!r}, after {cur!r}"))
                    break
                else:
                    if not cur.startswith(prev[:-1] + b" "):
                        fails.append(Failure(c, f"argument {spec}: command before {prev!r}, after {cur!r}"))
                        break
                    if ty == "r" and cur != prev[:-1] + b" " + unhexs(val) + b"\n":
                        fails.append(Failure(c, f"raw argument {spec}: command before {prev!r}, after {cur!r}"))
                        break
                prev = cur
        elif t[0] == "cmd_list":
            if not out.startswith("len="):
                continue
            kv = dict(x.split("=", 1) for x in out.split(" "))
            n = len(t) - 2
            data = unhexs(kv["bytes"])
            lines = data.split(b"\n")
            if int(kv["len"]) != n or lines[-1] != b"":
                fails.append(Failure(c, f"list of {n}: len={kv['len']} bytes={data!r}"))
                continue
            lines = lines[:-1]
            if n == 1:
                ok = len(lines) == 1 and not lines[0].startswith(b"command_list")
            else:
                ok = (len(lines) == n + 2 and lines[0] == BEGIN and lines[-1] == END
                      and all(not l.split(b" ")[0].startswith(b"command_list") for l in lines[1:-1]))
            if not ok:
                fails.append(Failure(c, f"list of {n} commands was written as {data!r}"))
    return fails


PASSWORDS_LF = [b"x\nkill", b"hunter2\n", b"\n", b"x\"\nkill\n\"", b"x\ncommand_list_begin", b"a b\nclose", b"\nidle", "pä\nkill".encode(), b"x" * 300 + b"\nkill"]
PASSWORDS_OK = [b"ok", b"a b", b"q\"t", b"it's", b"back\\slash", b"tab\there", b"cr\rhere", b"\x1b[0m", b"\x7f", "é".encode(), b""]


def password_cases():
    """The password handed to Client::connect_with_password is a user-supplied string that becomes a command argument too."""
    import looplib as L
    scheds = []
    for api in "po":
        for pw in PASSWORDS_LF + PASSWORDS_OK:
            scheds.append(L.Sched(cspec=f"{api}:{hexs(pw)}", conf=L.conf(pw=pw), labels=["D0", "S*", "D0", "S*", "t200"], note=f"password {pw[:30]!r}"))
    return scheds


def run_passwords(ctx):
    import looplib as L
    scheds = password_cases()
    results = L.run_schedules(ctx, scheds)
    fails = []
    for r, s in zip(results, scheds):
        t = L.Trace(r)
        written = b"".join(l + b"\n" for _, l in t.written_lines())
        pw = unhexs(s.cspec.split(":", 1)[1])
        # one request was asked for (the password), and after the server's verdict the client's own idle: whatever the password
        # contains, no other line may appear, and nothing of the password may stand on a line of its own
        lines = [l for _, l in t.written_lines()]
        extra = [l for l in lines[1:] if l != b"idle"]
        if lines and not lines[0].startswith(b"password "):
            fails.append(Failure(s.model_case(), f"[{s.note}] the first line written is {lines[0][:80]!r}, not the password command", extra={"password": True}))
        elif extra or len(lines) > 2:
            fails.append(Failure(s.model_case(), f"[{s.note}] connecting with this password wrote the lines {lines[:5]}: a user-supplied string added a line "
                                                 f"(allowed: the password command, then the client's idle; or nothing at all)", extra={"password": True}))
        elif b"\n" in pw and lines:
            fails.append(Failure(s.model_case(), f"[{s.note}] a password containing a line feed was sent as {written[:120]!r}", extra={"password": True}))
    return scheds, fails, L.disagreements(results)


def run(ctx, only=None):
    if only is not None and only and only[0].startswith("loopm "):
        import looplib as L
        scheds = [L.Sched(cspec=c.split(" ")[1], conf=c.split(" ")[2], labels=c.split(" ")[3:]) for c in only]
        results = L.run_schedules(ctx, scheds)
        for r in results:
            print("labels:", " ".join(r["sched"].labels), "\nimpl  :", r["impl_raw"][:1500], "\nmodel :", " ".join(r["model_segs"])[:1500])
        bad = [r for r in results if len([l for _, l in L.Trace(r).written_lines() if l != b"idle"]) > 1 or L.disagreements([r])]
        for r in bad:
            print("VIOLATION property=C07 replay=(this case) lines written:", [l for _, l in L.Trace(r).written_lines()][:5])
        return 1 if bad else 0
    cases = only if only is not None else gen(ctx)
    impl = ctx.run_impl(cases)
    disagreements = []
    model = []
    if ctx.model_ok:
        corr = [(c, a) for c, a in zip(cases, impl) if " d:" not in c]   # Duration rendering is float formatting: impl-only
        model = ctx.run_model([c for c, _ in corr])
        disagreements = compare([c for c, _ in corr], [a for _, a in corr], model)
    fails = oracle(cases, impl)
    npw = 0
    if only is None and ctx.model_ok:
        pws, pwfails, pwdis = run_passwords(ctx)
        npw = len(pws)
        fails += pwfails
        disagreements += pwdis
    if only is not None:
        for c, o in zip(cases, impl):
            print("case :", c, "\nimpl :", o)
        for m in model:
            print("model:", m)
        for f in fails:
            print("oracle:", f.message)
    dist = {}
    for c, o in zip(cases, impl):
        k = c.split(" ")[0] + ":" + ("accepted" if o.startswith(("ok", "len=")) and "err" not in o else "some-rejection")
        dist[k] = dist.get(k, 0) + 1
    nontrivial = {c for c, o in zip(cases, impl) if "err" in o or c.startswith("cmd_list")}
    return finish(
        ctx, evaluations=len(cases) + npw, distinct_nontrivial=len(nontrivial) + npw,
        rule="all command names of length <= 2 over a 14-symbol alphabet plus list-framing names and near misses; random sequences of <= 6 "
             "add_argument calls mixing str/String/Cow/raw-bytes/bool/integer/Duration arguments with and without line feeds, the command "
             "observed after every call; lists of 1..9 (thorough ..40) commands through add/command/extend; "
             "arguments whose renderer is stateful (a line feed on its k-th call only); passwords with line feeds / quotes / control "
             "characters through Client::connect_with_password(_opt) against the simulated server (lines written: the password command and "
             "the client's idle, or nothing); non-trivial = a rejection occurred or a list was rendered",
        samples=[cases[3], cases[len(cases) // 2], cases[-1]], distribution=dist,
        oracle_failures=fails, disagreements=disagreements,
    )


def replay(ctx, payload):
    return run(ctx, only=payload.get("cases", []))
