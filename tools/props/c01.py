"""C01 — every request is answered with its own reply, in issue order."""
import looplib as L
from vlib import Failure, finish, hexs

COQ_FILES = L.LOOP_COQ_FILES + L.REFINE_COQ_FILES + L.CANCEL_COQ_FILES + L.MUTE_COQ_FILES


def corpus():
    e = lambda *a: L.spec("echo", *a)
    out = []
    # a notification reply and a request reply back to back in one read: the first goes to the event path
    out.append((L.Sched(labels=["D0", "S*", "i1:" + e("a"), "N:" + hexs("player"), "S*", "D0"] + L.flush(1), note="idle reply + noidle race, replies in one read"),
                {"requests": {1: ("i", [e("a")])}, "cancelled": set(), "notified": ["player"], "fault_free": True}))
    # partial failure of a list
    specs = [e("a"), e("b"), L.spec("fail", "5"), e("c")]
    out.append((L.Sched(labels=["D0", "i1:" + ",".join(specs)] + L.flush(1), note="list failing at index 2"),
                {"requests": {1: ("i", specs)}, "cancelled": set(), "notified": []}))
    # a command that fails after it has written part of its output: in a list (the frames before it, not its partial one) and alone
    specs2 = [e("a"), L.spec("pfail", "5", "x"), e("c")]
    out.append((L.Sched(labels=["D0", "i1:" + ",".join(specs2)] + L.flush(1), note="list whose second command fails after partial output"),
                {"requests": {1: ("i", specs2)}, "cancelled": set(), "notified": [], "fault_free": True}))
    out.append((L.Sched(labels=["D0", "c1:" + L.spec("pfail", "50", "y"), "i2:" + L.spec("pfail", "2", "z"), "c3:" + e("after")] + L.flush(3), note="single commands failing after partial output"),
                {"requests": {1: ("c", [L.spec("pfail", "50", "y")]), 2: ("i", [L.spec("pfail", "2", "z")]), 3: ("c", [e("after")])}, "cancelled": set(), "notified": [], "fault_free": True}))
    # cancel the request in flight; the next caller must still get its own reply
    out.append((L.Sched(labels=["D0", "c1:" + e("one"), "c2:" + e("two"), "S*", "x1", "D0", "S*", "D0"] + L.flush(2), note="cancel the in-flight request"),
                {"requests": {1: ("c", [e("one")]), 2: ("c", [e("two")])}, "cancelled": {1}, "notified": []}))
    # cancel a queued request
    out.append((L.Sched(labels=["D0", "c1:" + e("one"), "c2:" + e("two"), "c3:" + e("three"), "x2", "S*", "D0"] + L.flush(3), note="cancel a queued request"),
                {"requests": {1: ("c", [e("one")]), 2: ("c", [e("two")]), 3: ("c", [e("three")])}, "cancelled": {2}, "notified": []}))
    # back-pressure: a request taken inside the re-idle window while the peer does not read; the window's timer must not touch the write
    out.append((L.Sched(labels=["D0", "c1:" + e("one"), "S*", "D0", "S*", "D0", "p", "i2:" + e("two") + "," + e("three"), "t150", "u"] + L.flush(2), note="blocked write inside the window"),
                {"requests": {1: ("c", [e("one")]), 2: ("i", [e("two"), e("three")])}, "cancelled": set(), "notified": [], "fault_free": True}))
    # the idle reply arrives in three pieces and the request is issued between the second and the third
    for k in range(1, 18):
        out.append((L.Sched(labels=["D0", "S*", "N:" + hexs("player"), f"D{k}", "D1", "c1:" + e("one"), "D0", "S*", "D0"] + L.flush(1), note=f"idle reply in three pieces ({k})"),
                    {"requests": {1: ("c", [e("one")])}, "cancelled": set(), "notified": ["player"], "fault_free": True}))
    for nmany in (257, 300, 1000):
        reqs_m = {i: ("c", [e(f"q{i}")]) for i in range(1, nmany + 1)}
        out.append((L.Sched(labels=["D0", "S*", "D0"] + [f"c{i}:" + e(f"q{i}") for i in range(1, nmany + 1)] + L.flush(nmany), note=f"{nmany} callers at once"),
                    {"requests": reqs_m, "cancelled": set(), "notified": [], "fault_free": True}))
    # far more requests pending at once than any bounded queue would take
    reqs = {i: ("c", [e(f"q{i}")]) for i in range(1, 201)}
    out.append((L.Sched(labels=["D0"] + [f"c{i}:" + e(f"q{i}") for i in range(1, 201)] + L.flush(200), note="200 callers at once"),
                {"requests": reqs, "cancelled": set(), "notified": [], "fault_free": True}))
    return out


def gen(ctx):
    rng = ctx.rng
    items = corpus()
    n = 150 if ctx.tier == "quick" else 3000
    for _ in range(n):
        labels, info, nreq = L.gen_session(rng, rng.choice([8, 20, 50, 90]), pauses=True)
        info["fault_free"] = True
        items.append((L.Sched(labels=labels + L.flush(nreq), note="random session"), info))
    # sessions inside the fragment of the refinement theorems (c01_exec_own_replies)
    for _ in range(40 if ctx.tier == "quick" else 800):
        labels, info, nreq = L.gen_fragment_session(rng, rng.choice([8, 20, 50, 90]), tricky=False)
        info["fault_free"] = True
        items.append((L.Sched(labels=labels + L.flush(nreq), note="fragment session"), info))
    # ... and sessions in the domain of the erasure theorem (c01_exec_cancel_session): the same, with callers giving up
    for _ in range(40 if ctx.tier == "quick" else 800):
        labels, info, nreq = L.gen_fragment_session(rng, rng.choice([8, 20, 50, 90]), tricky=False, cancels=True, drops=rng.random() < 0.3)
        info["fault_free"] = True
        items.append((L.Sched(labels=labels + L.flush(nreq), note="fragment session with cancellations"), info))
    return items


def run(ctx, only=None):
    items = only if only is not None else gen(ctx)
    scheds = [s for s, _ in items]
    results = L.run_schedules(ctx, scheds)
    dis = L.disagreements(results)
    fails = []
    nontrivial = 0
    resolved = 0
    for r, (s, info) in zip(results, items):
        t = L.Trace(r)
        if t.panic:
            fails.append(Failure(s.model_case(), "the client panicked: " + r["impl_raw"][:300]))
        v = L.judge_replies(r, info) if info else []
        res = t.results()
        resolved += len(res)
        if info:
            if len(info["requests"]) >= 2 and info["notified"]:
                nontrivial += 1
            for rid in info["requests"]:
                if rid not in info["cancelled"] and rid not in res:
                    v.append(f"request {rid} never resolved although the server answered everything and the schedule was flushed")
        for m in v[:3]:
            fails.append(Failure(s.model_case(), m, extra={"impl_case": r["impl_case"], "info": {"requests": {str(k): list(x) for k, x in info["requests"].items()}, "cancelled": sorted(info["cancelled"])}}))
    nties = 0
    if only is None:
        tf, nties = L.run_ties(ctx, 25, 500)
        fails += tf
    if only is not None:
        for r in results:
            print("labels:", " ".join(r["sched"].labels)[:1500], "\nops   :", " ".join(r["ops"])[:1500], "\nimpl  :", r["impl_raw"][:2500], "\nmodel :", " ".join(r["model_segs"])[:2500])
    inside, why = L.fragment_membership(ctx, scheds)
    dist = {"in_refinement_fragment": inside, "outside_fragment_first_label_kind": why, "schedules": len(scheds), "requests": sum(len(i["requests"]) for _, i in items if i), "resolved": resolved,
            "cancelled": sum(len(i["cancelled"]) for _, i in items if i), "notifications": sum(len(i["notified"]) for _, i in items if i)}
    return finish(
        ctx, evaluations=len(scheds) + nties, distinct_nontrivial=nontrivial,
        rule="random schedules: up to ~25 requests (single commands and lists of 1..5 commands, some failing part-way, some with binary replies) from "
             "concurrent callers, cancellations of queued and in-flight requests, interleaved subsystem changes, server steps, deliveries of 1..all "
             "bytes and clock advances, then a flush; an echo server makes every reply identify its request line; the oracle recomputes from the "
             "request alone what its caller must receive (frames in order; for a failing list the error with exactly the frames before it; for "
             "raw_command no frames) and checks issue order on the wire; non-trivial = >= 2 requests with notifications interleaved",
        samples=[" ".join(scheds[0].labels)[:300], " ".join(scheds[-1].labels)[:300]], distribution=dist, oracle_failures=fails, disagreements=dis,
    )


def replay(ctx, payload):
    if payload.get("extra", {}).get("tie"):
        return L.replay_tie(ctx, payload)
    items = []
    infos = payload.get("extra", {}).get("info")
    for c in payload.get("cases", []):
        toks = c.split(" ")
        info = None
        if infos:
            info = {"requests": {int(k): (v[0], v[1]) for k, v in infos["requests"].items()}, "cancelled": set(infos["cancelled"]), "notified": []}
        items.append((L.Sched(cspec=toks[1], conf=toks[2], labels=toks[3:]), info))
    return run(ctx, only=items)
