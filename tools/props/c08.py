"""C08 — when the connection ends, every request resolves and the failure is reported."""
import looplib as L
from vlib import Failure, finish, hexs

COQ_FILES = L.LOOP_COQ_FILES + L.REFINE_COQ_FILES + ["LoopDrainProofs.v"] + L.CANCEL_COQ_FILES + ["LoopCancelDrainProofs.v", "LoopMute.v", "LoopMuteProofs.v"]

GARBAGE = [b"foo\n", b"\xff\xfe\n", b"ACK [5@0] {} nope\n", b"OK\nOK\n", b"x: y\n", b"binary: 99999\n", b"binary: 18446744073709551615\n", b"binary: 9223372036854775807\n", b"x: y\nbinary: 9223372036854775808\nabc", b"list_OK\nOK\n", b"ACK [x@0] {} z\n", b"OK\n",
           # one or two bytes that cannot begin anything the server may send: malformed at once, however little has arrived
           b"\n", b"\xff\xfe", b"\xff", b":", b" ", b"\n\n", b"0"]
INVALID = {b"foo\n", b"\xff\xfe\n", b"ACK [x@0] {} z\n", b"\n", b"\xff\xfe", b"\xff", b":", b" ", b"\n\n", b"0"}


def corpus():
    e = lambda *a: L.spec("echo", *a)
    mk = lambda labels, fault, note, reqs: (L.Sched(labels=labels, note=note), {"fault": fault, "requests": reqs, "cancelled": set(), "notified": []})
    return [
        mk(["D0", "S*", "e", "c1:" + e("a"), "t200", "t200"], "e", "clean close while idle, then a request", {1: ("c", [e("a")])}),
        mk(["D0", "c1:" + e("a"), "S*", "D0", "S*", "D5", "e", "c2:" + e("b"), "t200", "t200"], "cut", "stream cut inside the reply of the request in flight", {1: ("c", [e("a")]), 2: ("c", [e("b")])}),
        mk(["D0", "c1:" + e("a"), "c2:" + e("b"), "c3:" + e("c"), "r", "t200", "t200", "e"], "r", "read error with one request in flight and two queued", {1: ("c", [e("a")]), 2: ("c", [e("b")]), 3: ("c", [e("c")])}),
        mk(["D0", "c1:" + e("a"), "c2:" + e("b"), "c3:" + e("c"), "r1", "t200", "t200", "e"], "r", "read error of kind UnexpectedEof with one request in flight and two queued", {1: ("c", [e("a")]), 2: ("c", [e("b")]), 3: ("c", [e("c")])}),
        mk(["D0", "S*", "r1", "t200", "t200"], "r", "read error of kind UnexpectedEof while idle: a failure, not a clean close", {}),
        mk(["D0", "c1:" + e("a"), "S*", "D0", "r1", "t200", "t200"], "r", "read error of kind UnexpectedEof, request written, no byte of its reply yet", {1: ("c", [e("a")])}),
        mk(["D0", "S*", "r3", "t200", "t200"], "r", "read timed out while idle", {}),
        mk(["D0", "c1:" + e("a"), "c2:" + e("b"), "S*", "D0", "S*", "D7", "r8", "t200", "t200"], "r", "reads fail with Interrupted, for good, in the middle of a reply", {1: ("c", [e("a")]), 2: ("c", [e("b")])}),
        mk(["D0", "c1:" + e("a"), "c2:" + e("b"), "S*", "D0", "S*", "D7", "r9", "t200", "t200"], "r", "reads fail with WouldBlock, for good, in the middle of a reply", {1: ("c", [e("a")]), 2: ("c", [e("b")])}),
        mk(["D0", "S*", "r8", "t200", "c1:" + e("a"), "t200"], "r", "reads fail with Interrupted while idle", {1: ("c", [e("a")])}),
        mk(["D0", "w", "c1:" + e("a"), "c2:" + e("b"), "t200", "e", "t200"], "w", "writes fail: noidle cannot be sent", {1: ("c", [e("a")]), 2: ("c", [e("b")])}),
        mk(["D0", "c1:" + e("a"), "S*", "D0", "S*", "D0", "w", "c2:" + e("b"), "t200", "e", "t200"], "w", "write fails inside the window", {1: ("c", [e("a")]), 2: ("c", [e("b")])}),
        mk(["D0", "c1:" + e("a"), "S*", "D0", "S*", "D0", "w", "t100", "e", "t200"], "w", "re-idle write fails", {1: ("c", [e("a")])}),
        mk(["D0", "w1", "c1:" + e("a"), "c2:" + e("b"), "t200", "e", "t200"], "w", "writes take nothing (Ok(0)): noidle cannot be sent", {1: ("c", [e("a")]), 2: ("c", [e("b")])}),
        mk(["D0", "c1:" + e("a"), "S*", "D0", "S*", "D0", "w1", "c2:" + e("b"), "t200", "e", "t200"], "w", "a write takes nothing inside the window", {1: ("c", [e("a")]), 2: ("c", [e("b")])}),
        mk(["D0", "S*", "h", "t200"], "h", "last handle dropped while idle", {}),
        mk(["D0", "S*", "N:" + hexs("player"), "D16", "c1:" + e("a"), "e", "t200", "t200"], "cut",
           "a request interrupts a half received idle reply, then the stream ends", {1: ("c", [e("a")])}),
        mk(["D0", "S*", "N:" + hexs("player"), "D16", "c1:" + e("a"), "c2:" + e("b"), "r", "t200", "t200"], "r",
           "a request interrupts a half received idle reply, then reads fail", {1: ("c", [e("a")]), 2: ("c", [e("b")])}),
        mk(["D0", "G:" + hexs(b"ACK [5@0] {} nope\n"), "c1:" + e("a"), "t200", "e", "t200"], "ack", "server answers idle with an error", {1: ("c", [e("a")])}),
        mk(["D0", "c1:" + e("a"), "G:" + hexs(b"foo\n"), "c2:" + e("b"), "t200", "e", "t200"], "invalid", "malformed reply to noidle", {1: ("c", [e("a")]), 2: ("c", [e("b")])}),
        mk(["D0", "c1:" + e("a"), "S*", "D0", "S*", "G:" + hexs(b"foo\n"), "c2:" + e("b"), "c3:" + e("c"), "t50", "t200", "c4:" + e("d"), "t200", "t200"], "invalid", "malformed reply to the request: queued and later requests still resolve, no end of stream needed", {1: ("c", [e("a")]), 2: ("c", [e("b")]), 3: ("c", [e("c")]), 4: ("c", [e("d")])}),
        mk(["D0", "c1:" + e("a"), "c2:" + e("b"), "S*", "D0", "S*", "G:" + hexs(b"\n"), "t200", "t200"], "invalid", "a stray line feed instead of the reply, then silence", {1: ("c", [e("a")]), 2: ("c", [e("b")])}),
        mk(["D0", "c1:" + e("a"), "c2:" + e("b"), "S*", "D0", "S*", "G:" + hexs(b"\xff\xfe"), "t200", "t200"], "invalid", "two bytes that begin nothing instead of the reply, then silence", {1: ("c", [e("a")]), 2: ("c", [e("b")])}),
        mk(["D0", "S*", "G:" + hexs(b"\n"), "t200", "t200"], "invalid", "a stray line feed while idle, then silence", {}),
        # the application has dropped its ConnectionEvents; requests are answered; later the server goes away while nothing is pending
        mk(["D0", "S*", "Z", "c1:" + e("a"), "S*", "D0", "S*", "D0", "t200", "S*", "D0", "t400", "e", "t200", "c2:" + e("b"), "t200"], "e", "events dropped, a request answered, then a clean close while quiescent", {1: ("c", [e("a")]), 2: ("c", [e("b")])}),
        mk(["D0", "S*", "Z", "c1:" + e("a"), "S*", "D0", "S*", "D0", "t50", "e", "t200", "c2:" + e("b"), "t200"], "e", "events dropped, a request answered, clean close inside the window", {1: ("c", [e("a")]), 2: ("c", [e("b")])}),
        mk(["D0", "S*", "Z", "c1:" + e("a"), "S*", "D0", "S*", "D0", "t200", "S*", "D0", "G:" + hexs(b"what\n"), "t200", "c2:" + e("b"), "t200"], "invalid", "events dropped, a request answered, then malformed data while quiescent", {1: ("c", [e("a")]), 2: ("c", [e("b")])}),
    ] + [
        # the stream ends inside the reply to a list, after every possible number of bytes of it — in particular right behind each list_OK
        mk(["D0", "i1:" + ",".join([e("a"), e("b"), e("c")]), "c2:" + e("z"), "S*", "D3", "S*", f"D{k}", "e", "t200", "t200"], "cut",
           f"stream ends {k} bytes into the reply to a list of three", {1: ("i", [e("a"), e("b"), e("c")]), 2: ("c", [e("z")])})
        for k in range(1, len(b"line: echo a\nlist_OK\nline: echo b\nlist_OK\nline: echo c\nlist_OK\nOK\n"))
    ] + [
        # a long history of events the application has not read yet, then the failure while idle: the closing event is not one that
        # may be dropped for lack of room
        mk(["D0", "S*", "q"] + sum([["N:" + hexs(L.SUBSYSTEMS[i % 14]), "D0", "S*"] for i in range(n)], []) + fault + ["Q", "t200", "t200"], kind,
           f"{n} unread events, then {note}", {})
        for n in (10, 127, 128, 129, 300)
        for fault, kind, note in ((["G:" + hexs(b"what\n")], "invalid", "malformed data while idle"),
                                  (["N:" + hexs("player"), "D9", "e"], "cut", "the stream is cut inside an idle reply"),
                                  (["r2"], "r", "reads fail while idle"))
    ]


def art_cases(rng):
    """album_art is a request like any other: when the connection ends in the middle of a transfer it resolves with the failure."""
    out = []
    for fault in (["e"], ["S*", "D5", "e"], ["G:" + hexs(b"what\n")], ["r"]):
        pic = bytes(range(40))
        labels = ["D0", "a1:" + hexs("foo.mp3")] + ["S*", "D0"] * rng.choice([3, 4, 5]) + fault + ["c2:" + L.spec("echo", "later"), "t200", "e", "t200"]
        out.append((L.Sched(conf=L.conf(emb=pic, mime=b"image/png", limit=8), labels=labels, note="album_art: connection ends mid-transfer " + fault[-1][:1]),
                    {"fault": "art", "requests": {}, "cancelled": set(), "notified": []}))
    return out


def gen(ctx):
    rng = ctx.rng
    items = corpus() + art_cases(rng)
    n = 200 if ctx.tier == "quick" else 4000
    for _ in range(n):
        labels, info, rid = L.gen_session(rng, rng.choice([0, 2, 6, 15, 40]), cancel=True, pauses=rng.random() < 0.5)
        kind = rng.choice(["e", "cut", "r", "w", "h", "garbage", "garbage"])
        if kind == "e":
            labels += [rng.choice(["S*", "D0", "S"]), "e"]
        elif kind == "cut":
            labels += ["S*", "D" + str(rng.choice([1, 2, 3, 5, 8, 13, 16, 17]))]
            if rng.random() < 0.5:          # a request arrives between the partial delivery and the end of the stream
                rid += 1
                lab, k_, specs = L.gen_request(rng, rid)
                labels.append(lab)
                info["requests"][rid] = (k_, specs)
            labels += ["e"]
        elif kind in ("r", "w", "h"):
            # the kind of the transport's read error varies (reset, "unexpected eof", aborted, timed out, broken pipe ...): all are failures
            # ... and so does the way writes fail: an error, or a transport that takes nothing (Ok(0), which write_all reports as an error)
            labels += [kind + str(rng.randrange(10)) if kind == "r" else rng.choice(["w", "w1"]) if kind == "w" else kind]
        else:
            gb = rng.choice(GARBAGE)
            kind = "invalid" if gb in INVALID else "garbage"
            if kind == "invalid":
                labels += ["S*", "D0"]      # at a line boundary, so that the bytes really are a malformed line
            labels += ["G:" + hexs(gb)]
        for _ in range(rng.choice([0, 1, 2, 4])):
            r = rng.random()
            if r < 0.5:
                rid += 1
                lab, k, specs = L.gen_request(rng, rid)
                labels.append(lab)
                info["requests"][rid] = (k, specs)
            elif r < 0.7:
                labels.append("t" + str(rng.choice([50, 100, 150])))
            else:
                labels.append(rng.choice(["S*", "D0", "D2"]))
        # malformed data and failing reads end the connection by themselves: no end of stream needed for everything to resolve
        if kind in ("invalid", "r") and rng.random() < 0.7:
            labels += ["t200", "t200", "t200"]
        else:
            labels += ["S*", "D0", "t200", "S*", "D0", "e", "t200", "t200"]
        info["fault"] = kind
        items.append((L.Sched(labels=labels, note="random + " + kind), info))
    # sessions in the domain of the drain theorems (c08_exec_eof_resolves, c08_exec_rerr_resolves and, with callers giving up,
    # c08_exec_cancel_*): a fragment session, then the end of the stream or a failing read — no flush before it, so that requests
    # are in flight, held and queued when it happens
    for _ in range(60 if ctx.tier == "quick" else 1200):
        labels, info, rid = L.gen_fragment_session(rng, rng.choice([3, 8, 20, 50]), tricky=False, cancels=rng.random() < 0.5, drops=rng.random() < 0.3)
        kind = rng.choice(["e", "r"])
        labels += ["e" if kind == "e" else "r" + str(rng.randrange(10))]
        labels += ["t200", "t200"]
        info["fault"] = kind
        items.append((L.Sched(labels=labels, note="fragment session + " + kind), info))
    return items


def drain_membership(ctx, scheds):
    """How many schedules are a label list of the refinement fragment (possibly with cancellations) followed by e / r: the domain of
    the drain theorems about the executable system."""
    pre, idx = [], []
    for i, s in enumerate(scheds):
        k = next((j for j, l in enumerate(s.labels) if l[0] in "erwhG"), None)
        if k is None or s.labels[k][0] not in "er" or s.labels[k] not in ("e",) and not (s.labels[k][0] == "r" and s.labels[k][1:].isdigit() or s.labels[k] == "r"):
            continue
        pre.append(L.Sched(cspec=s.cspec, conf=s.conf, labels=s.labels[:k]))
        idx.append(i)
    outs = ctx.run_model([" ".join(["loopfrag", s.cspec, s.conf] + s.labels) for s in pre]) if pre else []
    return {"fragment_then_e_or_r": sum(1 for o in outs if o == "in"), "fragment_with_cancellations_then_e_or_r": sum(1 for o in outs if o == "in+x"),
            "fragment_with_listener_dropped_then_e_or_r": sum(1 for o in outs if o in ("in+Z", "in+x+Z")),
            "schedules_ending_in_e_or_r": len(pre)}


def run(ctx, only=None):
    items = only if only is not None else gen(ctx)
    scheds = [s for s, _ in items]
    results = L.run_schedules(ctx, scheds)
    dis = L.disagreements(results)
    fails = []
    nontrivial = 0
    kinds = {}
    outcome_kinds = {}
    for r, (s, info) in zip(results, items):
        t = L.Trace(r)
        v = []
        if t.panic:
            v.append("the client panicked: " + r["impl_raw"][:300])
        res = t.results()
        evs = [x for _, x in t.events()]
        if info and info["fault"] == "art":
            got = res.get(1, (None, "<never resolved>"))[1]
            if not (got == "closed" or got.startswith("proto:")):
                v.append(f"the connection ended in the middle of an album-art transfer, but album_art resolved with {got[:100]} instead of the failure")
        if info:
            kinds[info["fault"]] = kinds.get(info["fault"], 0) + 1
            pend = [rid for rid in info["requests"] if rid not in info["cancelled"]]
            if len(pend) >= 2:
                nontrivial += 1
            for rid in pend:
                if rid not in res:
                    v.append(f"request {rid} never resolved although the connection ended (stream closed and the re-idle delay passed)")
                else:
                    k = res[rid][1].split("[")[0].split("(")[0]
                    outcome_kinds[k] = outcome_kinds.get(k, 0) + 1
            if info["fault"] not in ("garbage", "ack"):     # a surplus well-formed response shifts every later reply: the peer's fault
                v += [m for m in L.judge_replies(r, info) if "out of issue order" not in m]
            closed_evs = [x for x in evs if x.startswith("closed(")]
            if len(closed_evs) > 1:
                v.append(f"more than one closing event: {evs}")
            if closed_evs and "end" in evs and evs.index("end") != evs.index(closed_evs[0]) + 1:
                v.append(f"the closing event is not the last event: {evs}")
            if "end" in evs and evs[-1] != "end":
                v.append(f"events after the end of the event stream: {evs}")
            no_listener = "Z" in s.labels        # the application dropped its ConnectionEvents: nothing can be observed on it
            if "end" not in evs and not no_listener and t.conn()[1] and t.conn()[1].startswith("ok"):
                v.append("the event stream never ended although the connection ended")
            held = "h" not in r["ops"]
            if held and not t.flag("X") and t.conn()[1] and t.conn()[1].startswith("ok"):
                v.append("the client does not report itself closed after the connection ended")
            if not t.flag("D"):
                v.append("the transport was not released after the connection ended")
            stream = b"".join(x for _, x in t.delivered())
            stream = stream[stream.find(b"\n") + 1:] if stream.startswith(b"OK MPD ") else stream
            leftover = L.leftover_after_responses(stream)
            unclean = info["fault"] in ("r", "invalid") or (info["fault"] in ("cut", "e") and leftover != b"")
            # (a failure whose in-flight caller was cancelled has nobody to be reported to: not judged)
            # attribution: the failure belongs to the caller whose request was in flight (dequeued: noidle written, or the
            # request itself written and unanswered) when the fault struck
            fl = next((i for i, l in enumerate(s.labels) if l == "r" or l == "e" or l.startswith("G:")), None)
            k = next((m for m in r["marks"][fl:] if m is not None), None) if fl is not None else None
            if unclean and held and not info["cancelled"] and k is not None:
                before = [l for i, l in t.written_lines() if i < k]
                order = sorted(info["requests"])
                units, in_list = 0, False
                last_is_noidle = False
                for l in before:
                    if in_list:
                        in_list = l != b"command_list_end"
                        continue
                    if l in (b"idle", b"noidle"):
                        last_is_noidle = l == b"noidle"
                        continue
                    units += 1
                    last_is_noidle = False
                    in_list = l == b"command_list_ok_begin"
                inflight = None
                if last_is_noidle and units < len(order):
                    inflight = order[units]
                elif units >= 1 and not last_is_noidle and before and before[-1] != b"idle":
                    cand = order[units - 1]
                    if cand not in res or res[cand][0] >= k:
                        inflight = cand
                if inflight is not None and inflight in res and not res[inflight][1].startswith("proto:") \
                        and not res[inflight][1].startswith("ok[") and not res[inflight][1].startswith("ack("):
                    v.append(f"the failure struck while request {inflight} was in flight, but its caller received {res[inflight][1]!r} "
                             f"(a clean-close answer) instead of the protocol error; events {evs}")
            if unclean and held and not info["cancelled"] and not no_listener:
                surfaced = any(x[1].startswith("proto:") for x in res.values()) or bool(closed_evs)
                if not surfaced:
                    v.append(f"fault '{info['fault']}' was neither reported to a caller (protocol error) nor as a closing event; results {sorted((k, x[1][:40]) for k, x in res.items())}, events {evs}")
        if info and info["fault"] == "w" and not info["cancelled"] and r.get("model_segs") and len(r["model_segs"]) == len(r["impl_segs"]):
            # failing writes: WHO is told is decided by which write fails (the caller whose noidle or request could not be written gets
            # the I/O error, the callers behind it see the connection closed; a failing re-idle write is a closing event).  The model of
            # the unchanged loop (whose steps Props/C08.v quantifies over) says who; the client must tell the same callers the same thing.
            mres = L.Trace({"ops": r["ops"], "impl_segs": r["model_segs"], "impl_raw": ""}).results()
            for rid in sorted(set(mres) | set(res)):
                a, b_ = res.get(rid, (None, "<never resolved>"))[1], mres.get(rid, (None, "<never resolved>"))[1]
                if a != b_ and (a.startswith("proto:") or b_.startswith("proto:") or a == "closed" or b_ == "closed"):
                    v.append(f"writes fail: request {rid} was told {a!r}; by the loop's step function (who is in flight when the write fails) it is {b_!r}")
                    break
        for m in v[:3]:
            fails.append(Failure(s.model_case(), f"[{s.note}] " + m, extra={"impl_case": r["impl_case"], "info": {"fault": info["fault"], "requests": {str(k): list(x) for k, x in info["requests"].items()}, "cancelled": sorted(info["cancelled"])} if info else None}))
    if only is not None:
        for r in results:
            print("labels:", " ".join(r["sched"].labels)[:1500], "\nops   :", " ".join(r["ops"])[:1500], "\nimpl  :", r["impl_raw"][:2500], "\nmodel :", " ".join(r["model_segs"])[:2500])
    dist = {"schedules": len(scheds), "fault_kinds": kinds, "request_outcomes": outcome_kinds, "in_domain_of_drain_theorems": drain_membership(ctx, scheds)}
    return finish(
        ctx, evaluations=len(scheds), distinct_nontrivial=nontrivial,
        rule="random session prefixes (0..40 steps) followed by a fault at that point - clean close, stream cut 1..13 bytes into the pending output, "
             "failing reads, failing writes, last handle dropped, bytes no server would send (malformed line, ACK to idle, surplus OK, truncated "
             "binary header) - then 0..4 further requests/ticks/deliveries, end of stream and two re-idle delays; oracle on the real client's trace: "
             "every request that was not cancelled resolved (with exactly its own reply if it resolved with one), at most one closing event and it is "
             "the last event, the event stream ended, is_connection_closed, transport dropped, and unclean faults surfaced to a caller or as the "
             "closing event; non-trivial = >= 2 requests pending or later",
        samples=[" ".join(scheds[0].labels)[:300], " ".join(scheds[-1].labels)[:300]], distribution=dist, oracle_failures=fails, disagreements=dis,
    )


def replay(ctx, payload):
    items = []
    inf = payload.get("extra", {}).get("info")
    for c in payload.get("cases", []):
        toks = c.split(" ")
        info = None
        if inf:
            info = {"fault": inf["fault"], "requests": {int(k): (v[0], v[1]) for k, v in inf["requests"].items()}, "cancelled": set(inf["cancelled"]), "notified": []}
        items.append((L.Sched(cspec=toks[1], conf=toks[2], labels=toks[3:]), info))
    return run(ctx, only=items)
