"""C06 — command arguments reach the server byte for byte (escaping round trip).
Correspondence: bytes written for (name, args) by implementation and model.
Oracle: the Coq port of MPD's tokenizer applied to the IMPLEMENTATION's bytes."""
import itertools
import mpdgen as g
from vlib import Failure, compare, finish, hexs, unhexs

COQ_FILES = ["Bytes.v", "Tables.v", "CommandModel.v", "MpdTokenizer.v", "CommandProofs.v", "EscapeProofs.v"]

ALPHABET = ["", " ", "\t", "\r", "\x0b", "\x0c", "\x01", "\x1f", '"', "'", "\\", "\x00", "a", "Z", "0", "(",
            "é", "€", "\U0001F600", "\x7f", "=", "-"]
SMALL = [" ", "\t", "\r", '"', "'", "\\", "a", "é", "\x00", "\x01"]
NAMES = ["find", "a", "Zz", "x_y", "status", "sticker", "_x", "x_"]
TYPES = ["s", "S", "c", "cb"]


def klass(name, args):
    """Known-finding classes, by the input alone (DESIGN.md section 4)."""
    for a in args:
        if a and all(ord(c) > 0x20 for c in a) and any(c in a for c in "\\\"'"):
            return "unquoted_special"
    return None


def gen(ctx):
    rng = ctx.rng
    cases = []
    meta = []

    def add(name, args):
        specs = [f"{rng.choice(TYPES)}:{hexs(a)}" for a in args]
        cases.append(" ".join(["cmd_args", hexs(name)] + specs))
        meta.append((name, args))

    # corpus: boundary cases and witnesses of the findings
    corpus = [
        ("find", []), ("find", [""]), ("find", ["", ""]), ("find", ["a", "", "b"]), ("find", [" "]), ("find", ["\t"]),
        ("find", ["\r"]), ("find", ["a\rb"]), ("find", ["\x0b"]), ("find", ["a\x0cb"]), ("find", ["\x01"]),
        ("find", ["Joe's"]), ("find", ["a\\b"]), ("find", ['foo"bar']), ("find", ["Joe's bar"]), ("find", ['a "b" c']),
        ("find", ["a\\ b"]), ("find", ["\\"]), ("find", ['"']), ("find", ["'"]), ("find", ["a\x00b"]), ("find", ["\x00"]),
        ("find", ["é"]), ("find", ["日本 語"]), ("find", ["\U0001F600"]), ("find", ["x" * 5000]), ("find", [" " * 300]),
        ("_x", []), ("_x", ["a"]), ("x_", ["a"]), ("find", ["a", "b c", "d"]), ("find", ["trailing "]), ("find", [" leading"]),
        ("find", ["\x7f"]), ("find", ["a\x1fb"]), ("find", ["(Artist == \"x\")"]),
    ]
    for n, a in corpus:
        add(n, a)
    # characters that a sloppy conversion mistreats (low byte equal to a quote/backslash/blank, case-folding to ASCII, Unicode
    # numerics and letters): alone (sent unquoted), next to a blank (sent quoted), next to each special, and in command names
    for ch in g.TRICKY_CHARS:
        for arg in (ch, ch + ch, "a" + ch, ch + "a", "x " + ch, ch + " y", ch + "\t", "(" + ch + ")"):
            add("find", ["title", arg])
        for nm in ("x" + ch, "track" + ch, ch + "x", "find" + ch + "y"):
            cases.append("cmd_build " + hexs(nm))
            meta.append((nm, []))
    # long arguments with a character that needs escaping at every offset around the sizes a staging buffer or a chunked copy might
    # have (64, 128, 256, 512, 1024, 4096 and their neighbours), alone and after earlier escapes that shift the offsets
    for size in (64, 128, 256, 512, 768, 1024, 4096):
        offs = range(size - 4, size + 4) if ctx.tier == "thorough" or size in (256, 512) else (size - 2, size - 1, size, size + 1)
        for off in offs:
            for ch in ('"', "'", "\\"):
                base = "My Music/" + "x" * max(0, off - 9)
                add("add", [base[:off] + ch + " live.flac"])
                if off > 20:
                    add("add", ["it's " + base[5:off - 1] + ch + ch + "end"])        # an earlier escape shifts everything by one
    n_random = 600 if ctx.tier == "quick" else 6000
    for _ in range(n_random):
        name = rng.choice(NAMES[:6]) if rng.random() < 0.95 else rng.choice(NAMES)
        nargs = rng.choice([0, 1, 1, 2, 2, 3, 4, 5])
        args = []
        for _ in range(nargs):
            ln = rng.choice([0, 1, 1, 2, 3, 4, 6])
            args.append("".join(rng.choice(ALPHABET) for _ in range(ln)))
        add(name, args)
    # the same arguments inside command lists (1..6 commands, all three ways of building the list): the bytes must reach the wire
    # whole and in order whatever the connection flavour and however few bytes the transport takes per write
    for _ in range(60 if ctx.tier == "quick" else 600):
        cmds = []
        for _ in range(rng.choice([1, 2, 3, 6])):
            args = ["".join(rng.choice(ALPHABET) for _ in range(rng.choice([0, 1, 3, 9, 40]))) for _ in range(rng.choice([0, 1, 2, 3]))]
            if any("\n" in a or "\x00" in a for a in args):
                continue
            cmds.append(",".join([hexs(rng.choice(NAMES[:6]))] + [hexs(a) for a in args]))
        if cmds:
            cases.append(" ".join(["cmd_list", rng.choice(["add", "command", "extend"])] + cmds))
            meta.append(("", []))
    # long commands inside lists (around one network segment, 1460 bytes, and beyond), first / middle / last / alone
    for ln in (1400, 1440, 1441, 1442, 1443, 1444, 1445, 1446, 1447, 1448, 1449, 1450, 1451, 1452, 1453, 1454, 1455, 1456, 1457, 1458, 1459, 1460, 1461, 1500, 4000, 9000):
        long_cmd = ",".join([hexs("sticker"), hexs("set"), hexs("song"), hexs("a b"), hexs("x" * ln)])
        short = ",".join([hexs("play"), hexs("3")])
        for shape in ([long_cmd, short], [short, long_cmd], [short, long_cmd, short], [long_cmd], [long_cmd, long_cmd]):
            cases.append(" ".join(["cmd_list", rng.choice(["add", "command", "extend"])] + shape))
            meta.append(("", []))
    if ctx.tier == "thorough":
        # every argument string of length <= 4 over a 10-symbol class alphabet, in each of 3 positions
        strings = [""]
        for ln in range(1, 5):
            strings += ["".join(t) for t in itertools.product(SMALL, repeat=ln)]
        for s in strings:
            for pos in range(3):
                args = ["p", "q r", "t"]
                args[pos] = s
                add("find", args)
    return cases, meta


def run(ctx, only=None):
    if only is None:
        cases, meta = gen(ctx)
    else:
        cases = only
        meta = []
        for c in cases:
            t = c.split(" ")
            meta.append((unhexs(t[1]).decode(), [unhexs(x.split(":", 1)[1]).decode() for x in t[2:]] if t[0] == "cmd_args" else []))
    impl = ctx.run_impl(cases)
    disagreements = []
    if ctx.model_ok:
        model = ctx.run_model(cases)
        disagreements = compare(cases, impl, model)
    # oracle: tokenise what the implementation wrote
    tok_cases, idx = [], []
    fails = []
    accepted = 0
    for i, (c, out) in enumerate(zip(cases, impl)):
        if out.startswith("panic"):
            fails.append(Failure(c, "panic: " + out))
            continue
        steps = out.split(" ; ")
        if any(not s.startswith("ok ") for s in steps):
            continue  # rejected name or argument: C07's business
        accepted += 1
        tok_cases.append("tokenize " + steps[-1].split(" ")[1])
        idx.append(i)
    toks = ctx.run_model(tok_cases) if ctx.model_ok and tok_cases else []
    dist = {"accepted": accepted, "rejected": len(cases) - accepted, "classes": {}}
    for i, t in zip(idx, toks):
        name, args = meta[i]
        exp = " ".join(["some", hexs(name)] + [hexs(a) for a in args])
        k = klass(name, args)
        dist["classes"][k or "ok-class"] = dist["classes"].get(k or "ok-class", 0) + 1
        if t != exp:
            got = "rejected by MPD's tokenizer" if t == "none" else "MPD sees " + repr([unhexs(x) for x in t.split(" ")[1:]])
            sent = unhexs(tok_cases[idx.index(i)].split(" ")[1])
            fails.append(Failure(cases[i], f"sent {sent!r} for {name!r} {args!r}: {got}", k))
    # lists: every command of the list arrives as its own line, in order, between one opening and one closing line; each line
    # read by MPD's tokenizer gives that command's name and arguments
    ltok, lidx = [], []
    for i, (c, out) in enumerate(zip(cases, impl)):
        t = c.split(" ")
        if t[0] != "cmd_list" or not out.startswith("len="):
            continue
        kv = dict(x.split("=", 1) for x in out.split(" ") if "=" in x)
        data = unhexs(kv.get("bytes", ""))
        cmds = [[unhexs(x) for x in spec.split(",")] for spec in t[2:]]
        lines = data.split(b"\n")
        n = len(cmds)
        body = lines[:-1] if n == 1 else lines[1:-2]
        framed = lines[-1] == b"" and (n == 1 or (lines[0] == b"command_list_ok_begin" and lines[-2] == b"command_list_end"))
        if not framed or len(body) != n:
            fails.append(Failure(c, f"a list of {n} commands built with {t[1]} was written as {data[:400]!r}: {len(body)} command lines"
                                    f"{'' if framed else ', not framed by one command_list_ok_begin / command_list_end'}"))
            continue
        for j, (ln, cmd) in enumerate(zip(body, cmds)):
            ltok.append("tokenize " + hexs(ln + b"\n"))
            lidx.append((i, j, cmd, ln))
    ltoks = ctx.run_model(ltok) if ctx.model_ok and ltok else []
    for (i, j, cmd, ln), tk in zip(lidx, ltoks):
        exp = " ".join(["some"] + [hexs(a) for a in cmd])
        name, args = cmd[0].decode(errors="replace"), [a.decode(errors="replace") for a in cmd[1:]]
        if tk != exp and klass(name, args) is None:
            got = "rejected by MPD's tokenizer" if tk == "none" else "MPD sees " + repr([unhexs(x) for x in tk.split(" ")[1:]])
            fails.append(Failure(cases[i], f"command #{j} of a list ({name!r} {args!r}) was sent as the line {ln[:200]!r}: {got}"))
    if only is not None:
        for c, o in zip(cases, impl):
            print("case :", c, "\nimpl :", o)
        if ctx.model_ok:
            for m in model:
                print("model:", m)
        for t in toks:
            print("tokenizer on impl bytes:", t)
        for f in fails:
            print("oracle:", f.message)
    nontrivial = {c for c, (n, a) in zip(cases, meta) if any(any(ch in x for ch in " \t\r\"'\\\x00") or x == "" for x in a)}
    # the one argument the client writes on the application's behalf outside the command API: the password of connect_with_password(_opt)
    n_pw = 0
    if only is None and ctx.model_ok:
        import looplib as L
        # (every password here holds a blank or nothing special: special characters WITHOUT a blank are the known finding unquoted_special)
        pws = [b'my "secret" pw', b"back\\slash and blank", b" lead", b'a\\"b c', b"plain", b"tab\there", b'" "', b"\\ ", b' "', b"a b\\", b'"q" \\', "pä\\ß w".encode()]
        scheds = [L.Sched(cspec=f"{api}:{hexs(pw)}", conf=L.conf(pw=pw), labels=["D0", "S*", "D0", "S*", "i1:" + L.spec("echo", "a")] + L.flush(1), note=f"password {pw!r}")
                  for pw in pws for api in "po"]
        results = L.run_schedules(ctx, scheds)
        disagreements = list(disagreements) + L.disagreements(results)
        firsts = []
        for r in results:
            lines = [l for _, l in L.Trace(r).written_lines()]
            firsts.append(lines[0] if lines else b"")
        tks = ctx.run_model(["tokenize " + hexs(f + b"\n") for f in firsts])
        for sc, pw, f, tk in zip(scheds, [pw for pw in pws for _ in "po"], firsts, tks):
            n_pw += 1
            want = [hexs("password"), hexs(pw)]
            if tk == "none" or tk.split(" ")[1:] != want:
                got = "rejected by MPD's tokenizer" if tk == "none" else "MPD sees " + repr([unhexs(x) for x in tk.split(" ")[1:]])
                fails.append(Failure(sc.model_case(), f"connect_with_password({pw!r}) wrote the line {f[:200]!r}: {got}", extra={"password": True}))
        dist = dict(dist)
        dist["passwords_through_connect"] = n_pw
    return finish(
        ctx, evaluations=len(cases) + n_pw, distinct_nontrivial=len(nontrivial),
        rule="corpus of boundary arguments, then random commands with 0..5 string arguments of length 0..6 over the class alphabet "
             "(empty, space, tab, CR, VT, FF, 0x01, 0x1f, both quotes, backslash, NUL, ASCII, 2/3/4-byte UTF-8), through &str/String/Cow; "
             "thorough adds every string of length <= 4 over 10 symbols in each of 3 positions; "
             "non-trivial = some argument is empty or holds a blank, quote, backslash or NUL",
        samples=[cases[1], cases[len(cases) // 2], cases[-1]], distribution=dist,
        oracle_failures=fails, disagreements=disagreements,
    )


def replay(ctx, payload):
    if payload.get("extra", {}).get("password"):
        return run(ctx)        # the password family is small and deterministic: the whole check is its replay
    return run(ctx, only=payload.get("cases", []))
