"""C03 — well-formed server output is decoded exactly, including binary and command lists."""
import mpdgen as g
import connlib
from connlib import run_bigbin, replay_bigbin, run_cases, describe, print_replay
from vlib import Failure, finish, hexs, unhexs

COQ_FILES = connlib.COQ_FILES + ["Grammar.v", "RoundTripProofs.v"]


def gen(ctx):
    rng = ctx.rng
    cases, expect, abstract = [], [], []
    n = 300 if ctx.tier == "quick" else 4000

    def add(rs, trailing, tail="eof"):
        abstract.extend(rs)
        s = b"".join(g.enc_response(r) for r in rs) + trailing
        exp = [g.show_response(r) for r in rs]
        for seg in (g.seg_whole(s), g.seg_random(rng, s), g.seg_random(rng, s, maxlen=rng.choice([1, 3, 50]))):
            for fl in ("b", "a"):
                cases.append(g.case_line("recv", fl, 0, tail, seg))
                expect.append(exp)

    # non-vacuity corpus: look-alike values and payloads
    fr = {"fields": [("a", "OK"), ("b", "list_OK"), ("c", "ACK [5@0] {} x"), ("d", "binary: 3"), ("e", ""), ("f", "äö"),
                     ("binary", "3x"), ("OK", "OK"), ("ACK", "[1@2]"),
                     # the boundary of the one exclusion: none of these is a u64 numeral, so all are plain fields
                     ("binary", "+3"), ("binary", ""), ("binary", " 3"), ("binary", "3 "), ("binary", "18446744073709551616"), ("binary", "٣"),
                     ("Binary", "3"), ("list_OK", "list_OK")], "bin": b"OK\nACK\n\x00\xff", "binpos": 4}
    add([{"form": "single", "frames": [fr], "error": None, "partial": None}], b"")
    add([{"form": "list", "frames": [fr, {"fields": [], "bin": None, "binpos": None}, fr], "error": (2 ** 64 - 1, 2 ** 64 - 1, "x_y", "m"),
          "partial": fr}], b"O")
    add([{"form": "single", "frames": [{"fields": [], "bin": b"", "binpos": 0}], "error": None, "partial": None}], b"")
    # keys that are proper prefixes of a keyword (an earlier grammar alternative is still waiting for more bytes), with empty values,
    # byte at a time and cut right after the key
    small = lambda k, v: {"form": "single", "frames": [{"fields": [(k, v)], "bin": None, "binpos": None}], "error": None, "partial": None}
    for k in ("l", "b", "O", "A", "li", "list_O", "bi", "binar", "AC"):
        for v in ("", "x"):
            for rs in ([small(k, v)], [small("a", "1"), small(k, v)], [{"form": "single", "frames": [{"fields": [("a", "1"), (k, v)], "bin": None, "binpos": None}], "error": None, "partial": None}]):
                st = b"".join(g.enc_response(r) for r in rs)
                exp = [g.show_response(r) for r in rs]
                segs = [g.seg_bytes(st)] + [[st[:i], st[i:]] for i in range(1, len(st))]
                for seg in segs:
                    for fl in ("b", "a"):
                        cases.append(g.case_line("recv", fl, 0, "eof", seg))
                        expect.append(exp)
    # single components far larger than any buffer (binarylimit can be raised; long sticker values), written in small and large pieces
    follow = small("next", "1")
    for big in ({"form": "single", "frames": [{"fields": [("size", "131072")], "bin": bytes((i * 13 + 7) % 256 for i in range(131072)), "binpos": 1}], "error": None, "partial": None},
                {"form": "single", "frames": [{"fields": [("sticker", "lyrics=" + "y" * 90000)], "bin": None, "binpos": None}], "error": None, "partial": None},
                {"form": "single", "frames": [{"fields": [], "bin": b"OK\n" * 22000, "binpos": 0}], "error": None, "partial": None}):
        st = g.enc_response(big) + g.enc_response(follow)
        exp = [g.show_response(big), g.show_response(follow)]
        for seg in ([st], [st[i:i + 1024] for i in range(0, len(st), 1024)], [st[i:i + 16384] for i in range(0, len(st), 16384)], g.seg_random(rng, st, maxlen=70000)):
            for fl in ("b", "a"):
                cases.append(g.case_line("recv", fl, 0, "eof", seg))
                expect.append(exp)
    for _ in range(n):
        k = rng.choice([1, 1, 2, 3, 5])
        rs = [g.gen_response(rng, payload_max=rng.choice([200, 200, 9000])) for _ in range(k)]
        trailing = rng.choice([b"", b"", b"O", b"foo: ba", b"\xff", b"binary: 9\nab", b"garbage\n"])
        add(rs, trailing, rng.choice(["eof", "err"]))
    # a connection that has seen many different field names (100 .. 5000: whatever it keeps about names is small, full, just trimmed),
    # then a response whose receive is interrupted after its first frame and called again: decoded exactly all the same
    def kname(i):
        t_ = ""
        i += 26
        while i:
            t_ = chr(97 + i % 26) + t_
            i //= 26
        return "k" + t_
    for n_names in (100, 1000, 1023, 1024, 1025, 1100, 5000):
        hist = {"form": "single", "frames": [{"fields": [(kname(i), "v") for i in range(n_names)], "bin": None, "binpos": None}], "error": None, "partial": None}
        nxt = {"form": "list", "frames": [{"fields": [(kname(n_names + 1), "1"), ("x", "2")], "bin": None, "binpos": None},
                                          {"fields": [(kname(3), "3"), (kname(n_names + 2), "4")], "bin": b"ab\n", "binpos": 2}], "error": None, "partial": None}
        e1, e2 = g.enc_response(hist), g.enc_response(nxt)
        exp = [g.show_response(hist), "io", g.show_response(nxt)]
        for cut in sorted({i + 1 for i, c in enumerate(e2) if c == 10} - {len(e2)}):
            for fl in ("b", "a"):
                cases.append(" ".join(["recv", fl, "0", "eof", hexs(e1), hexs(e2[:cut]), "!", hexs(e2[cut:])]))
                expect.append(exp)
    return cases, expect, abstract


def spec_tie(ctx, abstract):
    """The theorems of Props/C03.v are about Grammar.enc / Grammar.wf_resp; the streams fed to the real
    connections come from mpdgen.enc_response.  Tie the two: on every generated abstract response, and on a
    mutated (mostly ill-formed) copy of each, the extracted enc must produce the very bytes the generator
    produces, and wf_resp must hold wherever the Python mirror of the protocol's well-formedness holds
    (so that the theorem covers everything the protocol allows; wf_resp accepting MORE than the mirror only
    makes the theorem stronger, it is counted but is no alarm - e.g. after the client's charsets were widened)."""
    rs = list(abstract)
    assert all(g.wf_response(r) for r in rs), "generator produced an ill-formed response"
    rs += [g.ill_formed(ctx.rng, r) for r in abstract]
    lines = [g.spec_case(r) for r in rs]
    out = ctx.run_model(lines)
    dis, wider = [], 0
    for r, c, got in zip(rs, lines, out):
        pywf, exp_bytes = g.wf_response(r), g.hexs(g.enc_response(r))
        t = got.split(" ")
        ok = len(t) == 2 and t[0] in ("wf=0", "wf=1") and t[1] == exp_bytes and not (pywf and t[0] == "wf=0")
        if ok and not pywf and t[0] == "wf=1":
            wider += 1
        if not ok:
            dis.append({"case": c[:4000], "impl": "python generator: " + g.spec_expect(r)[:4000], "model": "Grammar.v: " + got[:4000]})
    return dis, len(lines), sum(1 for r in rs if not g.wf_response(r)), wider


def run(ctx, only=None):
    spec_n = ill_n = wider = 0
    if only is not None:
        cases, expect = only["cases"], only["expect"]
        impl, model, dis = run_cases(ctx, cases)
    else:
        cases, expect, abstract = gen(ctx)
        impl, model, dis = run_cases(ctx, cases)
        if ctx.model_ok:
            sdis, spec_n, ill_n, wider = spec_tie(ctx, abstract)
            dis = dis + sdis
    fails = []
    for c, out, exp in zip(cases, impl, expect):
        got = out.split(" | ")
        if "PANIC" in out:
            fails.append(Failure(c, "panic: " + out[:300], extra={"expect": exp}))
        elif got[: len(exp)] != exp:
            k = next((i for i in range(len(exp)) if i >= len(got) or got[i] != exp[i]), 0)
            fails.append(Failure(c, f"response #{k} of a well-formed stream decoded wrongly\n  {describe(c)[:500]}\n  expected {exp[k][:400]}\n  got      {(got[k] if k < len(got) else 'nothing')[:400]}",
                                 extra={"expect": exp}))
    if only is not None:
        print_replay(cases, impl, model, fails)
    kinds = {"with_binary": sum(1 for e in expect if any("bin=~" not in x.replace("bin=~", "", 0) or "bin=" in x and "bin=~" not in x for x in e)),
             "with_error": sum(1 for e in expect if any("err[none]" not in x for x in e)),
             "multi_response": sum(1 for e in expect if len(e) > 1), "cases": len(cases),
             "spec_tie_responses": spec_n, "spec_tie_ill_formed": ill_n, "spec_wf_wider_than_protocol_mirror": wider}
    nontrivial = {c for c, e in zip(cases, expect) if len(e) > 1 or any("/" in x or "err[none]" not in x or "bin=~" not in x for x in e)}
    n_big = 0
    if only is None:
        bc, _, bf = run_bigbin(ctx)
        n_big = len(bc)
        fails = list(fails) + bf
        kinds = dict(kinds)
        kinds["large_payload_runs_64KiB_to_8MiB"] = n_big
    return finish(
        ctx, evaluations=len(cases) + n_big, distinct_nontrivial=len(nontrivial),
        rule="abstract responses (0..6 frames, single/list form, keys and values from pools that over-represent protocol look-alikes, payloads "
             "0..9000 bytes with protocol-like content, errors of all shapes, 1..5 responses back to back, optional trailing garbage) are "
             "encoded, pushed through both real connections whole and under random segmentation, and the printed Response is compared with the "
             "abstract one; non-trivial = several responses, several frames, an error or a payload.  Spec tie: every generated abstract "
             "response (and one mutation of each, mostly ill-formed) is also encoded by the extracted Grammar.enc and judged by Grammar.wf_resp; "
             "the bytes must equal the Python generator's and wf_resp must hold wherever the Python mirror of the protocol's well-formedness does "
             "(reported as correspondence disagreements)",
        samples=[describe(cases[0])[:500], describe(cases[len(cases) // 2])[:500]], distribution=kinds,
        oracle_failures=fails, disagreements=dis,
    )


def replay(ctx, payload):
    if any(str(c).startswith("bigbin") for c in payload.get("cases", [])):
        return replay_bigbin(ctx, [c for c in payload["cases"] if c.startswith("bigbin")])
    cases = payload.get("cases", [])
    exp = payload.get("extra", {}).get("expect", [])
    return run(ctx, only={"cases": cases, "expect": [exp for _ in cases]})
