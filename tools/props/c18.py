"""C18 — handshake: greeting accepted iff valid, password sent before anything else."""
import mpdgen as g
from connlib import COQ_FILES as CONN_FILES, run_cases, describe, print_replay
from vlib import Failure, finish, unhexs, hexs

COQ_FILES = CONN_FILES + ["LoopModel.v", "LoopProofs.v"]

PREFIX = b"OK MPD "


def classify(s):
    """The outcome the property demands for stream s followed by end of stream."""
    if s.startswith(PREFIX):
        rest = s[len(PREFIX):]
        nl = rest.find(b"\n")
        if nl < 0:
            return "connect:ueof"
        v = rest[:nl]
        if not v:
            return "connect:invalid"
        try:
            v.decode("utf-8")
        except UnicodeDecodeError:
            return "connect:invalid"
        return "connected:" + hexs(v)
    if PREFIX.startswith(s):
        return "connect:ueof"
    return "connect:invalid"


def gen(ctx):
    rng = ctx.rng
    cases, expect = [], []
    versions = [b"0.23.5", b"0.21.11", b"x", b" ", b"0", "ä".encode(), "0.24 日本".encode(), b"1" * 5000, b"0.23.5 ", b"OK MPD 1", b"\x00", b"a\tb",
                b"\xff", b"\xc3", b"0.2\xe4", b""]
    # whitespace and control characters are part of the version: nothing is trimmed (a CRLF-minded tidy-up would)
    versions += [b"0.23.5\r", b"\r", b"0.\r23", b"a\r\r", b"\r0.23.5", b"0.23.5\t", b" 0.23.5", b"0.23.5\x0b", b"0.23.5\x0c", b"0.23.5\xc2\xa0",
                 b"0.23.5\xe2\x80\xa8", b"\xef\xbb\xbf0.23.5", b"0.23.5\x1f", b"0.23.5\x7f", b"0.23.5\x00"]
    streams = []
    versions += [b"v" + ch.encode() * n for ch in ("é", "音", "\U0001F600") for n in (1364, 1365, 2000, 2047, 2048)]
    for v in versions:
        streams.append(PREFIX + v + b"\n")
        streams.append(PREFIX + v + b"\nfoo: bar\nOK\n")
        streams.append(PREFIX + v)
    good = PREFIX + b"0.23.5\n"
    for i in range(len(good)):
        for x in (0, 10, 32, 255, good[i] ^ 0x20):
            streams.append(good[:i] + bytes([x]) + good[i + 1:])
        streams.append(good[:i])
        streams.append(good[:i] + good[i + 1:])
    streams += [b"ok mpd 0.23.5\n", b"OK\n", b"ACK [5@0] {} x\n", b"OK MPD\n", b"\n", b"OK  MPD 1\n", b"OKMPD 1\n", b" OK MPD 1\n"]
    # first lines that begin right and turn wrong, with and without their line feed (wrong is wrong as soon as it can be seen)
    streams += [b"OK MPX 0.23.5", b"OK MPX 0.23.5\n", b"OK MPD0.23.5", b"OK MP", b"OK MQ", b"OL", b"OK MPDx1\n", b"OK MPd 1", b"Ok MPD 1\n", b"OK\tMPD 1\n"]
    n = 50 if ctx.tier == "quick" else 1000
    for _ in range(n):
        s = good
        for _ in range(rng.choice([1, 2])):
            s = g.corrupt(rng, s)
        streams.append(s)
    for s in streams:
        exp = classify(s)
        segs = [g.seg_whole(s), g.seg_bytes(s) if len(s) < 200 else g.seg_random(rng, s, maxlen=4096), g.seg_random(rng, s)]
        if len(s) > 4096:
            segs += [[s[:k], s[k:]] for k in (4094, 4095, 4096, 4097, 4098)] + [[s[i:i + 4096] for i in range(0, len(s), 4096)]]
        for seg in segs:
            for fl in ("b", "a"):
                cases.append(g.case_line("conn", fl, 0, "eof", seg))
                expect.append(exp)
    return cases, expect


def run(ctx, only=None):
    if only is not None:
        cases = only
        expect = [classify(b"".join(unhexs(x) for x in c.split(" ")[4:])) for c in cases]
    else:
        cases, expect = gen(ctx)
    impl, model, dis = run_cases(ctx, cases)
    fails = []
    for c, out, exp in zip(cases, impl, expect):
        first = out.split(" | ")[0]
        if first != exp:
            fails.append(Failure(c, f"{describe(c)[:400]}: connect gave {first[:120]}, the property demands {exp[:120]}"))
    pw = None
    try:
        import props.c18_password as pwmod   # the password half needs the loop replayer
        pw = pwmod.run_password(ctx)
        fails += pw["fails"]
        dis += pw["dis"]
    except ImportError:
        pass
    if only is not None:
        print_replay(cases, impl, model, fails)
    dist = {"cases": len(cases), "expected": {k: sum(1 for e in expect if e.startswith(k)) for k in ("connected:", "connect:ueof", "connect:invalid")}}
    if pw:
        dist["password"] = pw["dist"]
    return finish(
        ctx, evaluations=len(cases) + (pw["n"] if pw else 0), distinct_nontrivial=len(set(cases)) + (pw["n"] if pw else 0),
        rule="greeting strings: valid versions of odd shapes (blank, non-ASCII, 5000 bytes, NUL), every 1-byte corruption/deletion/truncation of a "
             "valid greeting, invalid UTF-8 before and at the line end, wrong prefixes; each whole, byte-at-a-time and randomly split, both "
             "flavours; expected outcome computed from the byte string alone (valid line => version verbatim; proper prefix of a possible "
             "greeting => unexpected EOF; otherwise invalid message); every case counts as non-trivial",
        samples=[describe(cases[0])[:200], describe(cases[len(cases) // 2])[:200]], distribution=dist,
        oracle_failures=fails, disagreements=dis,
    )


def replay(ctx, payload):
    return run(ctx, only=payload.get("cases", []))
