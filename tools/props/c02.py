"""C02 — parsed responses do not depend on how the byte stream is split into reads."""
import mpdgen as g
from connlib import run_bigbin, replay_bigbin, COQ_FILES, run_cases, describe, print_replay
from vlib import Failure, finish, unhexs, hexs


ALLCUTS = set()      # streams split at every position (and every pair of positions) in the quick tier too


def streams(ctx):
    rng = ctx.rng
    out = []
    # corpus: boundary streams and the witnesses of D1/D2
    out += [(b"OK\n", "eof"), (b"foo: bar\nOK\n", "eof"), (b"a: b\n\xff\n", "eof"), (b"OK", "eof"), (b"a: b\n", "eof"),
            (b"binary: 3\nab\n\nOK\n", "eof"), (b"binary: 3\nabc\nOK\nx: y\nOK\n", "err"), (b"ACK [5@0] {} x\nOK\n", "eof"),
            (b"list_OK\nlist_OK\nOK\nfoo: bar\nlist_OK\nACK [2@1] {x} m\n", "eof"), (b"", "eof"), (b"", "err"),
            (b"O", "err"), (b"binary: 18446744073709551616\nOK\n", "eof"), (b"binary: 5\nab", "eof")]
    # short complete responses that begin like a keyword an earlier alternative of the grammar waits for (l.. list_OK, b.. binary:,
    # O.. OK, A.. ACK): a read ending inside that prefix must not make the parser wait for more than the response holds.  Every split.
    for k_ in ("l", "li", "list_O", "list_OK", "b", "bi", "binary", "binar", "O", "OK", "A", "AC", "ACK", "o", "a"):
        for v_ in ("", "x", "1"):
            for tailr in (b"OK\n", b"OK\nOK\n", b"list_OK\nOK\n"):
                st = k_.encode() + b": " + v_.encode() + b"\n" + tailr
                if k_ == "binary" and v_ == "1":
                    continue
                ALLCUTS.add(st)
                out.append((st, "eof"))
    n = 120 if ctx.tier == "quick" else 1200
    for i in range(n):
        k = rng.choice([1, 1, 2, 3, 5])
        s = b"".join(g.enc_response(g.gen_response(rng)) for _ in range(k))
        r = rng.random()
        if r < 0.25:
            s = g.corrupt(rng, s)
        elif r < 0.35:
            s = s[: rng.randrange(len(s) + 1)]
        elif r < 0.42:
            s = g.random_bytes(rng, rng.choice([1, 5, 30, 200]))
        elif r < 0.5:
            s = s + g.random_bytes(rng, rng.choice([1, 4, 20]))
        out.append((s, rng.choice(["eof", "eof", "err"])))
    # long streams straddling the 4 KiB buffer and its doublings
    sizes = [4090, 4095, 4096, 4097, 8191, 8192, 8193] if ctx.tier == "quick" else \
            [4090, 4094, 4095, 4096, 4097, 4098, 8190, 8191, 8192, 8193, 12288, 16383, 16384, 16385, 20000, 70000]
    for sz in sizes:
        for shape in ("value", "payload", "many"):
            if shape == "value":
                s = b"pre: x\nkey: " + b"v" * (sz - 20) + b"\nOK\nnext: 1\nOK\n"
            elif shape == "payload":
                pl = bytes((i * 7 + 10) % 256 for i in range(sz - 30))
                s = b"size: 1\nbinary: " + str(len(pl)).encode() + b"\n" + pl + b"\nOK\nfoo: bar\nOK\n"
            else:
                line = b"file: some/path/name.flac\n"
                s = line * (sz // len(line)) + b"x: " + b"y" * (sz % len(line)) + b"\nOK\nACK [1@0] {} e\n"
            out.append((s, "eof"))
    for st in g.pipelined_long_streams(rng, 6 if ctx.tier == "quick" else 60):
        out.append((st, "eof"))
    for st, _ in g.exact_fill_streams():
        out.append((st, "eof"))
        out.append((st, "err"))
    return out


interrupted = []     # (index of the interrupted case, index of an uninterrupted run of the same stream)


def gen(ctx):
    rng = ctx.rng
    cases, groups = [], []
    interrupted.clear()
    for s, tail in streams(ctx):
        segs = [g.seg_whole(s)]
        if len(s) <= 3000:
            segs.append(g.seg_bytes(s))
        segs += [g.seg_random(rng, s), g.seg_random(rng, s), g.seg_random(rng, s, maxlen=rng.choice([1, 2, 7, 100]))]
        if len(s) > 3000:
            segs += [g.seg_random(rng, s, maxlen=4096), g.seg_random(rng, s, maxlen=4095), g.seg_random(rng, s, maxlen=5000),
                     [s[i:i + 4096] for i in range(0, len(s), 4096)], [s[:100]] + [s[100:]], g.seg_random(rng, s, maxlen=20000)]
        if (ctx.tier == "thorough" and len(s) <= 64) or s in ALLCUTS:
            for i in range(1, len(s)):
                segs.append([s[:i], s[i:]])
                if len(s) <= (24 if ctx.tier == "thorough" else 9):
                    for j in range(i + 1, len(s)):
                        segs.append([s[:i], s[i:j], s[j:]])
        idx = []
        for seg in segs:
            for fl in ("b", "a"):
                idx.append(len(cases))
                cases.append(g.case_line("recv", fl, 1, tail, seg))
        groups.append(idx)
        # ... and with a receive that is interrupted (the read would block / a timeout layer gives up) once or twice at a read boundary
        # and then retried — half of the time after the application has sent a command in between (connlib.decorate): the responses
        # must be the ones of the uninterrupted run
        if tail == "eof" and 2 <= len(s) <= 3000 and rng.random() < (0.5 if ctx.tier == "quick" else 1.0):
            for fl in ("b", "a"):
                seg = [c for c in g.seg_random(rng, s, maxlen=rng.choice([3, 9, 40, 400])) if c]
                toks = [hexs(c) for c in seg]
                for _ in range(rng.choice([1, 1, 2])):
                    toks.insert(rng.randrange(1, len(toks) + 1) if len(toks) > 1 else 1, "!")
                interrupted.append((len(cases), idx[0]))
                cases.append(" ".join(["recv", fl, "1", tail] + toks))
    # greetings around and beyond the receive buffer's capacity: both flavours connect, under every segmentation, and deliver what follows
    for gl in (4080, 4088, 4089, 4090, 4091, 5000, 8185, 9000):
        s = b"OK MPD " + b"7" * gl + b"\n" + b"a: b\nOK\nbinary: 3\nxyz\nOK\n"
        idx = []
        for seg in [g.seg_whole(s), [s[:4096], s[4096:]], [s[i:i + 1000] for i in range(0, len(s), 1000)], g.seg_random(rng, s, maxlen=4096), [s[:len(s) - 5], s[len(s) - 5:]]]:
            for fl in ("b", "a"):
                idx.append(len(cases))
                cases.append(g.case_line("conn", fl, 1, "eof", [c for c in seg if c]))
        groups.append(idx)
    # the same question for connect + receive (bytes in the same read as the greeting, D1)
    for body in (b"foo: bar\nOK\n", b"OK\n", b"", b"x", b"binary: 1\nq\nOK\nrest: 1\nOK\n"):
        s = b"OK MPD 0.23.5\n" + body
        idx = []
        for seg in [g.seg_whole(s), g.seg_bytes(s), [s[:15], s[15:]], [s[:3], s[3:16], s[16:]], g.seg_random(rng, s)]:
            for fl in ("b", "a"):
                idx.append(len(cases))
                cases.append(g.case_line("conn", fl, 1, "eof", [c for c in seg if c]))
        groups.append(idx)
    return cases, groups


def run(ctx, only=None):
    if only is not None:
        cases, groups = only, [list(range(len(only)))]
    else:
        cases, groups = gen(ctx)
    impl, model, dis = run_cases(ctx, cases)
    fails = []
    for grp in groups:
        outs = {}
        for i in grp:
            outs.setdefault(impl[i], []).append(i)
        if len(outs) > 1:
            (o1, i1), (o2, i2) = list(outs.items())[:2]
            fails.append(Failure(cases[i1[0]],
                                 f"the same byte stream gives different results under two segmentations/flavours:\n  {describe(cases[i1[0]])[:400]}\n    -> {o1[:300]}\n  {describe(cases[i2[0]])[:400]}\n    -> {o2[:300]}",
                                 extra={"second_case": cases[i2[0]]}))
        for i in grp:
            if "PANIC" in impl[i]:
                fails.append(Failure(cases[i], "panic: " + impl[i][:300]))
                break
    if only is None:
        for i, j in interrupted:
            got = [o for o in impl[i].split(" | ")]
            n_int = cases[i].split(" ").count("!")
            kept = list(got)
            for _ in range(n_int):
                if "io" in kept:
                    kept.remove("io")
            if kept != impl[j].split(" | "):
                fails.append(Failure(cases[i], f"a receive interrupted at a read boundary and retried gives different responses than the uninterrupted run:\n  "
                                               f"{describe(cases[i])[:400]}\n    -> {impl[i][:400]}\n  uninterrupted -> {impl[j][:400]}", extra={"second_case": cases[j]}))
    if only is not None:
        print_replay(cases, impl, model, fails)
    dist = {"interrupted_receives": len(interrupted), "streams": len(groups), "cases": len(cases), "blocking": sum(1 for c in cases if c.split(" ")[1] == "b"),
            "streams_over_4096_bytes": sum(1 for grp in groups if len(b"".join(unhexs(x) for x in cases[grp[0]].split(" ")[4:])) > 4096),
            "outcome_kinds": {k: sum(1 for o in impl if k in o) for k in ("resp[", "eof", "ueof", "invalid", "io")}}
    nontrivial = {c for c in cases if len(c.split(" ")) > 5}
    n_big = 0
    if only is None:
        bc, _, bf = run_bigbin(ctx)
        n_big = len(bc)
        fails = list(fails) + bf
        dist = dict(dist)
        dist["large_payload_runs_64KiB_to_8MiB"] = n_big
    return finish(
        ctx, evaluations=len(cases) + n_big, distinct_nontrivial=len(nontrivial),
        rule="each stream (well-formed sequences of generated responses; corrupted, truncated, random; long values/payloads/many lines "
             "straddling 4096 and its doublings) is run whole, byte-at-a-time, under random splits and read-size caps, blocking and async "
             "(thorough: every 2-way split of streams <= 64 bytes and every 3-way split <= 24 bytes); oracle: all runs of one stream print "
             "the same outcomes; non-trivial = more than one chunk",
        samples=[describe(cases[0]), describe(cases[len(cases) // 3])[:400], describe(cases[-1])[:400]], distribution=dist,
        oracle_failures=fails, disagreements=dis,
    )


def replay(ctx, payload):
    if any(str(c).startswith("bigbin") for c in payload.get("cases", [])):
        return replay_bigbin(ctx, [c for c in payload["cases"] if c.startswith("bigbin")])
    cases = list(payload.get("cases", []))
    sc = payload.get("extra", {}).get("second_case")
    if sc:
        cases.append(sc)
    return run(ctx, only=cases)
