"""C15 — predefined commands render to the documented MPD request for all parameters.
Correspondence: for every public constructor/builder path of every predefined command, the bytes the
real `Command::command()` sends (or its panic) against the Coq model `CommandsModel.run_predef`.
Oracle: the IMPLEMENTATION's bytes are tokenised by the Coq port of MPD's tokenizer and every token is
interpreted against the reference table of `CommandsSpec` (`predef_oracle` kind: numbers numerically,
ranges as position sets probed around their endpoints, times in exact integer nanoseconds, keywords,
one token per string) — none of which looks at the code model."""
from vlib import Failure, compare, finish, hexs, step_harness

COQ_FILES = ["Bytes.v", "Tables.v", "TagModel.v", "CommandModel.v", "MpdTokenizer.v", "CommandProofs.v", "EscapeProofs.v",
             "CommandsParams.v", "CommandsModel.v", "CommandsSpec.v", "CommandsProofs.v"]

MAX = 2 ** 64 - 1
U64_EDGE = [0, 1, 2, 9, 10, 99, 100, 101, 2 ** 31 - 1, 2 ** 31, 2 ** 32 - 1, 2 ** 32, 2 ** 53, 2 ** 63, MAX - 1, MAX]
U8_EDGE = [0, 1, 50, 99, 100, 101, 127, 128, 254, 255]
STR_EDGE = ["", "a", "Some Playlist", " ", "\t", "a\rb", 'say "hi" now', "it's here", "Joe's", "a\\b", 'x"y', "é", "日本 語",
            "tab\there", "a\nb", "a\x00b", "\n", "trailing ", " leading", "NAS/Musik/Ärzte/01 - Lied.flac", "x" * 300, "+1", "3:4", "-",
            "/", ".", "..", "~", "*", "a/", "/a", "0", "root", "none", "all"]
STR_PLAIN = ["a", "Some Playlist", "file.flac", "dir/sub dir/x.ogg", "é", "channel_1", "it's here", "rating",
             # strings a "normalising" special case might single out
             "/", ".", "..", "~", "*", "%", "a/", "/a", "//", "0", "-1", "root", "null", "none", "all", "any"]
DUR_EDGE = [(0, 0), (0, 1), (0, 499_999), (0, 500_000), (0, 500_001), (0, 999_499_999), (0, 999_500_000), (0, 999_999_999),
            (1, 500_000), (0, 1_500_000), (0, 2_500_000), (0, 62_500_000), (0, 312_500_000), (0, 187_500_000), (2, 345_670_000),
            (59, 999_999_999), (3600, 0), (2 ** 32, 0), (2 ** 32, 500_000), (2 ** 32, 1_500_000), (2 ** 42, 500_000), (2 ** 43, 500_000),
            (2 ** 52, 500_000_000), (2 ** 52 + 1, 500_000_000), (2 ** 53, 1), (2 ** 53 + 1, 0), (MAX, 0), (MAX, 999_999_999)]
OPERATORS = ["Equal", "NotEqual", "Contain", "Match", "NotMatch"]
FILTER_VALUES = ["foo", "a b", "", "it's", "back\\slash", "é ü", "(x)", 'q"uote', "x\ny", "a\x00b"]
OTHER_TAGS = ["foo", "any", "base", "my-tag", "a b", "x\ny", "q\"t", ""]
SHAPES = "ixu"


class Gen:
    def __init__(self, rng, tag_idents, tag_names=None):
        self.rng = rng
        self.tags = tag_idents
        self.names = tag_names or {}     # Ident -> protocol name

    # ----- single values: edge lists and random draws
    def u64(self):
        r = self.rng
        k = r.random()
        if k < 0.3:
            return r.choice(U64_EDGE)
        if k < 0.6:
            return r.randrange(0, 1000)
        return r.randrange(0, 2 ** r.choice([8, 16, 31, 32, 33, 53, 63, 64]))

    def bound(self, shape=None):
        s = shape or self.rng.choice(SHAPES)
        return "u" if s == "u" else f"{s}{self.u64()}"

    def rng_param(self, lo=None, hi=None):
        return f"r{self.bound(lo)},{self.bound(hi)}"

    def dur(self):
        r = self.rng
        k = r.random()
        if k < 0.25:
            return r.choice(DUR_EDGE)
        secs = r.randrange(0, 2 ** r.choice([1, 4, 8, 12, 17, 24, 32, 40, 53, 64]))
        if k < 0.6:   # around a millisecond tie
            nanos = min(999_999_999, max(0, r.randrange(0, 1000) * 1_000_000 + 500_000 + r.choice([-1, 0, 0, 1])))
        else:
            nanos = r.randrange(0, 10 ** 9)
        return (secs, nanos)

    def string(self, plain=False):
        r = self.rng
        if plain or r.random() < 0.5:
            return r.choice(STR_PLAIN)
        if r.random() < 0.5:
            return r.choice(STR_EDGE)
        alphabet = ["a", "B", "0", " ", " ", "\t", '"', "'", "\\", "é", "/", ".", "-", ":", "+", "\r", "\x01"]
        return "".join(r.choice(alphabet) for _ in range(r.randrange(0, 9)))

    def tag(self, other_ok=True):
        r = self.rng
        if other_ok and r.random() < 0.2:
            return "o" + hexs(r.choice(OTHER_TAGS[:4]) if r.random() < 0.8 else r.choice(OTHER_TAGS))
        t = r.choice(self.tags)
        if self.names and r.random() < 0.2:
            # the tag comes from a name, in any letter case (known names are recognised case-insensitively; others are kept verbatim)
            if r.random() < 0.85:
                nm = self.names[t]
                nm = r.choice([nm, nm.lower(), nm.upper(), nm.swapcase(), "".join(r.choice([c.lower(), c.upper()]) for c in nm)])
            else:
                nm = r.choice(["fingerprint", "X-Custom", "my_tag", "Albumx", "Titl"])
            return "p" + hexs(nm)       # implementation: Tag::try_from(nm); model: see to_model
        return "t" + t

    def filt(self):
        r = self.rng
        v = r.choice(FILTER_VALUES[:7]) if r.random() < 0.85 else r.choice(FILTER_VALUES)
        return f"f{self.tag()},{r.choice(OPERATORS)},{hexs(v)},{r.choice('001')}"

    def song(self):
        return self.rng.choice("IP") + str(self.u64())

    def rel(self):
        return "q" + self.rng.choice("a+-") + str(self.u64())

    # ----- one parameter of a given kind: (edge values, random draw)
    def edges(self, kind):
        if kind == "S":
            return ["s" + hexs(x) for x in STR_EDGE]
        if kind == "B":
            return ["b0", "b1"]
        if kind == "N":
            return [f"n{x}" for x in U64_EDGE]
        if kind == "V":
            return [f"n{x}" for x in U8_EDGE]
        if kind == "D":
            return [f"d{s},{n}" for s, n in DUR_EDGE]
        if kind == "So":
            return [f"{k}{x}" for k in "IP" for x in U64_EDGE]
        if kind == "Q":
            return [f"q{k}{x}" for k in "a+-" for x in U64_EDGE]
        if kind == "R":
            out = []
            pairs = [(0, 0), (0, 1), (3, 7), (5, 5), (7, 3), (1, 0), (0, MAX), (MAX, MAX), (MAX - 1, MAX), (MAX, 0), (MAX - 1, MAX - 1),
                     (2 ** 32, 2 ** 32 + 1), (9, 10), (99, 100)]
            for a in SHAPES:
                for z in SHAPES:
                    for lo, hi in pairs:
                        p = "r" + ("u" if a == "u" else f"{a}{lo}") + "," + ("u" if z == "u" else f"{z}{hi}")
                        if p not in out:
                            out.append(p)
            return out
        if kind == "Tg":
            return ["t" + t for t in self.tags] + ["o" + hexs(x) for x in OTHER_TAGS]
        if kind == "Tgs":
            return ["T", "T" + "t" + self.tags[0], "Tt" + ",t".join(self.tags[:3]), "Tt" + ",t".join(self.tags[-4:]),
                    "To" + hexs("foo") + ",t" + self.tags[1], "To" + hexs("a b"), "To" + hexs("x\ny") + ",t" + self.tags[2]]
        if kind == "F":
            out = []
            for v in FILTER_VALUES:
                out.append(f"ft{self.tags[4 % len(self.tags)]},Equal,{hexs(v)},0")
            for op in OPERATORS:
                out.append(f"ft{self.tags[0]},{op},{hexs('v w')},1")
            for o in OTHER_TAGS[:6]:
                out.append(f"fo{hexs(o)},Equal,{hexs('x')},0")
            return out
        if kind.startswith("E:"):
            return ["e" + v for v in kind[2:].split("|")]
        raise ValueError(kind)

    def draw(self, kind):
        r = self.rng
        if kind.endswith("?"):
            return "-" if r.random() < 0.35 else self.draw(kind[:-1])
        if kind == "S":
            return "s" + hexs(self.string())
        if kind == "B":
            return r.choice(["b0", "b1"])
        if kind == "N":
            return f"n{self.u64()}"
        if kind == "V":
            return f"n{r.randrange(0, 256)}"
        if kind == "D":
            s, n = self.dur()
            return f"d{s},{n}"
        if kind == "So":
            return self.song()
        if kind == "Q":
            return self.rel()
        if kind == "R":
            return self.rng_param()
        if kind == "Tg":
            return self.tag()
        if kind == "Tgs":
            n = r.choice([0, 1, 1, 2, 3, 4])
            return "T" + ",".join(self.tag(other_ok=r.random() < 0.3) for _ in range(n))
        if kind == "F":
            return self.filt()
        if kind.startswith("E:"):
            return "e" + r.choice(kind[2:].split("|"))
        raise ValueError(kind)

    def default(self, kind):
        """a plain, well-behaved value (used for the other positions during an edge sweep)"""
        r = self.rng
        if kind.endswith("?"):
            return "-" if r.random() < 0.5 else self.default(kind[:-1])
        if kind == "S":
            return "s" + hexs(self.string(plain=True))
        if kind == "Tg":
            return "t" + r.choice(self.tags)
        if kind == "Tgs":
            return "T" + ",".join("t" + r.choice(self.tags) for _ in range(r.choice([0, 1, 2])))
        if kind == "F":
            return f"ft{r.choice(self.tags)},{r.choice(OPERATORS)},{hexs(r.choice(FILTER_VALUES[:4]))},0"
        if kind == "R":
            a = r.randrange(0, 50)
            return f"ri{a},x{a + r.randrange(0, 20)}"
        return self.draw(kind)


PATHS = {
    "ClearQueue": [], "Next": [], "Ping": [], "Previous": [], "Stop": [], "ReplayGainStatus": [], "Status": [], "Stats": [],
    "Queue": [], "Queue.all": [], "CurrentSong": [], "GetPlaylists": [], "GetEnabledTagTypes": [], "ReadChannelMessages": [],
    "ListChannels": [], "Shuffle.all": [], "Play.current": [], "ListAllIn.root": [], "TagTypes.enable_all": [],
    "TagTypes.disable_all": [],
    "ClearPlaylist": ["S"], "DeletePlaylist": ["S"], "SaveQueueAsPlaylist": ["S"], "SubscribeToChannel": ["S"],
    "UnsubscribeFromChannel": ["S"], "GetPlaylist": ["S"], "ListAllIn.directory": ["S"], "StickerList.new": ["S"],
    "Update.new": ["S?"], "Rescan.new": ["S?"],
    "SetConsume": ["B"], "SetPause": ["B"], "SetRandom": ["B"], "SetRepeat": ["B"],
    "Queue.song": ["So"], "QueueRange.song": ["So"], "Play.song": ["So"],
    "Queue.range": ["R"], "QueueRange.range": ["R"], "Shuffle.range": ["R"], "Delete.range": ["R"],
    "SetVolume": ["V"], "Delete.id": ["N"], "Delete.position": ["N"], "SetBinaryLimit": ["N"],
    "SetSingle": ["E:Enabled|Disabled|Oneshot"], "SetReplayGainMode": ["E:Off|Track|Album|Auto"],
    "Crossfade": ["D"], "SeekTo": ["So", "D"], "Seek": ["E:Forward|Backward|Absolute", "D"],
    "Add.uri": ["S", "Q?"],
    "Move.id": ["N", "Q"], "Move.position": ["N", "Q"], "Move.range": ["R", "Q"],
    "Find.new": ["F", "Tg?", "R?"], "List.new": ["Tg", "F?", "Tgs"],
    "Count.new": ["F"], "Count.group_by": ["F", "Tg"], "CountGrouped.new": ["Tg", "F?"],
    "Count.group_by_refilter": ["F", "Tg", "F"], "CountGrouped.refilter": ["Tg", "F", "F"],
    "RenamePlaylist.new": ["S", "S"], "LoadPlaylist.name": ["S", "R?"], "AddToPlaylist.new": ["S", "S", "N?"],
    "RemoveFromPlaylist.position": ["S", "N"], "RemoveFromPlaylist.range": ["S", "R"], "MoveInPlaylist.new": ["S", "N", "N"],
    "AlbumArt.new": ["S", "N?"], "AlbumArtEmbedded.new": ["S", "N?"],
    "TagTypes.disable": ["Tgs"], "TagTypes.enable": ["Tgs"],
    "StickerGet.new": ["S", "S"], "StickerSet.new": ["S", "S", "S"], "StickerDelete.new": ["S", "S"],
    "StickerFind.new": ["S", "S", "ST"],       # ST: "- -" or "e<op> s<value>" (two tokens)
    "SendChannelMessage.new": ["S", "S"],
}


def gen(ctx, tag_idents, names=None):
    g = Gen(ctx.rng, tag_idents, names)
    rng = ctx.rng
    cases = []

    def sticker_tail(edge=None):
        if edge is not None:
            return edge
        if rng.random() < 0.3:
            return "- -"
        return f"e{rng.choice(['Eq', 'Lt', 'Gt'])} s{hexs(g.string())}"

    def emit(name, params):
        cases.append(" ".join(["predef", name] + params))

    n_random = 12 if ctx.tier == "quick" else 150
    for name, kinds in PATHS.items():
        if not kinds:
            emit(name, [])
            continue
        # edge sweep: every edge value of every position, the other positions well-behaved
        for i, k in enumerate(kinds):
            base = k.rstrip("?")
            if base == "ST":
                edge_vals = ["- -"] + [f"e{o} s{hexs(v)}" for o in ("Eq", "Lt", "Gt") for v in ("5", "a b", "", "Joe's", "x\ny")]
            else:
                edge_vals = g.edges(base) + (["-"] if k.endswith("?") else [])
            for ev in edge_vals:
                ps = []
                for j, kj in enumerate(kinds):
                    if j == i:
                        ps.append(ev)
                    elif kj == "ST":
                        ps.append(sticker_tail("- -" if rng.random() < 0.5 else "eEq s" + hexs("5")))
                    else:
                        ps.append(g.default(kj))
                emit(name, ps)
        # random: every position drawn freely
        for _ in range(n_random):
            emit(name, [sticker_tail() if k == "ST" else g.draw(k) for k in kinds])
    # durations get a denser random sample (the f64 path is modelled exactly; this is its differential test)
    for _ in range(1500 if ctx.tier == "quick" else 60000):
        s, n = g.dur()
        which = rng.random()
        if which < 0.4:
            emit("SeekTo", [g.song(), f"d{s},{n}"])
        elif which < 0.9:
            emit("Seek", ["e" + rng.choice(["Forward", "Backward", "Absolute"]), f"d{s},{n}"])
        else:
            emit("Crossfade", [f"d{s},{n}"])
    # ranges likewise
    for _ in range(600 if ctx.tier == "quick" else 20000):
        a = g.u64()
        z = rng.choice([a, a + 1, max(a, 1) - 1, g.u64(), min(MAX, a + rng.randrange(0, 5))])
        z = min(z, MAX)
        lo = rng.choice(SHAPES)
        hi = rng.choice(SHAPES)
        p = "r" + ("u" if lo == "u" else f"{lo}{a}") + "," + ("u" if hi == "u" else f"{hi}{z}")
        nm = rng.choice(["Delete.range", "Queue.range", "Shuffle.range", "Move.range", "LoadPlaylist.name", "Find.new",
                         "RemoveFromPlaylist.range", "QueueRange.range"])
        if nm == "Move.range":
            emit(nm, [p, g.rel()])
        elif nm == "LoadPlaylist.name":
            emit(nm, ["s" + hexs("pl"), p])
        elif nm == "RemoveFromPlaylist.range":
            emit(nm, ["s" + hexs("pl"), p])
        elif nm == "Find.new":
            emit(nm, [g.default("F"), "-", p])
        else:
            emit(nm, [p])
    # drop duplicates, keep order
    seen = set()
    out = []
    for c in cases:
        if c not in seen:
            seen.add(c)
            out.append(c)
    return out


def tag_idents(ctx):
    line = ctx.run_model(["tag_list"])[0]
    return [kv.split("=")[0] for kv in line.split(" ")]


def tag_names(ctx):
    line = ctx.run_model(["tag_list"])[0]
    return {kv.split("=")[0]: bytes.fromhex(kv.split("=")[1]).decode() for kv in line.split(" ")}


def to_model(case, names):
    """A tag given as p<hex> is, on the implementation side, Tag::try_from(<text>); the model is handed the tag that conversion must
    yield: the known tag whose protocol name equals the text case-insensitively (ASCII), else the catch-all with the text verbatim."""
    by_name = {n.lower(): i for i, n in names.items()}

    def conv(spec):
        if not spec.startswith("p"):
            return spec
        try:
            text = bytes.fromhex(spec[1:]).decode()
        except ValueError:
            return spec
        k = "".join(c.lower() if c.isascii() else c for c in text)
        return "t" + by_name[k] if k in by_name else "o" + spec[1:]

    out = []
    for tok in case.split(" "):
        if tok.startswith("p"):
            tok = conv(tok)
        elif tok.startswith("T") and len(tok) > 1:
            tok = "T" + ",".join(conv(x) for x in tok[1:].split(","))
        elif tok.startswith("f") and "," in tok:
            parts = tok[1:].split(",")
            tok = "f" + ",".join([conv(parts[0])] + parts[1:])
        out.append(tok)
    return " ".join(out)


def extra_builds(ctx):
    """the same harness with overflow checks off (release profile): wrapping instead of panicking arithmetic
    would show up as different bytes"""
    if ctx.tier == "thorough":
        ctx.release_ok = step_harness(ctx, release=True)


def run(ctx, only=None):
    if not ctx.model_ok:
        return finish(ctx, evaluations=0, distinct_nontrivial=0, rule="model did not build", samples=[], distribution={},
                      oracle_failures=[], disagreements=[])
    names = tag_names(ctx)
    cases = only if only is not None else gen(ctx, tag_idents(ctx), names)
    impl = ctx.run_impl(cases)
    model = ctx.run_model([to_model(c, names) for c in cases])
    disagreements = compare(cases, impl, model)
    bad = [c for c, o in zip(cases, impl) if o == "bad-case"]
    if bad and only is None:
        raise RuntimeError("generator produced cases the harness cannot read: " + "; ".join(bad[:3]))
    if getattr(ctx, "release_ok", False):
        import os
        rel = ctx.run_impl(cases, harness_bin=ctx.harness_bin.replace(os.sep + "debug" + os.sep, os.sep + "release" + os.sep))
        for c, a, r in zip(cases, impl, rel):
            if a != r:
                disagreements.append({"case": c, "impl": a[:4000], "model": "release profile: " + r[:4000]})
    # oracle: the spec-side reading of what the IMPLEMENTATION did
    ocases = []
    for c, o in zip(cases, impl):
        rest = to_model(c, names).split(" ", 1)[1]
        obs = "PANIC" if o == "PANIC" else (o.split(" ")[1] if o.startswith("ok ") else "PANIC")
        ocases.append(f"predef_oracle {obs} {rest}")
    verdicts = ctx.run_model(ocases)
    fails = []
    dist = {"panics": 0, "commands": {}}
    for c, o, v in zip(cases, impl, verdicts):
        name = c.split(" ")[1]
        dist["commands"][name] = dist["commands"].get(name, 0) + 1
        if o == "PANIC":
            dist["panics"] += 1
        if v != "ok":
            sent = bytes.fromhex(o.split(" ")[1]) if o.startswith("ok ") else o
            fails.append(Failure(c, f"{name}: implementation wrote {sent!r}; reference reading: {v}"))
    if only is not None:
        for c, o, m, v in zip(cases, impl, model, verdicts):
            print("case  :", c)
            print("impl  :", o, bytes.fromhex(o.split(" ")[1]) if o.startswith("ok ") else "")
            print("model :", m)
            print("oracle:", v)
    nontrivial = {c for c in cases if len(c.split(" ")) > 2}
    return finish(
        ctx, evaluations=len(cases), distinct_nontrivial=len(nontrivial),
        rule="every public constructor/builder path of every predefined command: per parameter position a sweep over edge values "
             "(integers 0,1,..,2^31-1,2^32,2^53,2^63,MAX-1,MAX per width; all nine bound shapes x empty/inverted/saturating endpoint "
             "pairs; durations 0,1ns,499999ns,500000ns,500001ns,0.9995s,1.0005s,binary ties,2^32s,2^53s,Duration::MAX; every enum "
             "variant; every named tag and valid/invalid Tag::Other; strings with blanks, quotes, backslash, LF, NUL, non-ASCII) with "
             "the other positions well-behaved, then random draws of all positions, then dense random durations (f64 path is modelled "
             "on exact integers: rn53 + ties-to-even; whole Duration domain, no opaque region) and ranges; oracle = Coq port of MPD's "
             "tokenizer + CommandsSpec reading of the implementation's bytes; strings in C06's recorded class K, invalid Tag::Other "
             "values and filter values holding a double quote (C11's recorded finding) are only checked for the command word; "
             "non-trivial = the path takes at least one parameter; thorough tier also runs the release-profile harness",
        samples=[cases[0], cases[len(cases) // 3], cases[len(cases) // 2], cases[-1]], distribution=dist,
        oracle_failures=fails, disagreements=disagreements,
    )


def replay(ctx, payload):
    return run(ctx, only=payload.get("cases", []))
