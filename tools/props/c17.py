"""C17 — album art is reassembled byte-exactly for any size and chunk limit."""
import re
import looplib as L
from vlib import Failure, finish, hexs, unhexs

COQ_FILES = L.LOOP_COQ_FILES + ["CallerProofs.v"]

URI = "foo/bar.mp3"


def picture(rng, n):
    kind = rng.choice(["look", "rand", "seq"])
    if kind == "look":
        unit = b"OK\nACK [5@0] {} x\nlist_OK\nbinary: 3\nsize: 1\n\x00\xff"
        return (unit * (n // len(unit) + 1))[:n]
    if kind == "rand":
        return bytes(rng.randrange(256) for _ in range(n))
    return bytes((i * 7) % 256 for i in range(n))


def stale_pfail(rng):
    return L.spec("pfail", str(rng.choice([5, 50])), "x", "size", str(rng.choice([3, 8, 99999])), "type", rng.choice(["image/stale", "x"]),
                  *rng.choice([[], ["file", "other.flac"]]))


def expected(cf, terse=False):
    """What the property demands from the server configuration alone."""
    if cf["rperr"] is not None and cf["rperr"] != 5 and not cf["norp"]:
        return f"ack({cf['rperr']},0,{hexs('readpicture')},{hexs('' if terse else 'err')})[]"
    emb_ok = cf["emb"] is not None and not cf["norp"] and cf["rperr"] is None
    if emb_ok:
        return f"art:some({hexs(cf['emb'])},{hexs(cf['mime']) if cf['mime'] is not None else '~'})"
    if cf["file"] is not None:
        return f"art:some({hexs(cf['file'])},~)"
    if cf["fileack"]:
        return f"ack(50,0,{hexs('albumart')},{hexs('' if terse else 'No file exists')})[]"
    return "art:none"


def gen(ctx):
    rng = ctx.rng
    items = []
    combos = []
    for limit in (1, 2, 3, 64, 8192):
        for size in sorted({0, 1, limit - 1, limit, limit + 1, 3 * limit, 3 * limit + 1, 200, 10000, 70000}):
            if size < 0 or size / limit > 260:
                continue
            combos.append((limit, size))
    srcs = ["emb", "emb+mime", "file", "norp+file", "none", "none+ack", "emb-empty+file", "rperr5+file", "rperr50", "both"]
    n_extra = 1 if ctx.tier == "quick" else 6
    for limit, size in combos:
        for src in (srcs if size in (0, 1, 200) or ctx.tier != "quick" else rng.sample(srcs, 3) + ["emb+mime"]):
            for _ in range(n_extra):
                pic = picture(rng, size)
                cf = {"emb": None, "mime": None, "file": None, "norp": False, "limit": limit, "fileack": False, "rperr": None}
                if src in ("emb", "emb+mime", "both"):
                    cf["emb"] = pic
                if src in ("emb+mime", "both"):
                    cf["mime"] = rng.choice([b"image/jpeg", b"image/png; x=\"y\"", "bild/ä".encode()])
                if src in ("file", "norp+file", "emb-empty+file", "rperr5+file"):
                    cf["file"] = pic
                if src == "both":
                    cf["file"] = picture(rng, max(1, size // 2))
                if src == "norp+file":
                    cf["norp"] = True
                    cf["emb"] = b"unused"
                if src == "none+ack":
                    cf["fileack"] = True
                if src == "rperr5+file":
                    cf["rperr"] = 5
                if src == "rperr50":
                    cf["rperr"] = rng.choice([1, 2, 4, 50, 52])
                    cf["file"] = pic
                nreq = int(2.8 * (size // limit)) + 10
                # the order of the header lines of a picture reply is the server's business (hdrN uris: type first, a foreign line among them)
                uri = URI if rng.random() < 0.6 else rng.choice(["hdr1/a.flac", "hdr2/b.flac", "hdr3/c.flac"])
                if src in ("norp+file", "none+ack", "rperr5+file", "rperr50") and rng.random() < 0.5:
                    uri = "terse/d.flac"          # a server whose ACK lines carry no message text
                cf["uri"] = uri
                labels = ["D0", "a1:" + hexs(uri)]
                if rng.random() < 0.25:
                    # the application has dropped its ConnectionEvents (allowed) and subsystems change before / while the picture loads
                    labels = ["D0", "S*", "Z"] + ["N:" + hexs(rng.choice(L.SUBSYSTEMS)) for _ in range(rng.choice([0, 1, 2]))] + ["a1:" + hexs(uri)]
                other = 1
                for k in range(nreq):
                    labels += ["S*"]
                    r = rng.random()
                    if r < 0.15:
                        other += 1
                        labels.append(f"c{other}:" + L.spec("echo", f"o{other}"))
                    elif r < 0.3:
                        labels.append("N:" + hexs(rng.choice(L.SUBSYSTEMS)))
                    elif r < 0.4:
                        labels.append("t" + str(rng.choice([50, 101])))
                    labels += [rng.choice(["D0", "D0", "D0", "D9", "D4097"])]
                labels += L.flush(other + 2)
                # the chunk limit in force may change between requests (a concurrent binarylimit, a server returning short chunks)
                lim = limit
                if rng.random() < 0.4 and limit > 1:
                    lim = ",".join(str(x) for x in [limit, max(1, limit // 2), limit, max(1, limit - 1), min(limit * 2, 8192)])
                    cf["limit"] = lim
                c = L.conf(emb=cf["emb"], mime=cf["mime"], file=cf["file"], norp=cf["norp"], limit=lim, fileack=cf["fileack"], rperr=cf["rperr"])
                items.append((L.Sched(conf=c, labels=labels, note=f"{src} size={size} limit={limit}"), cf))
    # several loads on one connection: what one song lacked must not be remembered for the next; other callers give up while queued
    for _ in range(6 if ctx.tier == "quick" else 60):
        emb, fil = picture(rng, rng.choice([5, 20, 33])), picture(rng, rng.choice([7, 16]))
        limit = rng.choice([4, 8, 64])
        cf = {"emb": emb, "mime": b"image/png", "file": fil, "norp": False, "limit": limit, "fileack": False, "rperr": None,
              "multi": [("noemb-first.mp3", f"art:some({hexs(fil)},~)"), (URI, f"art:some({hexs(emb)},{hexs(b'image/png')})"),
                        ("noemb-again.mp3", f"art:some({hexs(fil)},~)"), ("tagged.flac", f"art:some({hexs(emb)},{hexs(b'image/png')})")]}
        labels = ["D0"]
        for i, (uri, _) in enumerate(cf["multi"]):
            if rng.random() < 0.5:
                # a command that fails after it has printed lines a picture reply could be mistaken for (listfiles prints "size:" per file)
                labels += [f"c{70 + i}:" + stale_pfail(rng)] + (["S*", "D0"] if rng.random() < 0.5 else [])
            labels += [f"a{i + 1}:" + hexs(uri)]
            if rng.random() < 0.5:
                labels += [f"c{50 + i}:" + L.spec("echo", f"o{i}"), f"x{50 + i}"]        # a caller that gives up while queued
            labels += ["S*", "D0"] * (max(len(emb), len(fil)) // limit + 6)
        labels += L.flush(4)
        c = L.conf(emb=emb, mime=b"image/png", file=fil, limit=limit)
        items.append((L.Sched(conf=c, labels=labels, note=f"four loads on one connection, limit {limit}"), cf))
    # a picture loaded right after (or queued behind) a command that failed halfway through output that looks like a picture header
    for src in ("emb+mime", "file", "emb"):
        for wait in ([], ["S*", "D0"], ["S*", "D0", "t200", "S*", "D0"]):
            for _ in range(2 if ctx.tier == "quick" else 10):
                pic = picture(rng, rng.choice([10, 40]))
                cf = {"emb": pic if src != "file" else None, "mime": b"image/jpeg" if src == "emb+mime" else None, "file": pic if src == "file" else None,
                      "norp": False, "limit": 4, "fileack": False, "rperr": None}
                exp = expected(cf)
                cf["multi"] = [(URI, exp)]
                labels = ["D0", "c9:" + stale_pfail(rng)] + wait + ["a1:" + hexs(URI)] + ["S*", "D0"] * 16 + L.flush(3)
                items.append((L.Sched(conf=L.conf(emb=cf["emb"], mime=cf["mime"], file=cf["file"], limit=4), labels=labels,
                                      note=f"{src}: a load right after a command that failed after partial, picture-like output"), cf))
    # hundreds of loads issued at once on one connection (more than any small bound on a queue): every one gets its picture
    for ncall in (260, 400):
        emb = picture(rng, 20)
        cf = {"emb": emb, "mime": b"image/png", "file": None, "norp": False, "limit": 8, "fileack": False, "rperr": None,
              "multi": [(f"song{i}.flac", f"art:some({hexs(emb)},{hexs(b'image/png')})") for i in range(ncall)]}
        labels = ["D0", "S*", "D0"] + [f"a{i + 1}:" + hexs(uri) for i, (uri, _) in enumerate(cf["multi"])]
        labels += ["S*", "D0"] * (ncall * 3 + 10) + L.flush(4)
        items.append((L.Sched(conf=L.conf(emb=emb, mime=b"image/png", limit=8), labels=labels, note=f"{ncall} loads issued at once"), cf))
    # the connection ends while a later chunk is outstanding: the caller must get the failure, not "no album art" and not a truncated picture
    for fault in ("e", "cut", "G:" + hexs(b"what\n"), "r"):
        for src in ("emb+mime", "file"):
            pic = picture(rng, 40)
            cf = {"emb": pic if src != "file" else None, "mime": b"image/png" if src != "file" else None, "file": pic if src == "file" else None,
                  "norp": False, "limit": 8, "fileack": False, "rperr": None, "fault": fault}
            labels = ["D0", "a1:" + hexs(URI)] + ["S*", "D0"] * rng.choice([3, 4, 5])
            labels += {"e": ["e"], "cut": ["S*", "D5", "e"], "r": ["r"]}.get(fault, [fault]) + ["t200", "e", "t200"]
            c = L.conf(emb=cf["emb"], mime=cf["mime"], file=cf["file"], limit=8)
            items.append((L.Sched(conf=c, labels=labels, note=f"{src} 40 bytes limit 8, connection ends mid-transfer ({fault[:1]})"), cf))
    return items


MIB = 1 << 20


def bigart_cases(ctx):
    """Pictures and chunk limits of real-world magnitude (the schedules above stay below 70 000 bytes because their pictures travel in
    the case text and through the extracted model): run by the harness alone against a server task of its own (harness/src/artcases.rs)
    and judged here from the arguments alone."""
    rng = ctx.rng
    cases = []
    for src in "efu":
        cases += [f"bigart {src} 100000 8192 1", f"bigart {src} 8193 8192 0", f"bigart {src} 8192 8192 1", f"bigart {src} 1 8192 0"]
    # one chunk larger than 8 MiB (MPD's default output buffer; binarylimit may be raised above it), many chunks of a large picture,
    # sizes around multiples of the limit, a limit larger than the picture
    cases += [f"bigart e {8 * MIB + 4099} {8 * MIB + 1} 1", f"bigart f {8 * MIB + 1} {16 * MIB} 0", f"bigart u {20 * MIB + 5} {9 * MIB} 0",
              f"bigart e {3 * MIB} 65536 1", f"bigart f {MIB + 1} {MIB} 0", f"bigart e {2 * MIB - 1} {MIB} 0", f"bigart e 70000 1000000 1"]
    # a great many requests for one picture (MPD's smallest binarylimit is 64; a client may meet any): counts beyond u16
    cases += ["bigart e 70001 1 1", "bigart f 66000 1 0", f"bigart u {65 * 65537} 64 0"]
    for _ in range(6 if ctx.tier == "quick" else 60):
        limit = rng.choice([1000, 4096, 8192, 65536, 100000, MIB, 4 * MIB])
        k = rng.choice([1, 2, 3, 7])
        size = max(1, k * limit + rng.choice([-1, 0, 1, rng.randrange(limit)]))
        if size // limit > 3000:
            continue
        cases.append(f"bigart {rng.choice('efu')} {size} {limit} {rng.choice('01')}")
    # every size in a window around the receive buffer's capacity and its doubling (one reply = one write = one read: a reply that
    # fills the free space of the buffer exactly is somewhere in here, whatever the lengths of the header lines)
    for lo, hi in ((3980, 4110), (8090, 8200)) if ctx.tier == "quick" else ((3900, 4200), (8000, 8300), (16200, 16500)):
        for size in range(lo, hi):
            cases += [f"bigart e {size} 65536 1", f"bigart e {size} 65536 0", f"bigart f {size} 65536 0", f"bigart u {size} 65536 0"]
    if ctx.tier == "thorough":
        cases += [f"bigart e {64 * MIB + 3} {32 * MIB} 1", f"bigart f {33 * MIB} {64 * MIB} 0", f"bigart e {16 * MIB} {16 * MIB} 0", f"bigart u {5 * MIB} 4096 0"]
    return cases


def bigart_expected(case):
    _, src, size, limit, mime = case.split(" ")
    size, limit = int(size), int(limit)
    chunks = max(1, -(-size // limit))
    m = "696d6167652f6a706567" if (src == "e" and mime == "1") else "~"
    total = chunks if src == "e" else chunks + 1
    return (f"some len={size} ", f" firstdiff=~ mime={m} requests={total} serving={chunks} offsets_exact=1 ")


def judge_bigart(case, out):
    a, b_ = bigart_expected(case)
    if out.startswith(a) and b_ in out + " ":
        return None
    _, src, size, limit, mime = case.split(" ")
    return (f"album_art for a picture of {size} bytes ({ {'e': 'embedded', 'f': 'cover file', 'u': 'cover file, readpicture unknown'}[src]}"
            f"{', with a type' if mime == '1' and src == 'e' else ''}) served in chunks of {limit} bytes: got `{out[:300]}`; expected the "
            f"{size} bytes unchanged ({a.strip()} ...{b_.strip()})")


def run(ctx, only=None):
    if only is not None and only and isinstance(only[0], str):
        outs = ctx.run_impl(only)
        bad = 0
        for c, o in zip(only, outs):
            print("case:", c, "\nimpl:", o[:600])
            m = judge_bigart(c, o)
            if m:
                bad += 1
                print(f"VIOLATION property=C17 replay=(this case) {m}")
        return 1 if bad else 0
    items = only if only is not None else gen(ctx)
    scheds = [s for s, _ in items]
    results = L.run_schedules(ctx, scheds)
    dis = L.disagreements(results)
    fails = []
    nontrivial = 0
    reqs_total = 0
    for r, (s, cf) in zip(results, items):
        t = L.Trace(r)
        v = []
        if t.panic:
            v.append("panic: " + r["impl_raw"][:300])
        if cf and cf.get("multi"):
            for i, (uri, exp) in enumerate(cf["multi"]):
                got = t.results().get(i + 1, (None, "<never resolved>"))[1]
                if got != exp:
                    v.append(f"load {i + 1} ({uri}) returned {got[:120]}; the server holds {exp[:120]} for it ({s.note})")
        elif cf and cf.get("fault"):
            got = t.results().get(1, (None, "<never resolved>"))[1]
            if not (got == "closed" or got.startswith("proto:")):
                v.append(f"the connection ended in the middle of the transfer, but album_art returned {got[:120]} instead of the failure ({s.note})")
        elif cf:
            exp = expected(cf, terse=str(cf.get("uri", "")).startswith("terse"))
            got = t.results().get(1, (None, "<never resolved>"))[1]
            if got != exp:
                v.append(f"album_art returned {got[:160]}...; the server holds {exp[:160]}... ({s.note})")
            lines = [l for _, l in t.written_lines() if l.startswith(b"readpicture ") or l.startswith(b"albumart ")]
            reqs_total += len(lines)
            if len(lines) > 2:
                nontrivial += 1
            for word in (b"readpicture", b"albumart"):
                offs = [int(l.rsplit(b" ", 1)[1]) for l in lines if l.startswith(word + b" ")]
                if any(b <= a for a, b in zip(offs, offs[1:])) or (offs and offs[0] != 0):
                    v.append(f"{word.decode()} offsets are not strictly increasing from 0: {offs[:12]}")
            m = re.match(r"art:some\(([0-9a-f-]*),", exp)
            size = len(unhexs(m.group(1))) if m else 0
            if len(lines) > size + 3:
                v.append(f"{len(lines)} requests for a picture of {size} bytes")
            used_file = any(l.startswith(b"albumart ") for l in lines)
            should_fall = cf["norp"] or cf["rperr"] == 5 or (cf["emb"] is None and cf["rperr"] is None)
            if used_file != should_fall:
                v.append(f"fallback to the cover-file command {'happened' if used_file else 'did not happen'}; it must happen exactly when readpicture yields nothing or is unknown ({s.note})")
        for m in v[:3]:
            fails.append(Failure(s.model_case(), m, extra={"impl_case": r["impl_case"], "cf": {k: (hexs(x) if isinstance(x, bytes) else x) for k, x in cf.items()} if cf else None}))
    if only is not None:
        for r in results:
            print("labels:", " ".join(r["sched"].labels)[:800], "\nimpl  :", r["impl_raw"][:2500], "\nmodel :", " ".join(r["model_segs"])[:2500])
    big = []
    if only is None:
        big = bigart_cases(ctx)
        for c, o in zip(big, ctx.run_impl(big)):
            m = judge_bigart(c, o)
            if m:
                fails.append(Failure(c, m, extra={"bigart": True}))
    return finish(
        ctx, evaluations=len(scheds) + len(big), distinct_nontrivial=nontrivial + len(big),
        rule="Client::album_art against a picture-holding simulated server: sizes 0,1,L-1,L,L+1,3L,3L+1,200,10000,70000 x chunk limits 1,2,3,64,8192 "
             "(combinations needing <= 260 requests), payloads made of protocol look-alikes / random / sequential bytes, sources embedded (with and "
             "without MIME), cover file, both, neither (empty reply or ACK 50), readpicture unknown (ACK 5) or failing with another code, with a "
             "second caller, notifications, the re-idle timer and partial deliveries interleaved; oracle from the server configuration alone: result "
             "bytes and MIME, strictly increasing offsets from 0, request count <= size+3, fallback exactly when demanded; non-trivial = > 2 requests. "
             "Plus, implementation only (harness-internal server, judged from the arguments): pictures of 1 byte .. 20 MiB (64 MiB thorough) in chunks "
             "of 1000 bytes .. 16 MiB (64 MiB), including single chunks above 8 MiB, sizes at k*limit-1, k*limit, k*limit+1, all three sources: "
             "the bytes unchanged, the type, one request per chunk at offsets 0, L, 2L, ...",
        samples=[s.note for s in scheds[:3]] + big[:2], distribution={"schedules": len(scheds), "picture_requests": reqs_total, "large_pictures": len(big),
                 "largest_picture_bytes": max([int(c.split(" ")[2]) for c in big] or [0]), "largest_chunk_limit": max([int(c.split(" ")[3]) for c in big] or [0])},
        oracle_failures=fails, disagreements=dis,
    )


def replay(ctx, payload):
    if payload.get("extra", {}).get("bigart"):
        return run(ctx, only=list(payload.get("cases", [])))
    items = []
    cfx = payload.get("extra", {}).get("cf")
    for c in payload.get("cases", []):
        toks = c.split(" ")
        cf = None
        if cfx:
            cf = {k: (unhexs(x) if k in ("emb", "mime", "file") and x is not None else x) for k, x in cfx.items()}
        items.append((L.Sched(cspec=toks[1], conf=toks[2], labels=toks[3:], note="replay"), cf))
    return run(ctx, only=items)
