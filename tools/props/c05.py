"""C05 — the client's output is always a legal MPD session (idle/noidle discipline)."""
import looplib as L
from vlib import Failure, finish, hexs

COQ_FILES = L.LOOP_COQ_FILES + L.REFINE_COQ_FILES + L.CANCEL_COQ_FILES + L.MUTE_COQ_FILES

CORPUS = [
    # the noidle race: the server answers idle while the client cancels it
    L.Sched(labels=["D0", "S*", "N:" + hexs("player"), "i1:" + L.spec("echo", "a"), "D0", "S*", "D0"] + L.FLUSH, note="noidle race (N3)"),
    L.Sched(labels=["D0", "i1:" + L.spec("echo", "a"), "S*", "D0", "S*", "D0", "i2:" + L.spec("echo", "b"), "S*", "D0", "t99", "t1", "S*"] + L.FLUSH,
            note="second request inside the window; re-idle exactly at the timeout"),
    L.Sched(labels=["D0", "S*", "N:" + hexs("mixer"), "D3", "i1:" + L.spec("echo", "a"), "D0", "S*", "D0"] + L.FLUSH,
            note="request arrives while an idle reply is half delivered"),
    # the application keeps ConnectionEvents but does not poll it while many notifications arrive: the loop must keep re-idling
    L.Sched(labels=["D0", "S*", "q"] + sum([["N:" + hexs(L.SUBSYSTEMS[i % 14]), "D0", "S*"] for i in range(300)], []) +
            ["c1:" + L.spec("echo", "a"), "S*", "D0", "S*", "D0", "Q"] + L.flush(1), note="300 notifications while the event stream is not polled"),
]


def big_request_schedules():
    """Requests of kilobytes .. more than 2 MiB (MPD's own limits are the server's business), taken inside the re-idle window and from
    the idling state, then ordinary traffic: the session goes on, idle is re-issued."""
    out = []
    for n in (5000, 20000):
        big = L.spec("big", str(n))
        e = lambda x: L.spec("echo", x)
        out.append(L.Sched(labels=["D0", "c1:" + e("a"), "S*", "D0", "S*", "D0", "c2:" + big, "S*", "D0", "t200", "S*", "D0", "c3:" + e("z")] + L.flush(3), note=f"a {n}-byte request inside the window"))
        out.append(L.Sched(labels=["D0", "S*", "D0", "i1:" + big + "," + e("b"), "S*", "D0", "S*", "D0", "c2:" + e("z")] + L.flush(2), note=f"a {n}-byte list from the idling state"))
    return out


def gen(ctx):
    rng = ctx.rng
    scheds = list(CORPUS) + L.binary_reply_schedules() + big_request_schedules()
    n = 150 if ctx.tier == "quick" else 3000
    for _ in range(n):
        labels, info, nreq = L.gen_session(rng, rng.choice([5, 15, 40, 80]), pauses=True)
        scheds.append(L.Sched(labels=labels + L.flush(nreq), note="random session"))
    # sessions inside the fragment of the refinement theorems (c05_exec_refines): the theorem's domain is sampled against the real client too
    for _ in range(40 if ctx.tier == "quick" else 800):
        labels, info, nreq = L.gen_fragment_session(rng, rng.choice([5, 15, 40, 80]), cancels=rng.random() < 0.4, drops=rng.random() < 0.3)
        scheds.append(L.Sched(labels=labels + L.flush(nreq), note="fragment session"))
    return scheds


BIGART = [c + " linger" for c in (
    "bigart e 100000 8192 1", "bigart f 70000 4096 0", f"bigart e {8 * 1048576 + 4096} {16 * 1048576} 1", f"bigart u {9 * 1048576} {16 * 1048576} 0",
    f"bigart e {3 * 1048576} 65536 0", "bigart e 4051 65536 1", "bigart f 4068 65536 0", f"bigart e {17 * 1048576} {32 * 1048576} 0")]


BIGREQ = [f"bigreq {n} {w}" for n in (1000, 70000, 2 * 1048576 - 64, 2 * 1048576 + 64, 5 * 1048576) for w in "wi"]


def judge_bigreq(case, out):
    """A request of any size is one request: written whole after the noidle exchange (or inside the window), answered, and idle follows;
    the next request finds the session in step."""
    import re
    _, n, where = case.split(" ")
    want_results = "ok,ok,ok" if where == "w" else "ok,ok"
    want_session = (f"idle,noidle,ping,echo({n}),idle,noidle,status,idle" if where == "w" else f"idle,noidle,echo({n}),idle,noidle,status,idle")
    if int(n) <= 100:
        want_session = want_session.replace(f"echo({n})", "echo")
    m = re.fullmatch(r"results=(\S*) session=(\S*)", out.strip())
    # (on a stalled machine the window may have expired before the big request was issued: then it is taken from the idling state)
    alt_session = want_session.replace("ping,echo", "ping,idle,noidle,echo")
    if not m or m.group(1) != want_results or m.group(2) not in (want_session, alt_session):
        return (f"a {n}-byte request {'inside the re-idle window' if where == 'w' else 'from the idling state'}, then another request: got {out[:300]}; "
                f"expected results {want_results} and the server to see {want_session}")
    return None


def judge_bigart_session(case, out):
    """Large binary replies (their payload holds lines that look like protocol lines): whatever arrives, the client's side of the
    session stays idle, noidle, the picture requests, and at most one idle after them."""
    import re
    m = re.search(r"session=(\S*)", out)
    if not m:
        return f"{case}: no session recorded: {out[:200]}"
    ses = m.group(1)
    if not re.fullmatch(r"idle,noidle(,(readpicture|albumart)(\*\d+)?)+,idle", ses):
        return (f"loading a picture ({case}): the server saw the lines {ses}; a legal session is idle, noidle, the picture requests one at a "
                f"time, then one idle once the re-idle delay has passed (nothing else while a reply is in flight, only noidle while the server idles); result: {out[:160]}")
    return None


def run(ctx, only=None):
    if only is not None and only and isinstance(only[0], str) and only[0].startswith(("bigart", "bigreq")):
        bad = 0
        for c, o in zip(only, ctx.run_impl(only)):
            print("case:", c, "\nimpl:", o)
            m = judge_bigreq(c, o) if c.startswith("bigreq") else judge_bigart_session(c, o)
            if m:
                bad += 1
                print("VIOLATION property=C05 replay=(this case)", m)
        return 1 if bad else 0
    scheds = only if only is not None else gen(ctx)
    results = L.run_schedules(ctx, scheds)
    dis = L.disagreements(results)
    fails = []
    nontrivial = 0
    for r in results:
        t = L.Trace(r)
        if t.panic:
            fails.append(Failure(r["sched"].model_case(), "the client panicked: " + r["impl_raw"][:300]))
        v = L.judge_session(r)
        if sum(1 for _, l in t.written_lines() if l == b"noidle") > 0:
            nontrivial += 1
        lines = [l for _, l in t.written_lines()]
        if not t.flag("X") and lines and lines[-1] != b"idle":
            v.append(f"after the last reply and more than the re-idle delay the client did not issue idle again (last line {lines[-1]!r})")
        for m in v[:3]:
            fails.append(Failure(r["sched"].model_case(), m + "\n  written: " + " ".join(repr(l) for l in lines[:60]), extra={"impl_case": r["impl_case"]}))
    if only is None:
        for c, o in zip(BIGREQ, ctx.run_impl(BIGREQ)):
            m = judge_bigreq(c, o)
            if m:
                fails.append(Failure(c, m, extra={"bigart": True}))
        for c, o in zip(BIGART, ctx.run_impl(BIGART)):
            m = judge_bigart_session(c, o)
            if m:
                fails.append(Failure(c, m, extra={"bigart": True}))
    # select! ties: a change and a request in the same instant (judged by the oracles alone; the built-in server answers)
    ties = L.gen_tie_cases(ctx.rng, 40 if ctx.tier == "quick" else 800) if only is None else []
    if ties:
        outs = ctx.run_impl([c for c, _ in ties], deterministic=False)
        for (c, info), raw in zip(ties, outs):
            for m in L.judge_tie(raw, c.split(" "), info)[:2]:
                fails.append(Failure(c, "[select! tie] " + m + "\n  trace: " + raw[:1200], klass=None, extra={"tie": True}))
    if only is not None:
        for r in results:
            print("labels:", " ".join(r["sched"].labels)[:1500], "\nops   :", " ".join(r["ops"])[:1500], "\nimpl  :", r["impl_raw"][:2500], "\nmodel :", " ".join(r["model_segs"])[:2500])
    inside, why = L.fragment_membership(ctx, scheds)
    dist = {"in_refinement_fragment": inside, "outside_fragment_first_label_kind": why, "tie_schedules": len(ties), "schedules": len(scheds), "labels_total": sum(len(s.labels) for s in scheds), "with_noidle": nontrivial,
            "requests": sum(sum(1 for l in s.labels if l[0] in "ic") for s in scheds),
            "notifications": sum(sum(1 for l in s.labels if l.startswith("N:")) for s in scheds)}
    return finish(
        ctx, evaluations=len(scheds) + len(ties), distinct_nontrivial=nontrivial,
        rule="random schedules of caller operations (raw commands and lists from several callers, cancellations), server-side subsystem changes, "
             "server steps, deliveries of 1..all bytes and clock advances (1..250 ms around the 100 ms re-idle delay) against the rule-abiding "
             "simulated server, each followed by a flush; the real Client is driven by the replayer (paused tokio clock, scripted transport); judged "
             "(a) by a server-side port of MPD's idle rules fed with the lines the implementation wrote and (b) from the client's view (responses "
             "delivered when each line was written); non-trivial = at least one idle was cancelled with noidle",
        samples=[" ".join(scheds[0].labels)[:300], " ".join(scheds[-1].labels)[:300]], distribution=dist, oracle_failures=fails, disagreements=dis,
    )


def replay(ctx, payload):
    cases = payload.get("cases", [])
    if cases and cases[0].startswith(("bigart", "bigreq")):
        return run(ctx, only=list(cases))
    if payload.get("extra", {}).get("tie"):
        # a select! tie: the outcome depends on tokio's random branch choice; run it several times
        for c in cases:
            for k, raw in enumerate(ctx.run_impl([c] * 8, deterministic=False)):
                print(f"run {k}:", raw[:1500])
        print("(tie schedules are judged by the oracles of tools/looplib.judge_tie; re-run ./check C05 for the verdict)")
        return 0
    scheds = []
    for c in cases:
        toks = c.split(" ")
        scheds.append(L.Sched(cspec=toks[1], conf=toks[2], labels=toks[3:]))
    return run(ctx, only=scheds)
