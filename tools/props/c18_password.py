"""C18, password half: the password is the first thing written; idle only after the server accepted it;
a rejected password yields the incorrect-password error with nothing further written."""
import looplib as L
from vlib import Failure, hexs

PASSWORDS = [b"secret", b"pass word", b"p \"q", b"", "pässwörd".encode(), b"a\tb", b"x" * 300, b" s3cret", b"s3cret ", b" ", b"  two  ", b"\ttab\t"]


def wire_password(pw):
    """What the command API must write (quoting rules are C06's business; simple passwords only are compared exactly)."""
    if pw and all(33 <= c < 127 and c not in b"\"'\\" for c in pw):
        return b"password " + pw
    if pw and all(32 <= c < 127 and c not in b"\"'\\" for c in pw):
        return b'password "' + pw + b'"'          # blanks force the quoted form; they are part of the password, also at its ends
    return None


def gen(ctx):
    rng = ctx.rng
    items = []
    greet = [["D0"], ["D1", "D1", "D0"], ["D3", "D7", "D0"], ["D14", "D0"]]
    for pw in PASSWORDS:
        for api in ("p", "o"):
            for verdict in ("ok", "wrong", "ack5", "close", "cut", "garbage", "rerr", "werr", "two", "listack", "fieldsack", "listok", "fieldsok"):
                g = rng.choice(greet)
                cf = L.conf(pw=(b"other" if verdict == "wrong" else pw))
                # the server may take its time over the verdict (seconds, minutes): the outcome is the verdict's, whenever it comes
                wait = rng.choice([[], [], ["t9000"], ["t11000"], ["t30000", "t45000"], ["t3600000"]])
                if verdict == "ok":
                    labels = g + wait + ["S*"] + wait + [rng.choice(["D0", "D1"]), "D0", "S*", "i1:" + L.spec("echo", "a")] + L.flush(1)
                elif verdict == "wrong":
                    labels = g + wait + ["S*"] + wait + ["D0", "t200", "S*", "D0"]
                elif verdict == "ack5":
                    labels = g + ["G:" + hexs(b"ACK [5@0] {} unknown command \"password\"\n"), "t200"]
                elif verdict == "listack":     # the verdict is the ACK wherever it stands in the reply
                    labels = g + ["G:" + hexs(rng.choice([b"list_OK\n", b"list_OK\nlist_OK\n", b"a: b\nlist_OK\n"]) + b"ACK [3@1] {password} incorrect password\n"), "t200"]
                elif verdict == "fieldsack":
                    labels = g + ["G:" + hexs(b"foo: bar\nACK [3@0] {password} incorrect password\n"), "t200"]
                elif verdict == "listok":
                    labels = g + ["G:" + hexs(b"list_OK\nOK\n"), "t200", "S*", "D0"] + L.flush(0)
                elif verdict == "fieldsok":
                    labels = g + ["G:" + hexs(b"foo: bar\nOK\n"), "t200", "S*", "D0"] + L.flush(0)
                elif verdict == "close":
                    labels = g + ["e", "t200"]
                elif verdict == "cut":
                    labels = g + ["G:" + hexs(b"O"), "e", "t200"]
                elif verdict == "garbage":
                    labels = g + ["G:" + hexs(b"what\n"), "t200"]
                elif verdict == "rerr":
                    labels = g + ["r", "t200"]
                elif verdict == "werr":
                    labels = ["w"] + g + ["t200"]
                else:   # the reply arrives together with further bytes
                    labels = g + ["S*", "N:" + hexs("player"), "D0", "S*", "D0"] + L.flush(0)
                items.append((L.Sched(cspec=f"{api}:{hexs(pw)}", conf=cf, labels=labels, note=f"pw={pw[:20]!r} {verdict}"), {"pw": pw, "verdict": verdict}))
    # the verdict arrives in two parts, cut after every byte of its line (and byte by byte): the outcome is the verdict's
    for api in ("p", "o"):
        pw = b"secret"
        for verdict, line in (("wrong", b"ACK [3@0] {password} incorrect password\n"), ("ok", b"OK\n")):
            cf = L.conf(pw=(b"other" if verdict == "wrong" else pw))
            for cutl in [[f"D{k}"] for k in range(1, len(line))] + [["D1"] * (len(line) + 2)]:
                tail = ["t200", "S*", "D0"] if verdict == "wrong" else ["S*", "i1:" + L.spec("echo", "a")] + L.flush(1)
                items.append((L.Sched(cspec=f"{api}:{hexs(pw)}", conf=cf, labels=["D0", "S*"] + cutl + ["D0"] + tail, note=f"verdict {verdict} cut {cutl[0]}x{len(cutl)}"),
                              {"pw": pw, "verdict": verdict}))
    for api in ("p~", "o~"):
        for g in greet:
            items.append((L.Sched(cspec=api, labels=g + ["S*", "i1:" + L.spec("echo", "a")] + L.flush(1), note="no password"), {"pw": None, "verdict": "ok"}))
    return items


def run_password(ctx):
    items = gen(ctx)
    scheds = [s for s, _ in items]
    results = L.run_schedules(ctx, scheds)
    dis = L.disagreements(results)
    fails = []
    dist = {}
    for r, (s, info) in zip(results, items):
        t = L.Trace(r)
        dist[info["verdict"]] = dist.get(info["verdict"], 0) + 1
        lines = [l for _, l in t.written_lines()]
        conn = t.conn()[1]
        v = []
        if t.panic:
            v.append("panic: " + r["impl_raw"][:200])
        pw = info["pw"]
        if pw is None:
            if not lines or lines[0] != b"idle":
                v.append(f"without a password the first line written must be idle, got {lines[:2]}")
        else:
            if info["verdict"] == "werr":
                if lines:
                    v.append(f"writes fail, yet {lines[:2]} was recorded")
                if conn != "err:io":
                    v.append(f"connect returned {conn}, expected the I/O error")
            else:
                if not lines or not lines[0].startswith(b"password "):
                    v.append(f"the first line written is {lines[:1]}, not the password command")
                w = wire_password(pw)
                if w is not None and lines and lines[0] != w:
                    v.append(f"password line {lines[0]!r} differs from {w!r}")
                want = {"ok": "ok:", "two": "ok:", "listok": "ok:", "fieldsok": "ok:", "wrong": "err:badpassword", "ack5": "err:badpassword",
                        "listack": "err:badpassword", "fieldsack": "err:badpassword", "close": "err:ueof", "cut": "err:ueof",
                        "garbage": "err:invalid", "rerr": "err:io"}[info["verdict"]]
                if conn is None or not conn.startswith(want):
                    v.append(f"connect returned {conn}; verdict '{info['verdict']}' demands {want}")
                if info["verdict"] in ("ok", "two", "listok", "fieldsok"):
                    if len(lines) < 2 or lines[1] != b"idle":
                        v.append(f"after the accepted password the next line must be idle, got {lines[1:3]}")
                    ci = t.conn()[0]
                    idle_at = next((i for i, l in t.written_lines() if l == b"idle"), None)
                    delivered = b"".join(x for i, x in t.delivered() if idle_at is not None and i <= idle_at)
                    if idle_at is not None and L.count_responses(delivered[delivered.find(b"\n") + 1:]) < 1:
                        v.append("idle was written before the reply to the password had been delivered")
                else:
                    if len(lines) > 1:
                        v.append(f"after a password that was not accepted nothing further may be written, got {lines[1:4]}")
        for m in v[:3]:
            fails.append(Failure(s.model_case(), f"[{s.note}] " + m, extra={"impl_case": r["impl_case"]}))
    return {"fails": fails, "dis": dis, "dist": dist, "n": len(scheds)}
