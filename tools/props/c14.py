"""C14 — song listings decode to the songs the server listed.

Abstract listings (Python mirror of coq/SongSpec.v) -> wire -> real parser -> real
Command::response of Queue / QueueRange / CurrentSong / Find / GetPlaylist / ListAllIn ->
canonical print.  Correspondence: implementation vs Coq model (driver kind `songs`).
ORACLE (independent of the Coq code model): the decoded songs must equal `expected`, computed
here from the abstract listing.  Plus a malformed stream (Err / no PANIC agreement)."""
import re
from decimal import Decimal
from vlib import Failure, finish, hexs, unhexs

COQ_FILES = ["Bytes.v", "Tables.v", "TagModel.v", "TagProofs.v", "SongStd.v", "SongModel.v", "SongSpec.v", "SongProofs.v"]

MULTI_Q = ["Queue", "QueueRange"]
MULTI_S = ["Find", "GetPlaylist", "ListAllIn"]
RESERVED = ["file", "directory", "playlist", "duration", "Time", "Range", "Format", "Last-Modified", "Prio", "Pos", "Id"]

# ------------------------------------------------------------------ abstract listings

URLS = ["a.flac", "m/" + "d" * 4200 + ".flac", "dir/sub/b c.mp3", "http://example.org/stream?x=1: 2", "ä/ö.ogg", "日本語.flac", "x", "file: y", "Artist: z", "OK", "a\tb"]
VALUES = ["Foo", "", "Intro\r", "\r", "a\rb", "x\r\r", "end\t", " ", "a: b", ": ", "Ünï©ode", "日本語", "\U0001F600", "  lead", "trail ", "12", "0", "007", "+3", "18446744073709551615",
          "18446744073709551616", "x" * 70, "file: z", "OK", "ACK [5@0] {} x", "-1", "3/12", "1/12", "3 / 12", "A/B", "12/", "/12", "v" * 4090, "v" * 4097, "v" * 9000]
UNKNOWN_TAGS = ["Foo", "foo", "FOO", "x", "a-b_c", "File", "FILE", "time", "TIME", "pos", "ID", "format", "Directory", "last-modified",
                "Mood", "TitleSort", "Albumx", "Duration", "range", "PRIO"]
DURS = ["0", "1", "123.456", "0.0005", "4194303.999999999", "5.", ".5", "+7.25", "00012.250", "1.500", "0.000000001", "3600", "59.999",
        "0.100"]
FORMATS = ["44100:16:2", "48000:24:2", "dsd64:2", "*:*:*", "", "a: b"]


def gen_ts(rng):
    if rng.random() < 0.25:
        # valid RFC 3339 in other layouts than MPD's own: numeric offsets, fractions of a second
        return rng.choice(["2020-06-12T17:53:00+00:00", "2020-06-12T17:53:00+02:00", "2020-06-12T17:53:00-08:00", "2020-06-12T17:53:00.5Z",
                           "2020-06-12T23:59:59.999999999+05:30", "2020-06-12T00:00:00-00:00", "1999-12-31T23:59:59+14:00"])
    return "%04d-%02d-%02dT%02d:%02d:%02dZ" % (rng.choice([1970, 2020, 2024, rng.randrange(0, 10000)]), rng.randrange(1, 13),
                                               rng.randrange(1, 29), rng.randrange(24), rng.randrange(60), rng.randrange(60))


def mixed(s, rng):
    return "".join(c.upper() if rng.random() < 0.5 else c.lower() for c in s)


def gen_attr(rng, names):
    r = rng.random()
    if r < 0.10:
        return ("duration", rng.choice(DURS))
    if r < 0.18:
        return ("Time", rng.choice(["0", "1", "215", "3600", "4194303", "12.5"]))
    if r < 0.25:
        f = rng.choice(["1.5", "0", "10", "0.250", "4194303.999999999", ".5", "+2"])
        t = rng.choice([None, None, "3.25", "20", "0.750", "4194303.5"])
        return ("Range", f, t)
    if r < 0.32:
        return ("Format", rng.choice(FORMATS))
    if r < 0.40:
        return ("Last-Modified", gen_ts(rng))
    if r < 0.46:
        return ("Prio", rng.choice([0, 1, 10, 128, 255]))
    if r < 0.53:
        return ("Pos", rng.choice([0, 1, 7, 65535, 2 ** 32, 2 ** 64 - 1, rng.randrange(1000)]))
    if r < 0.60:
        return ("Id", rng.choice([0, 1, 12, 2 ** 32 - 1, 2 ** 63, 2 ** 64 - 1, rng.randrange(100000)]))
    q = rng.random()
    if q < 0.55:
        n = rng.choice(names)
        n = rng.choice([n, n, n.lower(), n.upper(), mixed(n, rng)])
    elif q < 0.8:
        n = rng.choice(["Artist", "artist", "ARTIST", "Album", "Title", "Disc", "Track", "AlbumArtist", "albumartist", "Genre"])
    else:
        n = rng.choice(UNKNOWN_TAGS)
    return ("tag", n, rng.choice(VALUES))


def gen_song(rng, names, mpd_like=False):
    url = rng.choice(URLS) if rng.random() < 0.7 else "m/" + str(rng.randrange(10 ** 6)) + ".flac"
    if mpd_like:
        # the shape MPD really sends: Last-Modified, Format, tags, Time, duration, Pos, Id (each once)
        attrs = [("Last-Modified", gen_ts(rng)), ("Format", rng.choice(FORMATS[:3]))]
        for n in ["Artist", "Artist", "AlbumArtist", "Title", "Album", "Track", "Date", "Genre", "Disc"]:
            if rng.random() < 0.6:
                attrs.append(("tag", n, rng.choice(VALUES)))
        attrs += [("Time", "215"), ("duration", "215.336")]
        if rng.random() < 0.3:
            attrs.append(("Range", "1.5", rng.choice([None, "3.25"])))
        if rng.random() < 0.3:
            attrs.append(("Prio", rng.randrange(256)))
        attrs += [("Pos", rng.randrange(5000)), ("Id", rng.randrange(100000))]
        return ("song", url, attrs)
    if rng.random() < 0.06:
        # a song with MANY tag lines (a classical recording: dozens of performers; every sort / MusicBrainz tag), several tags
        # repeated with values that tell their order: whatever is done with the lines of one song is done for 33, 64, 200 of them
        many = rng.choice([33, 34, 40, 64, 65, 130, 300])
        few = rng.sample(names, min(len(names), rng.choice([1, 2, 3, 6])))
        attrs = [("tag", rng.choice(few), f"{rng.choice(['Performer', 'v', 'x y'])} {i:03d}") for i in range(many)]
        for _ in range(rng.choice([0, 2, 5])):
            attrs.insert(rng.randrange(len(attrs) + 1), gen_attr(rng, names))
        return ("song", url, attrs)
    n = rng.choice([0, 0, 1, 2, 3, 5, 8, 14, 25])
    attrs = [gen_attr(rng, names) for _ in range(n)]
    if attrs and rng.random() < 0.3:       # forced repetitions
        for _ in range(rng.choice([1, 2, 4])):
            a = rng.choice(attrs)
            if a[0] == "tag":
                n2 = rng.choice([a[1], a[1].lower(), a[1].upper()])
                a = ("tag", a[1] if n2 in RESERVED else n2, rng.choice(VALUES))
            attrs.insert(rng.randrange(len(attrs) + 1), a)
    return ("song", url, attrs)


def gen_listing(rng, names, n_entries=None):
    n = rng.randrange(0, 31) if n_entries is None else n_entries
    style = rng.random()
    out = []
    for _ in range(n):
        r = rng.random()
        if r < 0.22:
            out.append(("dir", rng.choice(["d", "a/b", "ä", "x y", "file", ""]), gen_ts(rng) if rng.random() < 0.7 else None))
        elif r < 0.38:
            out.append(("pl", rng.choice(["p.m3u", "lists/q.m3u", "ö.pls", "playlist", "", " ", "a: b"]), gen_ts(rng) if rng.random() < 0.7 else None))
        else:
            out.append(gen_song(rng, names, mpd_like=style < 0.25))
    return out


def attr_line(a):
    k = a[0]
    if k == "tag":
        return (a[1], a[2])
    if k == "Range":
        return ("Range", a[1] + "-" + (a[2] or ""))
    if k in ("Prio", "Pos", "Id"):
        return (k, str(a[1]))
    return (k, a[1])


def enc_listing(listing):
    fields = []
    for e in listing:
        if e[0] == "song":
            fields.append(("file", e[1]))
            fields += [attr_line(a) for a in e[2]]
        else:
            fields.append(("directory" if e[0] == "dir" else "playlist", e[1]))
            if e[2] is not None:
                fields.append(("Last-Modified", e[2]))
    return fields


def wire_of(fields):
    return b"".join(k.encode() + b": " + v.encode() + b"\n" for k, v in fields) + b"OK\n"


# ------------------------------------------------------------------ the reference ("expected")

def nanos(txt):
    """exact nanoseconds of a plain decimal text with <= 9 fraction digits (the generator's domain)"""
    t = txt.lstrip("+-")
    return int(Decimal(t if not t.startswith(".") else "0" + t) * 10 ** 9)


def rust_u64(s):
    t = s[1:] if s.startswith("+") else s
    if t and all(c in "0123456789" for c in t) and int(t) < 2 ** 64:
        return int(t)
    return 0


def hexlist(l):
    return "[" + ";".join(hexs(x) for x in l) + "]"


def last(l):
    return l[-1] if l else None


def expected_song(url, attrs, canon, queue):
    """The ~10-line reference: what the listed song IS, from the abstract entry alone."""
    pick = lambda k: [a for a in attrs if a[0] == k]
    durs, times = pick("duration"), pick("Time")
    # `duration` preferred over the legacy `Time` wherever it stands; last `duration` wins.
    # NOTE (models the code, surprising): of several `Time` lines the FIRST counts.
    dur = nanos(durs[-1][1]) if durs else (nanos(times[0][1]) if times else None)
    tags = {}
    for a in pick("tag"):
        tags.setdefault(canon.get(a[1].lower(), a[1]), []).append(a[2])
    fmt, lm, rng_ = last(pick("Format")), last(pick("Last-Modified")), last(pick("Range"))
    first = lambda n: (tags.get(n) or [None])[0]
    o = lambda v, f=lambda x: hexs(x): "~" if v is None else f(v)
    s = (f"url={hexs(url)},dur={o(dur, str)},tags={{{'&'.join(n + '=' + hexlist(v) for n, v in sorted(tags.items(), key=lambda p: p[0].encode()))}}},"
         f"fmt={o(fmt[1] if fmt else None)},lm={o(lm[1] if lm else None)},art={hexlist(tags.get('Artist', []))},"
         f"aart={hexlist(tags.get('AlbumArtist', []))},alb={o(first('Album'))},tit={o(first('Title'))},"
         f"num={rust_u64(first('Disc') or '')}.{rust_u64(first('Track') or '')},path={hexs(url)}")
    if not queue:
        return s
    num = lambda k: (last(pick(k)) or (k, 0))[1]
    r = "~" if rng_ is None else f"{nanos(rng_[1])}-{'~' if rng_[2] is None else nanos(rng_[2])}"
    return f"pos={num('Pos')},id={num('Id')},prio={num('Prio')},range={r},{s}"


def expected_line(listing, cmd, canon):
    songs = [expected_song(e[1], e[2], canon, cmd in MULTI_Q or cmd == "CurrentSong") for e in listing if e[0] == "song"]
    if cmd == "CurrentSong":
        # a currentsong reply holds at most one entry; on longer listings the code returns the song
        # still in progress at the end (the last entry if it is a song), not the first
        if listing and listing[-1][0] == "song":
            return "ok [" + songs[-1] + "]"
        return "ok ~"
    return "ok [" + "|".join(songs) + "]"


# ------------------------------------------------------------------ malformed stream

BAD_NUM = ["", "-1", "1x", " 5", "5 ", "0x10", "1.0", "18446744073709551616", "99999999999999999999999", "٣", "1e3"]
BAD_DUR = ["", ".", "+", "-", "-1", "-0.5", "1e", "1e+", "inf", "-inf", "Infinity", "nan", "NaN", "1_0", "0x10", " 1", "1 ", "1..5",
           "--1", "e3", "abc", "36893488147419103232", "1,5"]
ODD_DUR = ["1e3", "1E-3", "1e-400", "-1e-400", "18446744073709551615", "18446744073709551616", "9007199254740993", "0.1234567891",
           "0.0000000005", "4194304.000000001", "1e300", "1e19", "1.8446744073709552e19", "-0.0000000001", "123456789.123456789",
           "-0", "-0.000", "+0", "000", "1.", ".5"]
BAD_RANGE = ["foo", "5", "", "-5", "-", "1.0--5.0", "a-b", "1-2-3", "1.5-x", "inf-1", "1-nan"]
BAD_TS = ["", "x", "2020-06-12", "2020-06-12T17:53", "20200612T175300Z", "2020-6-12T17:53:0Z", "yesterday"]
ODD_TS = ["2020-06-12T17:53:00", "2020-06-12t17:53:00z", "2020-06-12 17:53:00Z", "2020-06-12T17:53:00+02:00", "2020-06-12T17:53:00.123Z",
          "2021-02-29T00:00:00Z", "2020-02-29T00:00:00Z", "2020-06-31T17:53:00Z", "2020-06-12T24:00:00Z", "2020-06-12T17:53:60Z",
          "2020-13-12T17:53:00Z", "2020-06-12T17:53:00Z ", "12020-06-12T17:53:00Z"]


def gen_malformed(rng, names):
    """(fields, expected error line or None).  The expectation is given only where the first
    offending line is known by construction."""
    listing = gen_listing(rng, names, n_entries=rng.choice([1, 2, 3, 6]))
    fields = enc_listing(listing)
    kind = rng.choice(["attr_first", "no_file", "empty_url", "bad_pos", "bad_id", "bad_prio", "bad_dur", "bad_time", "bad_range", "bad_ts",
                       "odd_dur", "odd_ts", "unknown_start", "random"])
    exp = None
    song_idx = [i for i, (k, _) in enumerate(fields) if k == "file"]

    def inject(key, val, need_fresh=None):
        """insert (key,val) after a random line of a random song; expectation if it is the first bad line"""
        if not song_idx:
            fields.insert(0, (key, val))
            return None if key == "Last-Modified" else f"err unexpected_field file {key}"
        i = rng.choice(song_idx)
        j = i + 1
        while j < len(fields) and fields[j][0] not in ("file", "directory", "playlist"):
            j += 1
        at = rng.randrange(i + 1, j + 1)
        if need_fresh is not None and any(k in need_fresh for k, _ in fields[i + 1:at]):
            fields.insert(at, (key, val))
            return None
        fields.insert(at, (key, val))
        return f"err invalid_value {key} {hexs(val)}"

    if kind == "attr_first":
        k, v = rng.choice([("Title", "x"), ("duration", "1"), ("Pos", "1"), ("Id", "3"), ("Time", "2"), ("Format", "f"), ("Range", "1-"),
                           ("Prio", "1"), ("Foo", "y"), ("OKx", "1")])
        fields.insert(0, (k, v))
        exp = f"err unexpected_field file {k}"
    elif kind == "no_file":
        if song_idx:
            i = song_idx[0]
            del fields[i]
            # the attributes of that song now follow whatever came before
            if i < len(fields) and fields[i][0] not in ("file", "directory", "playlist") and (i == 0 or all(k in ("directory", "playlist", "Last-Modified") for k, _ in fields[:i])):
                if fields[i][0] != "Last-Modified":
                    exp = f"err unexpected_field file {fields[i][0]}"
    elif kind == "empty_url":
        if song_idx:
            i = rng.choice(song_idx)
            fields[i] = ("file", "")
            if all(k in ("directory", "playlist", "Last-Modified") for k, _ in fields[:i]):
                if i + 1 < len(fields) and fields[i + 1][0] not in ("file", "directory", "playlist", "Last-Modified"):
                    exp = f"err unexpected_field file {fields[i + 1][0]}"
    elif kind in ("bad_pos", "bad_id", "bad_prio"):
        key = {"bad_pos": "Pos", "bad_id": "Id", "bad_prio": "Prio"}[kind]
        exp = inject(key, rng.choice(BAD_NUM + (["256", "1000"] if key == "Prio" else [])))
    elif kind == "bad_dur":
        exp = inject("duration", rng.choice(BAD_DUR))
    elif kind == "bad_time":
        exp = inject("Time", rng.choice(BAD_DUR), need_fresh=("duration", "Time"))
    elif kind == "bad_range":
        v = rng.choice(BAD_RANGE)
        e = inject("Range", v)
        if e is not None and e.startswith("err invalid_value"):
            # the error value is the offending half (or the whole value when there is no '-')
            if "-" not in v:
                bad = v
            else:
                f, t = v.split("-", 1)
                bad = f if not _plain_ok(f) else t
            e = f"err invalid_value Range {hexs(bad)}"
        exp = e
    elif kind == "bad_ts":
        exp = inject("Last-Modified", rng.choice(BAD_TS))
    elif kind == "odd_dur":
        inject(rng.choice(["duration", "Time"]), rng.choice(ODD_DUR))
    elif kind == "odd_ts":
        inject("Last-Modified", rng.choice(ODD_TS))
    elif kind == "unknown_start":
        fields.insert(rng.randrange(len(fields) + 1), (rng.choice(["Directory", "File", "Playlist", "dir"]), "x"))
    else:
        for _ in range(rng.choice([1, 2, 4])):
            if fields and rng.random() < 0.5:
                del fields[rng.randrange(len(fields))]
            else:
                k = rng.choice(RESERVED + ["Title", "artist", "x"])
                v = rng.choice(VALUES + BAD_DUR + BAD_NUM + DURS + ["1-", "2020-01-01T00:00:00Z"])
                fields.insert(rng.randrange(len(fields) + 1), (k, v))
    # an earlier line may already be the first offender only in the `random` / `None` cases
    return fields, exp


def _plain_ok(t):
    return re.fullmatch(r"[+]?(\d+\.?\d*|\.\d+)", t) is not None or re.fullmatch(r"-0*\.?0*", t) is not None and any(c == "0" for c in t)


# ------------------------------------------------------------------ comparison with wildcards

def model_matches(case, impl, model):
    """The model prints `?` where std/chrono decides (out-of-domain float text, non-canonical
    timestamp) and ends the line in " ?" when the frame holds such a value anywhere: those tokens
    are wildcards, and the implementation may instead have rejected exactly such a value."""
    if impl == model:
        return True
    if not model.endswith(" ?"):
        return False
    model = model[:-2]
    if impl == model:
        return True
    m = re.fullmatch(r"err invalid_value (\S+) (\S+)", impl)
    if m:
        fld, val = m.group(1), unhexs(m.group(2))
        for line in unhexs(case.split(" ")[2]).split(b"\n"):
            k, sep, v = line.partition(b": ")
            if sep and k.decode(errors="replace") == fld and (v == val or (fld == "Range" and val in v.split(b"-", 1))):
                return True
        return False
    # each `?` stands for a run of characters other than , | ] - (a linear scan first: the texts hold values of thousands of bytes, and
    # compiling a regular expression of that length per case made the thorough tier take 40 minutes)
    segs = model.split("?")
    bad = set(",|]-")
    if impl.startswith(segs[0]):
        pos, ok = len(segs[0]), True
        for i, seg in enumerate(segs[1:], 1):
            last = i == len(segs) - 1
            j = (len(impl) - len(seg) if impl.endswith(seg) else -1) if last else impl.find(seg, pos)
            if j < pos or any(ch in bad for ch in impl[pos:j]):
                ok = False
                break
            pos = j + len(seg)
        if ok and (len(segs) == 1 and pos == len(impl) or len(segs) > 1):
            return True
    if len(model) > 4000:
        return False
    rx = "".join(r"[^,|\]\-]*" if c == "?" else re.escape(c) for c in model)
    return re.fullmatch(rx, impl) is not None


# ------------------------------------------------------------------ run

def tag_names(ctx):
    out = ctx.run_impl(["tag_list"])[0]
    names = []
    for tok in out.split(" "):
        if "=" in tok:
            names.append(unhexs(tok.split("=", 1)[1]).decode())
    return names


def shrink(ctx, listing, cmd, canon):
    """Greedy removal of entries and attributes while the oracle still fails."""
    def fails(ls):
        cases = [f"songs {cmd} {hexs(wire_of(enc_listing(l)))}" for l in ls]
        outs = ctx.run_impl(cases)
        return [o != expected_line(l, cmd, canon) for l, o in zip(ls, outs)]
    cur = listing
    for _ in range(200):
        cands = []
        for i in range(len(cur)):
            cands.append(cur[:i] + cur[i + 1:])
        for i, e in enumerate(cur):
            if e[0] == "song":
                for j in range(len(e[2])):
                    cands.append(cur[:i] + [("song", e[1], e[2][:j] + e[2][j + 1:])] + cur[i + 1:])
            elif e[2] is not None:
                cands.append(cur[:i] + [(e[0], e[1], None)] + cur[i + 1:])
        if not cands:
            break
        res = fails(cands)
        nxt = next((c for c, f in zip(cands, res) if f), None)
        if nxt is None:
            break
        cur = nxt
    return cur


def gen(ctx, names):
    rng = ctx.rng
    canon = {n.lower(): n for n in names}
    cases, expect, meta = [], [], []
    n_valid = 700 if ctx.tier == "quick" else 12000
    n_bad = 500 if ctx.tier == "quick" else 8000

    def ambiguous(listing):
        # several `Time` lines with different values and no `duration`: MPD never sends that and the
        # code's choice (the first) is arbitrary -> correspondence only, no verdict from the reference
        for e in listing:
            if e[0] == "song" and not any(a[0] == "duration" for a in e[2]):
                if len({nanos(a[1]) for a in e[2] if a[0] == "Time"}) > 1:
                    return True
        return False

    def add(listing, cmd, oracle=True):
        oracle = oracle and not ambiguous(listing)
        cases.append(f"songs {cmd} {hexs(wire_of(enc_listing(listing)))}")
        expect.append(expected_line(listing, cmd, canon) if oracle else None)
        meta.append(("valid", listing, cmd))

    # hand-picked boundary listings first
    ts = "2020-06-12T17:53:00Z"
    corpus = [
        [],
        [("song", "a.flac", [])],
        [("dir", "d", ts)], [("pl", "p.m3u", ts)], [("dir", "d", None), ("pl", "p", None)],
        [("song", "a.flac", [("Last-Modified", "2001-01-01T00:00:00Z")]), ("dir", "d", ts), ("song", "b.flac", [])],
        [("song", "a.flac", []), ("pl", "p.m3u", ts)],
        [("song", "a.flac", [("Last-Modified", "2001-01-01T00:00:00Z")]), ("pl", "p.m3u", ts), ("dir", "d", ts)],
        [("song", "a", [("Time", "5"), ("duration", "5.25")])], [("song", "a", [("duration", "5.25"), ("Time", "5")])],
        [("song", "a", [("Time", "5"), ("Time", "7")])], [("song", "a", [("duration", "5.25"), ("duration", "7.5"), ("Time", "1")])],
        [("song", "a", [("tag", "Artist", "x"), ("tag", "artist", "y"), ("tag", "ARTIST", "z"), ("tag", "Album", "q")])],
        [("song", "a", [("tag", "Foo", "1"), ("tag", "foo", "2"), ("tag", "Foo", "3")])],
        [("song", "a", [("Pos", 5), ("Id", 12)]), ("song", "b", [("Id", 13), ("Pos", 6), ("Prio", 255)])],
        [("song", "a", [("Pos", 1), ("Pos", 2), ("Id", 3), ("Id", 4), ("Prio", 5), ("Prio", 6), ("Format", "x"), ("Format", "y"),
                        ("Range", "1.5", "3.25"), ("Range", "10", None), ("Last-Modified", ts), ("Last-Modified", "2021-01-01T00:00:00Z")])],
        [("song", "a", [("tag", "Disc", "2"), ("tag", "Track", "+07"), ("tag", "Track", "9")])],
        [("song", "a", [("tag", "Disc", "x"), ("tag", "Track", "18446744073709551616")])],
        [("song", "file: y", [("tag", "Title", "a: b"), ("Format", ": ")])],
    ]
    for l in corpus:
        for cmd in MULTI_Q + MULTI_S:
            add(l, cmd)
        add(l, "CurrentSong", oracle=len(l) <= 1)
    for i in range(n_valid):
        l = gen_listing(rng, names)
        cmd = rng.choice(MULTI_Q + MULTI_S)
        add(l, cmd)
        if i % 5 == 0:
            add(l, rng.choice([c for c in MULTI_Q + MULTI_S if c != cmd]))
        if i % 7 == 0:
            add(l, "CurrentSong", oracle=False)
    for _ in range(n_valid // 5):
        add(gen_listing(rng, names, n_entries=rng.choice([0, 1])), "CurrentSong")
    # numeric texts: std's reading is exact on the stated domain (oracle: exact decimal arithmetic),
    # and the f64 / RFC 3339 syntax classes agree with the model everywhere else (correspondence)
    n_num = 400 if ctx.tier == "quick" else 30000
    for i in range(n_num):
        r = rng.random()
        key = rng.choice(["duration", "Time"])
        if r < 0.45:
            ip = rng.choice([rng.randrange(0, 2 ** 22), rng.randrange(0, 100), 2 ** 22 - 1, 0])
            nf = rng.randrange(0, 10)
            txt = rng.choice(["", "", "+", "0", "000"]) + str(ip) + ("." + "".join(rng.choice("0123456789") for _ in range(nf)) if nf or rng.random() < 0.2 else "")
            if rng.random() < 0.1 and nf:
                txt = txt.lstrip("+0")          # forms like ".5"
            listing = [("song", "n.flac", [(key, txt)])]
            add(listing, rng.choice(MULTI_Q + MULTI_S))
            continue
        if r < 0.55:
            f = str(rng.randrange(0, 2 ** 22)) + rng.choice(["", ".5", ".000000001", ".123456789"])
            t = rng.choice([None, str(rng.randrange(0, 2 ** 22)) + rng.choice(["", ".25", ".999999999"])])
            add([("song", "n.flac", [("Range", f, t)])], "Queue")
            continue
        if r < 0.8:
            txt = "".join(rng.choice("0123456789.eE+-infINFat ") for _ in range(rng.choice([1, 2, 3, 5, 8, 12, 25])))
            fields = [("file", "n.flac"), (rng.choice([key, "Range"]), txt)]
        elif r < 0.9:
            txt = gen_ts(rng)
            if rng.random() < 0.7:
                txt = list(txt)
                for _ in range(rng.choice([1, 1, 2])):
                    j = rng.randrange(len(txt))
                    if rng.random() < 0.4:
                        del txt[j]
                    else:
                        txt[j] = rng.choice("0123456789-:TZtz +.")
                txt = "".join(txt)
            fields = [("file", "n.flac"), ("Last-Modified", txt)]
        else:
            txt = rng.choice(["", "+", "-"]) + "".join(rng.choice("0123456789") for _ in range(rng.choice([1, 3, 19, 20, 21, 30])))
            fields = [("file", "n.flac"), (rng.choice(["Pos", "Id", "Prio"]), txt)]
        cases.append(f"songs Queue {hexs(wire_of(fields))}")
        expect.append(None)
        meta.append(("malformed", fields, "Queue"))
    for _ in range(n_bad):
        fields, exp = gen_malformed(rng, names)
        cmd = rng.choice(MULTI_Q + MULTI_S + ["CurrentSong"])
        cases.append(f"songs {cmd} {hexs(wire_of(fields))}")
        expect.append(exp)
        meta.append(("malformed", fields, cmd))
    return cases, expect, meta


def extra_builds(ctx):
    """thorough tier: the other cfg (feature chrono off), built into a target directory of its own"""
    ctx.nc_bin = None
    if ctx.tier == "thorough":
        import os
        import vlib
        tgt = vlib.TARGET + "_nc"
        if vlib.step_harness(ctx, features="", target=tgt):
            ctx.nc_bin = os.path.join(vlib.CACHE, tgt, "debug", "verif_harness")


def run_nochrono(ctx, cases, expect, meta):
    """Same cases with chrono off (driver kind songs_nc): every timestamp text is accepted verbatim."""
    sel = [(c, e, m) for c, e, m in zip(cases, expect, meta)
           if m[0] == "valid" or (m[0] == "malformed" and b"Last-Modified" in unhexs(c.split(" ")[2]))]
    nc_cases = ["songs_nc" + c[5:] for c, _, _ in sel]
    impl = ctx.run_impl(nc_cases, harness_bin=ctx.nc_bin)
    model = ctx.run_model(nc_cases) if ctx.model_ok else None
    dis, fails = [], []
    for i, (c, a) in enumerate(zip(nc_cases, impl)):
        if model is not None and not model_matches(c, a, model[i]):
            dis.append({"case": c, "impl": a[:4000], "model": model[i][:4000], "cfg": "no chrono"})
        exp = sel[i][1] if sel[i][2][0] == "valid" else None
        if a == "PANIC" or (exp is not None and a != exp):
            fails.append(Failure(c, f"(feature chrono off) {c.split(' ')[1]} reply {unhexs(c.split(' ')[2])!r}\n  listed (reference):  {str(exp)[:1500]}\n  implementation:      {a[:1500]}",
                                 extra={"expect": exp}))
    return len(nc_cases), dis, fails[:5]


def run(ctx, only=None):
    names = tag_names(ctx)
    canon = {n.lower(): n for n in names}
    if only is not None:
        cases, expect = only["cases"], only["expect"]
        meta = [("replay", None, c.split(" ")[1]) for c in cases]
    else:
        cases, expect, meta = gen(ctx, names)
    impl = ctx.run_impl(cases)
    model = ctx.run_model(cases) if ctx.model_ok else None
    dis = []
    if model is not None:
        for c, a, m in zip(cases, impl, model):
            if not model_matches(c, a, m):
                dis.append({"case": c, "impl": a[:4000], "model": m[:4000]})
    fails = []
    n_wild = sum(1 for m in (model or []) if "?" in m)
    for c, out, exp, mt in zip(cases, impl, expect, meta):
        if out == "PANIC":
            fails.append(Failure(c, f"the implementation PANICS decoding the reply {unhexs(c.split(' ')[2])!r} as {c.split(' ')[1]}", extra={"expect": exp}))
        elif exp is not None and mt[0] == "malformed" and exp.startswith("err invalid_value") and out.split(" ")[:3] == exp.split(" ")[:3]:
            pass      # which part of a bad value is reported back is not the property's business
        elif exp is not None and out != exp:
            case, small = c, None
            if mt[0] == "valid" and only is None:
                small = shrink(ctx, mt[1], mt[2], canon)
                case = f"songs {mt[2]} {hexs(wire_of(enc_listing(small)))}"
                exp = expected_line(small, mt[2], canon)
                out = ctx.run_impl([case])[0]
            fails.append(Failure(case, f"{c.split(' ')[1]} reply {unhexs(case.split(' ')[2])!r}\n  listed (reference):  {exp[:1500]}\n  implementation:      {out[:1500]}",
                                 extra={"expect": exp, "listing": repr(small) if small is not None else None}))
            if len(fails) >= 5 and only is None:
                break
    if only is not None:
        for i, c in enumerate(cases):
            print("case :", c[:1500], "\nwire :", unhexs(c.split(" ")[2])[:1500], "\nimpl :", impl[i][:1500])
            if model is not None:
                print("model:", model[i][:1500])
            print("spec :", (expect[i] or "(no reference for this case)")[:1500])
    n_nc = 0
    if only is None and getattr(ctx, "nc_bin", None):
        n_nc, dis_nc, fails_nc = run_nochrono(ctx, cases, expect, meta)
        dis += dis_nc
        fails += fails_nc
    nsongs = sum(sum(1 for e in m[1] if e[0] == "song") for m in meta if m[0] == "valid")
    dist = {
        "valid_listing_cases": sum(1 for m in meta if m[0] == "valid"),
        "malformed_cases": sum(1 for m in meta if m[0] == "malformed"),
        "malformed_with_known_first_error": sum(1 for m, e in zip(meta, expect) if m[0] == "malformed" and e is not None),
        "songs_listed_total": nsongs,
        "entries_histogram": {str(k): sum(1 for m in meta if m[0] == "valid" and len(m[1]) == k) for k in range(0, 31, 5)},
        "listings_with_interleaved_dir_or_playlist_lm": sum(1 for m in meta if m[0] == "valid" and any(e[0] != "song" and e[2] for e in m[1]) and any(e[0] == "song" for e in m[1])),
        "per_command": {cmd: sum(1 for m in meta if m[2] == cmd) for cmd in MULTI_Q + MULTI_S + ["CurrentSong"]},
        "impl_ok": sum(1 for o in impl if o.startswith("ok")), "impl_err": sum(1 for o in impl if o.startswith("err")),
        "impl_noresponse": sum(1 for o in impl if o.startswith("no")),
        "model_lines_with_opaque_token": n_wild,
        "cases_rerun_with_feature_chrono_off": n_nc,
    }
    nontrivial = {c for c, m in zip(cases, meta) if m[0] == "malformed" or (m[0] == "valid" and len(m[1]) >= 2)}
    return finish(
        ctx, evaluations=len(cases) + n_nc, distinct_nontrivial=len(nontrivial),
        rule="listings of 0..30 entries generated from the abstract type (songs with any subset/order/repetition of duration, Time, Range, "
             "Format, Last-Modified, Prio, Pos, Id and tag lines incl. unknown names and letter-case variants, values with ': ' and non-ASCII; "
             "interleaved directory/playlist entries with their own Last-Modified; a quarter in MPD's own line order), encoded to wire bytes, pushed "
             "through the REAL parser and the real Command::response of Queue/QueueRange/CurrentSong/Find/GetPlaylist/ListAllIn, every public "
             "field and helper accessor printed (durations as integer nanoseconds, tags sorted by name). Correspondence with the Coq model on every "
             "case; ORACLE: the printed songs equal the reference computed in Python from the abstract listing (independent of the Coq code model); "
             "malformed stream (attributes before any file, removed file line, empty url, bad numbers/durations/ranges/timestamps, random edits): no "
             "PANIC, and the expected first error where known by construction. Durations: exact on plain decimals with <= 9 fraction digits and "
             "integer part < 2^22; elsewhere the model prints an opaque token `?` (std decides) that the comparer treats as a wildcard; timestamps: "
             "chrono is an oracle (canonical UTC text accepted, < 20 bytes rejected, else opaque). non-trivial = >= 2 entries or malformed",
        samples=[cases[5][:300], cases[-1][:300]] if len(cases) > 5 else cases[:2], distribution=dist, oracle_failures=fails, disagreements=dis,
        exhaustive=False,
    )


def replay(ctx, payload):
    cases = payload.get("cases", [])
    exp = payload.get("extra", {}).get("expect")
    return run(ctx, only={"cases": cases, "expect": [exp for _ in cases]})
