"""C13 — command lists are framed as one batch and typed replies pair positionally."""
import looplib as L
from vlib import Failure, finish, hexs

COQ_FILES = L.LOOP_COQ_FILES + ["CommandProofs.v", "CallerProofs.v"]


PIC = bytes((i * 11 + 3) % 256 for i in range(300))
PIC_LIMIT = 64
ART_CONF = L.conf(file=PIC, limit=PIC_LIMIT)


def data_sum(d):
    a = len(d)
    for x in d:
        a = (a * 31 + x) % 4294967296
    return a


def any_specs(rng, n, rid):
    specs, want, lines = [], [], []
    for k in range(n):
        r = rng.random()
        val = str(rid * 100 + k)
        if r < 0.15:
            # a command whose reply carries a binary part (one chunk of the cover file): the chunk must reach the value at its position
            uri = f"song{rid}x{k}.flac"
            specs.append("a" + hexs(uri)); want.append(str(data_sum(PIC[:PIC_LIMIT]))); lines.append(b"albumart " + uri.encode() + b" 0")
        elif r < 0.45:
            specs.append("u" + hexs(val)); want.append(val); lines.append(b"update " + val.encode())
        elif r < 0.9:
            specs.append("r" + hexs(val)); want.append(val); lines.append(b"rescan " + val.encode())
        else:
            specs.append("s"); want.append("~"); lines.append(b"stop")
    return specs, want, lines


def gen(ctx):
    rng = ctx.rng
    items = []
    sizes_v = list(range(0, 21))
    rounds = 2 if ctx.tier == "quick" else 40
    for _ in range(rounds):
        for kind, sizes in (("v", sizes_v), ("y", list(range(1, 9)))):
            labels = ["D0"]
            exp = {}
            frames = []
            rid = 0
            for n in sizes:
                rid += 1
                specs, want, lines = any_specs(rng, n, rid)
                labels.append(f"{kind}{rid}:" + ",".join(specs))
                exp[rid] = "ok[" + ",".join(want) + "]"
                frames.append(lines)
                if rng.random() < 0.3:
                    labels.append("N:" + hexs(rng.choice(L.SUBSYSTEMS)))
                if rng.random() < 0.5:
                    labels += ["S*", rng.choice(["D0", "D5", "D11"])]
            items.append((L.Sched(conf=ART_CONF, labels=labels + L.flush(rid), note=f"typed {kind} lists"), {"expect": exp, "frames": frames}))
    # a second caller's raw list interleaved with typed lists
    for _ in range(20 if ctx.tier == "quick" else 400):
        labels = ["D0"] if rng.random() < 0.6 else ["k" + str(rng.choice([1, 5, 16, 24])), "D0"]
        exp = {}
        frames = []
        cancelled = set()
        rid = 0
        for _ in range(rng.choice([2, 5, 9])):
            if rng.random() < 0.25:
                # an earlier request on the same connection that failed after the server had already printed part of its output
                # (alone, or as the first command of a list): nothing of it may leak into the frames of the next list
                rid += 1
                sp = L.spec("pfail", str(rng.choice([5, 50])), f"stale{rid}")
                if rng.random() < 0.5:
                    labels.append(f"c{rid}:{sp}")
                    exp[rid] = L.expected_result("c", [sp])
                    frames.append([L.spec_line(sp).encode()])
                else:
                    sp2 = L.spec("echo", "never")
                    labels.append(f"i{rid}:{sp},{sp2}")
                    exp[rid] = L.expected_result("i", [sp, sp2])
                    frames.append([L.spec_line(sp).encode(), L.spec_line(sp2).encode()])
                labels += rng.choice([[], ["S*"], ["S*", "D0"]])
                if rng.random() < 0.6:
                    # ... seen most directly by an untyped list right behind it: its frames are exactly its own commands' output
                    rid += 1
                    sps = [L.spec("echo", f"r{rid}", f"c{k}") for k in range(rng.choice([2, 3, 5]))]
                    labels.append(f"i{rid}:" + ",".join(sps))
                    exp[rid] = L.expected_result("i", sps)
                    frames.append([L.spec_line(x).encode() for x in sps])
            rid += 1
            kind = rng.choice("vy")
            n = rng.choice([1, 2, 3, 8]) if kind == "y" else rng.choice([0, 1, 2, 7, 13])
            specs, want, lines = any_specs(rng, n, rid)
            labels.append(f"{kind}{rid}:" + ",".join(specs))
            exp[rid] = "ok[" + ",".join(want) + "]"
            frames.append(lines)
            labels += rng.choice([[], ["S*"], ["S*", "D0"], ["t101"], ["N:" + hexs("player")], ["D3"], ["t31000"], ["t29000", "t2000"], ["S*", "t3600000"], ["t61000", "S*"]])
            if rng.random() < 0.15 and n >= 1:
                # the caller gives up (timeout in the application) while its list is queued or in flight; the next list must still pair with its own frames
                labels += rng.choice([[], ["S*"]]) + [f"x{rid}"]
                del exp[rid]
                cancelled.add(rid)
        items.append((L.Sched(conf=ART_CONF, labels=labels + L.flush(rid), note="mixed typed lists"), {"expect": exp, "frames": frames}))
    # the application has dropped its ConnectionEvents (allowed) and the idle that a list interrupts reports changes (in the reply to
    # noidle, or just before it): nobody is there to be told, and the list is answered like any other
    for kind in "vy":
        for pre in (["N:" + hexs("player")], ["N:" + hexs("player"), "N:" + hexs("mixer")], ["N:" + hexs("player"), "S*"], ["N:" + hexs("player"), "S*", "D9"], []):
            for drop in (["S*", "Z"], ["Z"], ["S*", "D0", "Z", "t200"]):
                specs1, want1, lines1 = any_specs(rng, 3 if kind == "y" else 4, 1)
                specs2, want2, lines2 = any_specs(rng, 2, 2)
                labels = ["D0"] + drop + ["S*", "D0"] + pre + [f"{kind}1:" + ",".join(specs1)] + ["S*", "D0"] * 3 + ["t200", "S*", "D0", "N:" + hexs("output"), f"{kind}2:" + ",".join(specs2)]
                items.append((L.Sched(conf=ART_CONF, labels=labels + L.flush(2), note="lists interrupting an idle that reports changes, nobody listening for events"),
                              {"expect": {1: "ok[" + ",".join(want1) + "]", 2: "ok[" + ",".join(want2) + "]"}, "frames": [lines1, lines2]}))
    # writes start failing while the reply to one list is on its way and the next list is already queued: the first list was answered
    # completely and its caller gets its values; only the list that could not be written fails
    for kind in "vy":
        for wl in ("w", "w1"):
            for mid in ([], ["D7"], ["D1", "D1"]):
                specs1, want1, lines1 = any_specs(rng, 3, 1)
                specs2, want2, lines2 = any_specs(rng, 2, 2)
                # (the idle is cancelled and list 1 written before the fault; its reply is produced, then writes begin to fail, then it arrives)
                labels = ["D0", f"{kind}1:" + ",".join(specs1), f"{kind}2:" + ",".join(specs2), "S*", "D0", "S*"] + mid + [wl, "D0", "t200", "t200"]
                items.append((L.Sched(conf=ART_CONF, labels=labels, note="writes fail after a list was answered, with the next list queued"),
                              {"expect": {1: "ok[" + ",".join(want1) + "]"}, "frames": None}))
    # a malformed line in the middle of the reply to a list: that list fails; a list issued right afterwards gets an error or ITS OWN
    # values — never what was left of the broken reply
    for bad in (b"\xff\n", b"what\n", b"\n", b": x\n"):
        for k in (1, 15, 16, 17, 31, 40):
            specs1, want1, lines1 = any_specs(rng, 4, 1)
            specs1 = [x for x in specs1 if not x.startswith("a")] or ["u" + hexs("100")]
            specs1 = (specs1 + ["u" + hexs("101"), "r" + hexs("102"), "u" + hexs("103")])[:4]
            lines1 = [(b"update " if x[0] == "u" else b"rescan " if x[0] == "r" else b"stop") + (bytes.fromhex(x[1:]) if len(x) > 1 else b"") for x in specs1]
            lines1 = [l.rstrip() for l in lines1]
            specs2 = ["u" + hexs("900"), "r" + hexs("901")]
            labels = ["D0", "v1:" + ",".join(specs1), "S*", "D3", "S*", f"D{k}", "G:" + hexs(bad), "D0", "v2:" + ",".join(specs2), "S*", "D0", "t50", "S*", "D0", "t200", "t200"]
            items.append((L.Sched(conf=ART_CONF, labels=labels, note=f"malformed line {bad!r} {k} bytes into a list's reply, then another list"),
                          {"expect": {}, "own_or_error": {2: "ok[900,901]"}, "frames": None}))
    # the empty list writes nothing and resolves to the empty result whatever the state of the connection (a server that hung up,
    # malformed data, failing reads, an exited loop)
    for fault in (["e"], ["S*", "e"], ["G:" + hexs(b"what\n")], ["r"], ["w", "t100"], ["N:" + hexs("player"), "D7", "e"]):
        for kind in ("v",):
            specs, want, lines = any_specs(rng, 2, 1)
            labels = ["D0", f"{kind}1:" + ",".join(specs), "S*", "D0", "S*", "D0"] + fault + ["t200", f"{kind}2:", "t200", f"{kind}3:", "t200"]
            items.append((L.Sched(conf=ART_CONF, labels=labels, note="empty typed list after the connection ended: " + " ".join(fault)[:20]),
                          {"expect": {1: "ok[" + ",".join(want) + "]", 2: "ok[]", 3: "ok[]"}, "frames": [lines, [], []]}))
    return items


def biglist_cases(ctx):
    """Lists whose request lines add up to kilobytes .. several megabytes (MPD's own limit on a list is the server's business: the
    client sends what it was given as ONE batch)."""
    cases = []
    for how in ("add", "command", "extend"):
        cases += [f"cmd_biglist {how} 2 10", f"cmd_biglist {how} 1000 20", f"cmd_biglist {how} 40 65536", f"cmd_biglist {how} 2200 1000",
                  f"cmd_biglist {how} 2049 1024", f"cmd_biglist {how} 3 1048576", f"cmd_biglist {how} 70000 8"]
    if ctx.tier == "thorough":
        cases += [f"cmd_biglist extend 20000 1000", f"cmd_biglist add 9 4194304"]
    return cases


def rawarg_cases():
    """Lists with a command one of whose arguments renders itself verbatim and holds a line feed: the command cannot be built, so no
    such list is ever sent; with harmless verbatim arguments the list is one batch like any other."""
    cases = []
    plain = [",".join([hexs("play"), hexs("3")]), ",".join([hexs("status")])]
    for raw, ok in ((b"Artist\nclear", False), (b"\n", False), (b"x\ncommand_list_end", False), (b"a\nb\nc", False), (b"Artist", True), (b"x-y_z", True), (b"", True)):
        bad = ",".join([hexs("list"), "~" + raw.hex()])
        for how in ("add", "command", "extend"):
            for shape in ([plain[0], bad, plain[1]], [bad, plain[0]], [plain[1], bad]):
                cases.append((" ".join(["cmd_list", how] + shape), ok, len(shape)))
    return cases


def judge_rawarg(case, ok, n, out):
    if not ok:
        return None if out == "skip bad-spec" else f"a command with a verbatim argument holding a line feed was accepted into a list: {case} -> {out[:300]}"
    if not out.startswith("len="):
        return f"{case}: {out[:200]}"
    kv = dict(x.split("=", 1) for x in out.split(" ") if "=" in x)
    lines = bytes.fromhex(kv.get("bytes", "")).split(b"\n")
    if lines[-1] != b"" or len(lines) - 1 != n + 2 or lines[0] != b"command_list_ok_begin" or lines[-2] != b"command_list_end":
        return f"a list of {n} commands was written as {lines[:8]}"
    return None


def judge_biglist(case, out):
    _, how, n, size = case.split(" ")
    n = int(n)
    f = dict(x.split("=") for x in out.split(" ") if "=" in x)
    if "WIRE-DIFFERS" in out or not f:
        return f"a list of {n} commands ({size}-byte arguments, built with {how}): {out[:300]}"
    want = {"len": str(n), "begins": "1", "ends": "1", "commands": str(n), "in_order": "1", "last_is_end": "1"}
    bad = {k: (f.get(k), v) for k, v in want.items() if f.get(k) != v}
    if bad:
        return (f"a list of {n} commands ({size}-byte arguments, built with {how}, {f.get('bytes')} bytes on the wire) was not sent as one batch: "
                + ", ".join(f"{k}={a} (must be {b})" for k, (a, b) in bad.items()))
    return None


def _fr(fields, binary=None):
    return {"fields": fields, "bin": binary, "binpos": (len(fields) if binary is not None else None)}


LIST_REPLIES = [
    {"form": "list", "frames": [_fr([("a", "1")]), _fr([("b", "2")]), _fr([("c", "3")])], "error": None, "partial": None},
    {"form": "list", "frames": [_fr([]), _fr([]), _fr([("x", "y")])], "error": None, "partial": None},
    {"form": "list", "frames": [_fr([("updating_db", "1")]), _fr([], b"abc"), _fr([("updating_db", "2")])], "error": None, "partial": None},
    {"form": "list", "frames": [_fr([("a", "1")])], "error": (5, 1, "x", "boom"), "partial": None},
    {"form": "list", "frames": [_fr([])], "error": None, "partial": None},
]
NEXT_REPLY = {"form": "single", "frames": [_fr([("volume", "5")])], "error": None, "partial": None}


def interrupted_list_cases(ctx):
    """The reply to a list, at the protocol layer, with the receive interrupted (a read that would block; an async receive dropped
    while it waits) after every line — in particular right after a list_OK: the frames already complete belong to the reply.
    -> [(case, expected outcomes without the interruptions)]"""
    import mpdgen as g
    rng = ctx.rng
    out = []
    for rp in LIST_REPLIES:
        st = g.enc_response(rp) + g.enc_response(NEXT_REPLY)
        want = [g.show_response(rp), g.show_response(NEXT_REPLY), "eof"]
        cuts = [i + 1 for i, c in enumerate(st) if c == 10] + [3, 8]
        for k in sorted(set(c for c in cuts if 0 < c < len(st))):
            for fl in "ab":
                out.append((" ".join(["recv", fl, "0", "eof", hexs(st[:k]), "!", hexs(st[k:])]), want))
                j = rng.randrange(1, k + 1)
                toks = ["recv", fl, "0", "eof", hexs(st[:j]), hexs(st[j:k]), "!", hexs(st[k:])] if j < k else ["recv", fl, "0", "eof", hexs(st[:k]), "!", "!", hexs(st[k:])]
                out.append((" ".join(toks), want))
    return out


def run(ctx, only=None):
    if only is not None and only and isinstance(only[0], str):
        import connlib
        big = [c for c in only if c.startswith("cmd_biglist")]
        lists = [c for c in only if c.startswith("cmd_list ")]
        rest = [c for c in only if not c.startswith("cmd_biglist") and not c.startswith("cmd_list ")]
        bad = 0
        for c, o in zip(lists, ctx.run_impl(lists)):
            raw = [a[1:] for spec in c.split(" ")[2:] for a in spec.split(",") if a.startswith("~")]
            ok = not any(b"\n" in bytes.fromhex(r) for r in raw)
            print("case:", c, "\nimpl:", o)
            m = judge_rawarg(c, ok, len(c.split(" ")) - 2, o)
            if m:
                bad += 1
                print("VIOLATION property=C13 replay=(this case)", m)
        for c, o in zip(big, ctx.run_impl(big)):
            print("case:", c, "\nimpl:", o)
            if judge_biglist(c, o):
                bad += 1
                print("VIOLATION property=C13 replay=(this case)", judge_biglist(c, o))
        if rest:
            impl, model, dis = connlib.run_cases(ctx, rest)
            connlib.print_replay(rest, impl, model, [])
            for d in dis:
                bad += 1
                print("VIOLATION property=C13 replay=(this case) the interrupted reply decodes differently:", d["case"][:200])
        return 1 if bad else 0
    items = only if only is not None else gen(ctx)
    scheds = [s for s, _ in items]
    results = L.run_schedules(ctx, scheds)
    dis = L.disagreements(results)
    fails = []
    nontrivial = 0
    sizes = {}
    for r, (s, info) in zip(results, items):
        t = L.Trace(r)
        if t.panic:
            fails.append(Failure(s.model_case(), "panic: " + r["impl_raw"][:300]))
        if not info:
            continue
        res = t.results()
        v = []
        for rid, own in info.get("own_or_error", {}).items():
            got = res.get(rid, (None, "<never resolved>"))[1]
            if got != own and not got.startswith("proto:") and got != "closed":
                v.append(f"typed list {rid} was handed {got[:200]}: neither its own values ({own}) nor an error — values of another reply were paired with it")
        for rid, exp in info["expect"].items():
            got = res.get(rid, (None, "<never resolved>"))[1]
            if got != exp:
                v.append(f"typed list {rid} decoded to {got[:200]}; the i-th value must come from the reply to the i-th command: {exp[:200]}")
        want = []
        for lines in (info["frames"] or []):
            n = len(lines)
            sizes[n] = sizes.get(n, 0) + 1
            if n >= 2:
                nontrivial += 1
            want += lines if n == 1 else [] if n == 0 else [b"command_list_ok_begin"] + lines + [b"command_list_end"]
        seen = [l for _, l in t.written_lines() if l not in (b"idle", b"noidle")]
        if info["frames"] is not None and seen != want:
            k = next((i for i, (a, c) in enumerate(zip(seen + [None], want + [None])) if a != c), 0)
            v.append(f"request lines on the wire differ from one-batch framing at line {k}: wrote {seen[k:k+4]}, framing demands {want[k:k+4]}")
        for m in v[:3]:
            fails.append(Failure(s.model_case(), m, extra={"impl_case": r["impl_case"], "info": {"expect": {str(k): x for k, x in info["expect"].items()}, "frames": [[l.decode() for l in ls] for ls in (info["frames"] or [])], "own_or_error": {str(k): x for k, x in info.get("own_or_error", {}).items()}}}))
    if only is not None:
        for r in results:
            print("labels:", " ".join(r["sched"].labels)[:1500], "\nimpl  :", r["impl_raw"][:2500], "\nmodel :", " ".join(r["model_segs"])[:2500])
    extra_n = 0
    if only is None:
        import connlib
        big = biglist_cases(ctx)
        for c, o in zip(big, ctx.run_impl(big)):
            m = judge_biglist(c, o)
            if m:
                fails.append(Failure(c, m, extra={"plain": True}))
        raws = rawarg_cases()
        for (c, ok, n), o in zip(raws, ctx.run_impl([c for c, _, _ in raws])):
            m = judge_rawarg(c, ok, n, o)
            if m:
                fails.append(Failure(c, m, extra={"plain": True}))
        inter = interrupted_list_cases(ctx)
        impl_i, model_i, dis_i = connlib.run_cases(ctx, [c for c, _ in inter])
        dis += dis_i
        for (c, want), o in zip(inter, impl_i):
            outs = [x for x in o.split(" | ") if x != "io"]
            if outs != want:
                fails.append(Failure(c, f"the reply to a list, its receive interrupted and retried: {connlib.describe(c)[:300]}\n  expected {' | '.join(want)[:300]}\n  got      {o[:400]}", extra={"plain": True}))
        extra_n = len(big) + len(inter) + len(raws)
    return finish(
        ctx, evaluations=len(scheds) + extra_n, distinct_nontrivial=nontrivial + extra_n,
        rule="Client::command_list on Vec lists of every length 0..20 and tuple lists of every arity 1..8 (monomorphic instantiations in the harness) of "
             "update/rescan/stop commands whose replies carry the command's own number, interleaved with notifications, partial deliveries and the "
             "re-idle timer; oracle: the i-th typed value is the number of the i-th command, the wire shows exactly one command_list_ok_begin..end "
             "block per list of >= 2 commands, the bare command for 1, nothing for the empty list (result ok[]); lists of 2..70000 commands with "
             "8-byte..1-MiB arguments (up to 4 MiB of request lines in the quick tier) through add/command/extend: one begin, one end, every command "
             "in order; list replies at the protocol layer with the receive interrupted / its future dropped after every line; non-trivial = a list of >= 2 commands",
        samples=[" ".join(scheds[0].labels)[:300]], distribution={"schedules": len(scheds), "list_sizes": {str(k): v for k, v in sorted(sizes.items())}},
        oracle_failures=fails, disagreements=dis,
    )


def replay(ctx, payload):
    if payload.get("extra", {}).get("plain") or any(c.split(" ")[0] in ("recv", "cmd_biglist", "cmd_list") for c in payload.get("cases", [])):
        return run(ctx, only=list(payload.get("cases", [])))
    items = []
    inf = payload.get("extra", {}).get("info")
    for c in payload.get("cases", []):
        toks = c.split(" ")
        info = None
        if inf:
            info = {"expect": {int(k): x for k, x in inf["expect"].items()}, "frames": [[l.encode() for l in ls] for ls in inf["frames"]] if not inf.get("own_or_error") else None,
                    "own_or_error": {int(k): x for k, x in inf.get("own_or_error", {}).items()}}
        items.append((L.Sched(cspec=toks[1], conf=toks[2], labels=toks[3:]), info))
    return run(ctx, only=items)
