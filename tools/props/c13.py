"""C13 — command lists are framed as one batch and typed replies pair positionally."""
import looplib as L
from vlib import Failure, finish, hexs

COQ_FILES = L.LOOP_COQ_FILES + ["CommandProofs.v", "CallerProofs.v"]


PIC = bytes((i * 11 + 3) % 256 for i in range(300))
PIC_LIMIT = 64
ART_CONF = L.conf(file=PIC, limit=PIC_LIMIT)


def data_sum(d):
    a = len(d)
    for x in d:
        a = (a * 31 + x) % 4294967296
    return a


def any_specs(rng, n, rid):
    specs, want, lines = [], [], []
    for k in range(n):
        r = rng.random()
        val = str(rid * 100 + k)
        if r < 0.15:
            # a command whose reply carries a binary part (one chunk of the cover file): the chunk must reach the value at its position
            uri = f"song{rid}x{k}.flac"
            specs.append("a" + hexs(uri)); want.append(str(data_sum(PIC[:PIC_LIMIT]))); lines.append(b"albumart " + uri.encode() + b" 0")
        elif r < 0.45:
            specs.append("u" + hexs(val)); want.append(val); lines.append(b"update " + val.encode())
        elif r < 0.9:
            specs.append("r" + hexs(val)); want.append(val); lines.append(b"rescan " + val.encode())
        else:
            specs.append("s"); want.append("~"); lines.append(b"stop")
    return specs, want, lines


def gen(ctx):
    rng = ctx.rng
    items = []
    sizes_v = list(range(0, 21))
    rounds = 2 if ctx.tier == "quick" else 40
    for _ in range(rounds):
        for kind, sizes in (("v", sizes_v), ("y", list(range(1, 9)))):
            labels = ["D0"]
            exp = {}
            frames = []
            rid = 0
            for n in sizes:
                rid += 1
                specs, want, lines = any_specs(rng, n, rid)
                labels.append(f"{kind}{rid}:" + ",".join(specs))
                exp[rid] = "ok[" + ",".join(want) + "]"
                frames.append(lines)
                if rng.random() < 0.3:
                    labels.append("N:" + hexs(rng.choice(L.SUBSYSTEMS)))
                if rng.random() < 0.5:
                    labels += ["S*", rng.choice(["D0", "D5", "D11"])]
            items.append((L.Sched(conf=ART_CONF, labels=labels + L.flush(rid), note=f"typed {kind} lists"), {"expect": exp, "frames": frames}))
    # a second caller's raw list interleaved with typed lists
    for _ in range(20 if ctx.tier == "quick" else 400):
        labels = ["D0"] if rng.random() < 0.6 else ["k" + str(rng.choice([1, 5, 16, 24])), "D0"]
        exp = {}
        frames = []
        cancelled = set()
        rid = 0
        for _ in range(rng.choice([2, 5, 9])):
            rid += 1
            kind = rng.choice("vy")
            n = rng.choice([1, 2, 3, 8]) if kind == "y" else rng.choice([0, 1, 2, 7, 13])
            specs, want, lines = any_specs(rng, n, rid)
            labels.append(f"{kind}{rid}:" + ",".join(specs))
            exp[rid] = "ok[" + ",".join(want) + "]"
            frames.append(lines)
            labels += rng.choice([[], ["S*"], ["S*", "D0"], ["t101"], ["N:" + hexs("player")], ["D3"]])
            if rng.random() < 0.15 and n >= 1:
                # the caller gives up (timeout in the application) while its list is queued or in flight; the next list must still pair with its own frames
                labels += rng.choice([[], ["S*"]]) + [f"x{rid}"]
                del exp[rid]
                cancelled.add(rid)
        items.append((L.Sched(conf=ART_CONF, labels=labels + L.flush(rid), note="mixed typed lists"), {"expect": exp, "frames": frames}))
    # the empty list writes nothing and resolves to the empty result whatever the state of the connection (a server that hung up,
    # malformed data, failing reads, an exited loop)
    for fault in (["e"], ["S*", "e"], ["G:" + hexs(b"what\n")], ["r"], ["w", "t100"], ["N:" + hexs("player"), "D7", "e"]):
        for kind in ("v",):
            specs, want, lines = any_specs(rng, 2, 1)
            labels = ["D0", f"{kind}1:" + ",".join(specs), "S*", "D0", "S*", "D0"] + fault + ["t200", f"{kind}2:", "t200", f"{kind}3:", "t200"]
            items.append((L.Sched(conf=ART_CONF, labels=labels, note="empty typed list after the connection ended: " + " ".join(fault)[:20]),
                          {"expect": {1: "ok[" + ",".join(want) + "]", 2: "ok[]", 3: "ok[]"}, "frames": [lines, [], []]}))
    return items


def run(ctx, only=None):
    items = only if only is not None else gen(ctx)
    scheds = [s for s, _ in items]
    results = L.run_schedules(ctx, scheds)
    dis = L.disagreements(results)
    fails = []
    nontrivial = 0
    sizes = {}
    for r, (s, info) in zip(results, items):
        t = L.Trace(r)
        if t.panic:
            fails.append(Failure(s.model_case(), "panic: " + r["impl_raw"][:300]))
        if not info:
            continue
        res = t.results()
        v = []
        for rid, exp in info["expect"].items():
            got = res.get(rid, (None, "<never resolved>"))[1]
            if got != exp:
                v.append(f"typed list {rid} decoded to {got[:200]}; the i-th value must come from the reply to the i-th command: {exp[:200]}")
        want = []
        for lines in info["frames"]:
            n = len(lines)
            sizes[n] = sizes.get(n, 0) + 1
            if n >= 2:
                nontrivial += 1
            want += lines if n == 1 else [] if n == 0 else [b"command_list_ok_begin"] + lines + [b"command_list_end"]
        seen = [l for _, l in t.written_lines() if l not in (b"idle", b"noidle")]
        if seen != want:
            k = next((i for i, (a, c) in enumerate(zip(seen + [None], want + [None])) if a != c), 0)
            v.append(f"request lines on the wire differ from one-batch framing at line {k}: wrote {seen[k:k+4]}, framing demands {want[k:k+4]}")
        for m in v[:3]:
            fails.append(Failure(s.model_case(), m, extra={"impl_case": r["impl_case"], "info": {"expect": {str(k): x for k, x in info["expect"].items()}, "frames": [[l.decode() for l in ls] for ls in info["frames"]]}}))
    if only is not None:
        for r in results:
            print("labels:", " ".join(r["sched"].labels)[:1500], "\nimpl  :", r["impl_raw"][:2500], "\nmodel :", " ".join(r["model_segs"])[:2500])
    return finish(
        ctx, evaluations=len(scheds), distinct_nontrivial=nontrivial,
        rule="Client::command_list on Vec lists of every length 0..20 and tuple lists of every arity 1..8 (monomorphic instantiations in the harness) of "
             "update/rescan/stop commands whose replies carry the command's own number, interleaved with notifications, partial deliveries and the "
             "re-idle timer; oracle: the i-th typed value is the number of the i-th command, the wire shows exactly one command_list_ok_begin..end "
             "block per list of >= 2 commands, the bare command for 1, nothing for the empty list (result ok[]); non-trivial = a list of >= 2 commands",
        samples=[" ".join(scheds[0].labels)[:300]], distribution={"schedules": len(scheds), "list_sizes": {str(k): v for k, v in sorted(sizes.items())}},
        oracle_failures=fails, disagreements=dis,
    )


def replay(ctx, payload):
    items = []
    inf = payload.get("extra", {}).get("info")
    for c in payload.get("cases", []):
        toks = c.split(" ")
        info = None
        if inf:
            info = {"expect": {int(k): x for k, x in inf["expect"].items()}, "frames": [[l.encode() for l in ls] for ls in inf["frames"]]}
        items.append((L.Sched(cspec=toks[1], conf=toks[2], labels=toks[3:]), info))
    return run(ctx, only=items)
