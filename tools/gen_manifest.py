#!/usr/bin/env python3
"""Writes MANIFEST.json from the table below (kept in one place so it stays valid)."""
import json
import os

VERIF = os.path.dirname(os.path.dirname(os.path.abspath(__file__)))

NOTE = ("Trusted base: Coq 8.16.1 kernel/coqc, vm_compute (no native_compute); no axioms (Print Assumptions "
        "'Closed under the global context' checked every run); the two-stage tools/gen_tables.py + tools/probe.py translator (static reading of the source cross-checked by probing the compiled code); extraction with "
        "ExtrOcamlBasic only + ocaml/main.ml; the Rust correspondence harness and Python comparers; spec-side "
        "definitions (MPD tokenizer, filter grammar, session rules, names) written from memory; Rust std, bytes, nom, "
        "tokio, chrono modelled not verified.")

def load_claims():
    """One file per claimed property under tools/claims/ (kept apart so that branches adding properties merge cleanly)."""
    out = {}
    d = os.path.join(VERIF, "tools", "claims")
    for f in sorted(os.listdir(d)):
        if f.endswith(".json"):
            c = json.load(open(os.path.join(d, f)))
            if "note" in c:
                c["note"] = (c["note"] + " " + NOTE) if c.pop("note_appends_trusted_base", True) else c["note"]
            out[f[:-5]] = c
    return out


CLAIMED = load_claims()

ALL = [f"C{n:02d}" for n in range(1, 21)]


def main():
    checks = []
    for pid in ALL:
        if pid not in CLAIMED:
            continue
        c = CLAIMED[pid]
        checks.append({
            "property_id": pid,
            "quick_cmd": f"./check {pid} --tier quick",
            "thorough_cmd": f"./check {pid} --tier thorough",
            "evidence_file": f"/verif/evidence/{pid}.json",
            "replay_cmd_template": f"./check {pid} --replay {{path}}",
            "engine": "coq-model-correspondence",
            "level_claimed": {"category": "proof", "text": c["text"], "design_ref": c["design_ref"]},
            "level_note": c.get("note", NOTE),
            "technique": c["technique"],
        })
    man = {
        "version": 1,
        "setup_cmd": "./check --setup",
        "hooks": {
            "guard": "mpd_client_verif",
            "enable": "none needed: every observable the properties talk about is public API; the guard name is reserved and unused",
            "baseline_off_cmd": "cd /repo && cargo test --workspace --no-fail-fast --offline",
            "source_commits": [],
            "add_only": True,
        },
        "engines": [{
            "name": "coq-model-correspondence",
            "path": "/verif/check",
            "serves_properties": sorted(CLAIMED),
            "kind_free_text": "Coq 8.16 development (/verif/coq) with per-property theorem files, a translator "
                              "regenerating Tables.v from /repo, the model extracted to OCaml and run against the "
                              "implementation by a Rust harness, property oracles on the implementation's output",
        }],
        "checks": checks,
        "notes": NOTE,
        "not_applicable": [
            {"property_id": pid, "reason": "not claimed yet: its model, theorems and correspondence check are still under construction in this round (see DESIGN.md section 3 for the plan)"}
            for pid in ALL if pid not in CLAIMED
        ],
    }
    with open(os.path.join(VERIF, "MANIFEST.json"), "w") as f:
        json.dump(man, f, indent=1)
        f.write("\n")


if __name__ == "__main__":
    main()
