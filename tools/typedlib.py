"""typedlib.py — shared by props/c16.py and props/c12.py: wire encoding of field lists, the
wildcard-aware comparer of implementation and model lines, and the SPEC-side Python mirror of
coq/TypedSpec.v (abstract replies, their encoders, the canonical print of the value a faithful
decoder must return)."""
import re

from vlib import hexs

U8, U32, U64 = 2 ** 8 - 1, 2 ** 32 - 1, 2 ** 64 - 1


def wire(fields, binary=None, end=b"OK\n"):
    s = b"".join((k.encode() if isinstance(k, str) else k) + b": " + (v.encode() if isinstance(v, str) else v) + b"\n"
                 for k, v in fields)
    if binary is not None:
        s += b"binary: " + str(len(binary)).encode() + b"\n" + binary + b"\n"
    return s + end


def typed_case(ident, params, w):
    return f"typed {ident} {params or '-'} {hexs(w)}"


def list_case(shape, specs, frames_wire):
    return f"typedlist {shape} {','.join(specs) if specs else '-'} {hexs(frames_wire)}"


def compare(cases, impl, model):
    """Correspondence: equal lines, except that `~` in the model is a wildcard for one run of
    digits (opaque nanoseconds), `skip-model` (commands modelled by another property) and
    `undetermined` (the model abstains: float rounding boundary / chrono) match anything that is
    not a panic."""
    dis = []
    for c, a, m in zip(cases, impl, model):
        if m == "skip-model" or m == "undetermined":
            continue
        if a == m:
            continue
        if "~" in m:
            rx = "".join(r"\d+" if p == "~" else re.escape(p) for p in re.split(r"(~)", m))
            if re.fullmatch(rx, a):
                continue
        dis.append({"case": c, "impl": a[:4000], "model": m[:4000]})
    return dis


# ---------------------------------------------------------------------- spec side (mirror of TypedSpec.v)

PLAYSTATE = {"play": "Playing", "pause": "Paused", "stop": "Stopped"}
SINGLE = {"0": "Disabled", "1": "Enabled", "oneshot": "Oneshot"}
REPLAYGAIN = {"off": "Off", "track": "Track", "album": "Album", "auto": "Auto"}

# MPD protocol reference, `status`: (field, kind, required).  Order = the order MPD prints them.
STATUS_FIELDS = [
    ("volume", "u8", False), ("repeat", "bool", True), ("random", "bool", True), ("single", "single", True),
    ("consume", "bool", True), ("partition", "str", False), ("playlist", "u32", True), ("playlistlength", "usize", True),
    ("mixrampdb", "ignored", False), ("state", "state", True), ("xfade", "secs", False), ("mixrampdelay", "ignored", False),
    ("song", "usize", False), ("songid", "u64", False), ("time", "ignored", False), ("elapsed", "ms", False),
    ("bitrate", "u64", False), ("duration", "ms", False), ("audio", "ignored", False), ("updating_db", "u64", False),
    ("error", "str", False), ("nextsong", "usize", False), ("nextsongid", "u64", False),
]
STATUS_OPTIONAL = [f for f, _, req in STATUS_FIELDS if not req]
STATS_FIELDS = ["artists", "albums", "songs", "uptime", "db_playtime", "db_update", "playtime"]


def ms_text(ms):
    return f"{ms // 1000}.{ms % 1000:03d}"


def render(kind, v):
    if kind in ("u8", "u32", "u64", "usize", "secs"):
        return str(v)
    if kind == "bool":
        return "1" if v else "0"
    if kind == "ms":
        return ms_text(v)
    return v          # spellings and strings are carried as text


def enc_status(s):
    """s: dict field -> abstract value (absent key = omitted by the server)."""
    return [(f, render(k, s[f])) for f, k, _ in STATUS_FIELDS if f in s]


def opt(v, f=str):
    return "none" if v is None else "some:" + f(v)


def hx(s):
    return hexs(s.encode() if isinstance(s, str) else s)


def expect_status(s):
    """The canonical print of the Status a faithful decoder returns for abstract reply s."""
    pair = lambda a, b: f"{s[a]}/{s[b]}" if a in s else None
    ns_ms = lambda f: s[f] * 10 ** 6 if f in s else None
    return ("ok status volume={} state={} repeat={} random={} consume={} single={} playlist={} playlistlength={} song={} "
            "nextsong={} elapsed={} duration={} bitrate={} xfade={} updating_db={} error={} partition={}").format(
        s.get("volume", 0), PLAYSTATE[s["state"]], int(s["repeat"]), int(s["random"]), int(s["consume"]),
        SINGLE[s.get("single", "0")], s.get("playlist", 0), s.get("playlistlength", 0),
        opt(pair("song", "songid")), opt(pair("nextsong", "nextsongid")), opt(ns_ms("elapsed")), opt(ns_ms("duration")),
        opt(s.get("bitrate")), s.get("xfade", 0) * 10 ** 9, opt(s.get("updating_db")),
        opt(s.get("error"), hx), opt(s.get("partition"), hx))


def enc_stats(s):
    return [(f, str(s[f])) for f in STATS_FIELDS]


def expect_stats(s):
    return "ok stats artists={} albums={} songs={} uptime={} playtime={} db_playtime={} db_update={}".format(
        s["artists"], s["albums"], s["songs"], s["uptime"] * 10 ** 9, s["playtime"] * 10 ** 9, s["db_playtime"] * 10 ** 9,
        s["db_update"])


def enc_count_grouped(tagname, groups, rng=None):
    out = []
    for val, songs, playtime in groups:
        pair = [("songs", str(songs)), ("playtime", str(playtime))]
        if rng is not None and rng.random() < 0.4:
            pair.reverse()
        out += [(tagname, val)] + pair
    return out


def expect_count_grouped(groups):
    return "ok countgrouped [" + ",".join(f"{hx(v)}:{s}:{p * 10 ** 9}" for v, s, p in groups) + "]"


def enc_list_grouped(primary, groupings, rows):
    """rows: [(value, [g_0..g_{n-1}])] with groupings[n-1] the outermost level.  A header line of
    level j is printed when the value at level j or at an outer level changes."""
    out = []
    prev = None
    n = len(groupings)
    for val, gs in rows:
        changed = n  # index of the outermost changed level + 1 ... computed below
        first = None
        for j in range(n - 1, -1, -1):
            if prev is None or prev[j] != gs[j]:
                first = j
                break
        if first is not None:
            for j in range(first, -1, -1):
                out.append((groupings[j], gs[j]))
        out.append((primary, val))
        prev = gs
    return out
