#!/usr/bin/env python3
"""gen_tables.py — the translator half of the tie between /repo and the Coq development.

Reads the *current working tree* of the repository and writes coq/Tables.v: name tables,
character-class predicates, constants, macro index lists and shape pins.  It is a small
pattern-directed translator (regular expressions over the Rust source), not a Rust front end:
it understands exactly the shapes listed below and raises TranslatorError on anything else, which
the check driver reports as a broken tie ("translator no longer applies").

Usage: gen_tables.py <repo> <out.v>      (exit 0: written; exit 3: a shape no longer matches)
"""
import re
import sys
import json
import hashlib


class TranslatorError(Exception):
    pass


def read(repo, rel):
    with open(f"{repo}/{rel}", encoding="utf-8") as f:
        return f.read()


def strip_comments(src):
    # remove // comments (not inside string literals: the anchored code has none with //)
    out = []
    for line in src.split("\n"):
        m = re.search(r'(?<![:"\'])//', line)
        if m and line.count('"', 0, m.start()) % 2 == 0:
            line = line[: m.start()]
        out.append(line)
    return "\n".join(out)


def body_of(src, header_re, what):
    """Return the text of the brace-delimited block that follows the first match of header_re."""
    m = re.search(header_re, src)
    if not m:
        raise TranslatorError(f"{what}: header not found ({header_re})")
    i = src.index("{", m.end() - 1) if src[m.end() - 1] != "{" else m.end() - 1
    depth = 0
    j = i
    in_str = False
    in_chr = False
    while j < len(src):
        c = src[j]
        if in_str:
            if c == "\\":
                j += 1
            elif c == '"':
                in_str = False
        elif c == "r" and re.match(r'r(#+)"', src[j:]) and not (j > 0 and (src[j - 1].isalnum() or src[j - 1] == "_")):
            hashes = re.match(r'r(#+)"', src[j:]).group(1)
            end = src.index('"' + hashes, j + len(hashes) + 2)
            j = end + len(hashes)
        elif c == '"':
            in_str = True
        elif c == "'" and re.match(r"'(\\.|[^\\'])'", src[j:]):
            j += len(re.match(r"'(\\.|[^\\'])'", src[j:]).group(0)) - 1
        elif c == "{":
            depth += 1
        elif c == "}":
            depth -= 1
            if depth == 0:
                return src[i + 1 : j]
        j += 1
    raise TranslatorError(f"{what}: unbalanced braces")


def rust_str(lit):
    """Decode a Rust string literal body (between the quotes) into bytes."""
    out = bytearray()
    i = 0
    while i < len(lit):
        c = lit[i]
        if c == "\\":
            n = lit[i + 1]
            table = {"n": 10, "t": 9, "r": 13, "0": 0, "\\": 92, '"': 34, "'": 39}
            if n in table:
                out.append(table[n])
                i += 2
            elif n == "x":
                out.append(int(lit[i + 2 : i + 4], 16))
                i += 4
            else:
                raise TranslatorError(f"unsupported escape in literal {lit!r}")
        else:
            out.extend(c.encode("utf-8"))
            i += 1
    return bytes(out)


def coq_bytes(bs):
    return "[" + "; ".join(str(x) for x in bs) + "]"


def norm(s):
    return re.sub(r"\s+", "", s)


# ---------------------------------------------------------------- predicates

def translate_pred(expr, var, what):
    """Translate a disjunction/conjunction of character tests on `var` into a Coq `N -> bool` body
    over the variable c."""
    e = expr.strip()
    toks = []
    i = 0
    pat = [
        (rf"is_alphabetic\(\s*\*?{var}\s*\)", "(is_alpha c)"),
        (rf"\*?{var}\.is_ascii_alphabetic\(\)", "(is_alpha c)"),
        (rf"\*?{var}\.is_ascii_digit\(\)", "(is_digit c)"),
        (rf"\*?{var}\.is_ascii_alphanumeric\(\)", "(is_alpha c || is_digit c)"),
        (rf"is_digit\(\s*\*?{var}\s*\)", "(is_digit c)"),
        (rf"is_alphanumeric\(\s*\*?{var}\s*\)", "(is_alpha c || is_digit c)"),
        (rf"\*?{var}\s*==\s*b?'((?:\\.|[^\\'])+)'", None),
        (rf"\*?{var}\s*!=\s*b?'((?:\\.|[^\\'])+)'", "NE"),
        (r"\|\|", " || "),
        (r"&&", " && "),
        (r"!\(", "negb ("),
        (r"\(", "("),
        (r"\)", ")"),
        (r"\s+", ""),
    ]
    while i < len(e):
        for rx, rep in pat:
            m = re.match(rx, e[i:])
            if m:
                if rep is None or rep == "NE":
                    bs = rust_str(m.group(1))
                    if len(bs) != 1:
                        raise TranslatorError(f"{what}: non-byte char literal {m.group(1)!r}")
                    t = f"(c =? {bs[0]})"
                    toks.append(t if rep is None else f"(negb {t})")
                else:
                    toks.append(rep)
                i += m.end()
                break
        else:
            raise TranslatorError(f"{what}: cannot translate predicate near {e[i:i+40]!r}")
    return "".join(toks)


# ---------------------------------------------------------------- tables

def match_arms(body, what):
    """`Enum::Variant => "lit",` arms; returns [(variant, bytes)]; other arms are returned raw."""
    arms = []
    rest = []
    for m in re.finditer(r'(?:\w+::)?(\w+)(\([^)]*\))?\s*=>\s*(return\s+[^,]+|"((?:\\.|[^"\\])*)"|[^,\n]+),?', body):
        variant, payload, rhs, lit = m.group(1), m.group(2), m.group(3), m.group(4)
        if lit is not None and payload is None:
            arms.append((variant, rust_str(lit)))
        else:
            rest.append((variant, payload, rhs.strip()))
    if not arms:
        raise TranslatorError(f"{what}: no literal arms found")
    return arms, rest


def lit_to_variant_arms(body, what):
    """`"lit" => Enum::Variant,` arms; returns [(bytes, variant)]."""
    arms = []
    for m in re.finditer(r'"((?:\\.|[^"\\])*)"\s*=>\s*(?:Ok\()?(?:\w+::)*(\w+)\)?,?', body):
        arms.append((rust_str(m.group(1)), m.group(2)))
    if not arms:
        raise TranslatorError(f"{what}: no literal arms found")
    return arms


def gen(repo):
    out = []
    pins = {}
    emit = out.append
    emit("(* Tables.v — GENERATED by tools/gen_tables.py from the repository's current working tree.")
    emit("   Do not edit: it is rewritten on every run of every check. *)")
    emit("From MPD Require Import Bytes.")
    emit("Open Scope N_scope.")
    emit("")

    # ------------------------------------------------------------ tag.rs
    tag_src = strip_comments(read(repo, "mpd_client/src/tag.rs"))
    enum_body = body_of(tag_src, r"pub enum Tag\s*\{", "Tag enum")
    variants = re.findall(r"^\s*(\w+)\s*(\([^)]*\))?,", enum_body, re.M)
    named = [v for v, p in variants if not p]
    others = [v for v, p in variants if p]
    if others != ["Other"]:
        raise TranslatorError(f"Tag enum: expected exactly one payload variant Other, found {others}")
    as_str = body_of(tag_src, r"pub\(crate\) fn as_str\(&self\) -> Cow<'static, str>\s*\{", "Tag::as_str")
    if not norm(as_str).startswith("Cow::Borrowed(matchself{"):
        raise TranslatorError("Tag::as_str: body is not Cow::Borrowed(match self {..})")
    arms, rest = match_arms(body_of(as_str, r"match self\s*\{", "Tag::as_str match"), "Tag::as_str")
    if [r for r in rest if r[0] != "Other"] or not any(
        r[0] == "Other" and norm(r[2]) == "returnCow::Owned(raw.to_string())" for r in rest
    ):
        raise TranslatorError(f"Tag::as_str: unexpected arms {rest}")
    names = dict(arms)
    if sorted(names) != sorted(named) or len(arms) != len(named):
        raise TranslatorError("Tag::as_str: arms do not cover the enum exactly once")
    emit("Inductive tagv : Set :=")
    for v in named:
        emit(f"  | T_{v}")
    emit(".")
    emit("Definition all_tagv : list tagv := [" + "; ".join("T_" + v for v in named) + "].")
    emit("Definition tagv_index (t : tagv) : nat := match t with")
    for i, v in enumerate(named):
        emit(f"  | T_{v} => {i}%nat")
    emit("  end.")
    emit("Definition tag_name (t : tagv) : bytes := match t with")
    for v in named:
        emit(f"  | T_{v} => {coq_bytes(names[v])} (* {names[v].decode()} *)")
    emit("  end.")
    emit("Definition tagv_ident (t : tagv) : bytes := match t with")
    for v in named:
        emit(f"  | T_{v} => {coq_bytes(v.encode())}")
    emit("  end.")

    tf = body_of(tag_src, r"fn try_from\(raw: &'a str\) -> Result<Self, Self::Error>\s*\{", "Tag::try_from")
    m = re.search(r"if raw\.is_empty\(\)\s*\{\s*return Err\(TagError::Empty\);\s*\}\s*else if let Some\(\(pos, chr\)\) = raw\s*\.char_indices\(\)\s*\.find\(\|&\(_, ch\)\| !\((.*?)\)\)\s*\{\s*return Err\(TagError::InvalidCharacter \{ chr, pos \}\);\s*\}", tf, re.S)
    if not m:
        raise TranslatorError("Tag::try_from: validation prelude has changed shape")
    emit(f"Definition tag_charset (c : N) : bool := {translate_pred(m.group(1), 'ch', 'Tag::try_from charset')}.")
    mic = body_of(tf, r"match_ignore_case!\s*\{", "match_ignore_case! invocation")
    if not re.match(r"\s*raw\s*,", mic):
        raise TranslatorError("match_ignore_case!: first argument is not raw")
    rows = re.findall(r'"((?:\\.|[^"\\])*)"\s*=>\s*Self::(\w+)', mic)
    if not rows:
        raise TranslatorError("match_ignore_case!: no rows")
    for _, v in rows:
        if v not in named:
            raise TranslatorError(f"match_ignore_case!: unknown variant {v}")
    tail = tf[tf.index("match_ignore_case!"):]
    if "Ok(Self::Other(raw.into()))" not in norm(tail):
        raise TranslatorError("Tag::try_from: catch-all tail has changed shape")
    mac = body_of(tag_src, r"macro_rules! match_ignore_case\s*\{", "match_ignore_case! definition")
    pins["match_ignore_case"] = norm(mac)
    if norm(mac) != norm("""($raw:ident, $($pattern:literal => $result:expr),+) => {
        $( if $raw.eq_ignore_ascii_case($pattern) { return Ok($result); } )+ };"""):
        raise TranslatorError("match_ignore_case! definition has changed shape")
    emit("Definition tag_parse_table : list (bytes * tagv) := [")
    emit(";\n".join(f"  ({coq_bytes(rust_str(p))}, T_{v})" for p, v in rows))
    emit("].")

    # shape pins for the one-line impls whose meaning the model hard-codes
    def pin(name, src, header, expect):
        bdy = norm(body_of(src, header, name))
        pins[name] = bdy
        ok = bdy == norm(expect)
        emit(f"Definition pin_{name} : bool := {'true' if ok else 'false'}.")
        return ok

    pin("tag_eq", tag_src, r"impl PartialEq for Tag\s*\{", "fn eq(&self, other: &Tag) -> bool { self.as_str() == other.as_str() }")
    pin("tag_cmp", tag_src, r"impl Ord for Tag\s*\{", "fn cmp(&self, other: &Self) -> std::cmp::Ordering { self.as_str().cmp(&other.as_str()) }")
    pin("tag_partial_cmp", tag_src, r"impl PartialOrd for Tag\s*\{", "fn partial_cmp(&self, other: &Tag) -> Option<std::cmp::Ordering> { Some(self.cmp(other)) }")
    pin("tag_hash", tag_src, r"impl Hash for Tag\s*\{", "fn hash<H: Hasher>(&self, state: &mut H) { self.as_str().hash(state); }")
    pin("tag_argument", tag_src, r"impl Argument for Tag\s*\{", "fn render(&self, buf: &mut BytesMut) { buf.put_slice(self.as_str().as_bytes()); }")

    # ------------------------------------------------------------ client/mod.rs: Subsystem
    cm = strip_comments(read(repo, "mpd_client/src/client/mod.rs"))
    sub_enum = body_of(cm, r"pub enum Subsystem\s*\{", "Subsystem enum")
    svariants = re.findall(r"^\s*(\w+)\s*(\([^)]*\))?,", sub_enum, re.M)
    snamed = [v for v, p in svariants if not p]
    if [v for v, p in svariants if p] != ["Other"]:
        raise TranslatorError("Subsystem enum: expected exactly one payload variant Other")
    sub_impl = body_of(cm, r"impl Subsystem\s*\{", "impl Subsystem")
    s_as = body_of(sub_impl, r"pub fn as_str\(&self\) -> &str\s*\{", "Subsystem::as_str")
    sarms, srest = match_arms(body_of(s_as, r"match self\s*\{", "Subsystem::as_str match"), "Subsystem::as_str")
    if [(r[0], norm(r[2])) for r in srest] != [("Other", "r")]:
        raise TranslatorError(f"Subsystem::as_str: unexpected arms {srest}")
    snames = dict(sarms)
    if sorted(snames) != sorted(snamed) or len(sarms) != len(snamed):
        raise TranslatorError("Subsystem::as_str: arms do not cover the enum exactly once")
    emit("Inductive subv : Set :=")
    for v in snamed:
        emit(f"  | S_{v}")
    emit(".")
    emit("Definition all_subv : list subv := [" + "; ".join("S_" + v for v in snamed) + "].")
    emit("Definition sub_name (s : subv) : bytes := match s with")
    for v in snamed:
        emit(f"  | S_{v} => {coq_bytes(snames[v])} (* {snames[v].decode()} *)")
    emit("  end.")
    emit("Definition subv_ident (s : subv) : bytes := match s with")
    for v in snamed:
        emit(f"  | S_{v} => {coq_bytes(v.encode())}")
    emit("  end.")
    emit("Definition subv_index (s : subv) : nat := match s with")
    for i, v in enumerate(snamed):
        emit(f"  | S_{v} => {i}%nat")
    emit("  end.")
    ff = body_of(sub_impl, r"fn from_frame\(mut r: Frame\) -> (?:Option|Vec)<Subsystem>\s*\{", "Subsystem::from_frame")
    if re.search(r"fn from_name\(raw: String\) -> Subsystem", sub_impl):
        # repaired shape: from_frame loops over every `changed` field and maps each through from_name
        if norm(ff) != norm("""let mut changed = Vec::new(); while let Some(raw) = r.get("changed") { changed.push(Self::from_name(raw)); } changed"""):
            raise TranslatorError("Subsystem::from_frame: loop over the changed fields has changed shape")
        fn_body = body_of(sub_impl, r"fn from_name\(raw: String\) -> Subsystem\s*\{", "Subsystem::from_name")
        mm = re.fullmatch(r"\s*match &\*raw\s*\{(.*?)_\s*=>\s*Subsystem::Other\(raw\.into\(\)\),?\s*\}\s*", fn_body, re.S)
        all_changed = True
    else:
        mm = re.search(r"r\.get\(\"changed\"\)\.map\(\|raw\| match &\*raw\s*\{(.*?)_\s*=>\s*Subsystem::Other\(raw\.into\(\)\),?\s*\}\)", ff, re.S)
        all_changed = False
    if not mm:
        raise TranslatorError("Subsystem::from_frame: name match has changed shape")
    frows = lit_to_variant_arms(mm.group(1), "Subsystem::from_frame")
    for _, v in frows:
        if v not in snamed:
            raise TranslatorError(f"Subsystem::from_frame: unknown variant {v}")
    emit("Definition sub_parse_table : list (bytes * subv) := [")
    emit(";\n".join(f"  ({coq_bytes(p)}, S_{v})" for p, v in frows))
    emit("].")
    key = re.search(r'r\.get\("((?:\\.|[^"\\])*)"\)', ff)
    if not key:
        raise TranslatorError("Subsystem::from_frame: field name not found")
    emit(f"Definition sub_field_key : bytes := {coq_bytes(rust_str(key.group(1)))}.")
    emit(f"Definition sub_all_changed_fields : bool := {'true' if all_changed else 'false'}.")
    # both call sites in the run loop must iterate over the result (one event per element)
    cc0 = strip_comments(read(repo, "mpd_client/src/client/connection.rs"))
    n_for = len(re.findall(r"for subsystem in Subsystem::from_frame\(f\)", cc0))
    n_if = len(re.findall(r"if let Some\(subsystem\) = Subsystem::from_frame\(f\)", cc0))
    emit(f"Definition sub_event_sites_iterate : bool := {'true' if (n_for == 2 and n_if == 0) else 'false'}.")
    pin("sub_eq", cm, r"impl PartialEq for Subsystem\s*\{", "fn eq(&self, other: &Self) -> bool { self.as_str() == other.as_str() }")
    pin("sub_hash", cm, r"impl Hash for Subsystem\s*\{", "fn hash<H: Hasher>(&self, state: &mut H) { self.as_str().hash(state); }")
    m = re.search(r"error\.code == (\d+)", cm)
    if not m:
        raise TranslatorError("album_art: fallback error code not found")
    emit(f"Definition album_art_fallback_code : N := {m.group(1)}.")

    # ------------------------------------------------------------ parser.rs charsets
    ps = strip_comments(read(repo, "mpd_protocol/src/parser.rs"))
    kv = body_of(ps, r"fn key_value_field\(i: &\[u8\]\) -> IResult<&\[u8\], \(&str, &str\)>\s*\{", "key_value_field")
    m = re.search(r"take_while1\(\|b\|\s*(.*?)\),\s*from_utf8", kv, re.S)
    if not m:
        raise TranslatorError("key_value_field: key charset not found")
    emit(f"Definition parser_key_charset (c : N) : bool := {translate_pred(m.group(1), 'b', 'parser key charset')}.")
    ec = body_of(ps, r"fn error_current_command\(i: &\[u8\]\) -> IResult<&\[u8\], Option<&str>>\s*\{", "error_current_command")
    m = re.search(r"take_while1\(\|b\|\s*(.*?)\),\s*from_utf8", ec, re.S)
    if not m:
        raise TranslatorError("error_current_command: charset not found")
    emit(f"Definition parser_command_charset (c : N) : bool := {translate_pred(m.group(1), 'b', 'parser command charset')}.")

    # ------------------------------------------------------------ command.rs
    cs = strip_comments(read(repo, "mpd_protocol/src/command.rs"))
    m = re.search(r'const COMMAND_LIST_BEGIN: &\[u8\] = b"((?:\\.|[^"\\])*)";', cs)
    if not m:
        raise TranslatorError("COMMAND_LIST_BEGIN not found")
    emit(f"Definition command_list_begin : bytes := {coq_bytes(rust_str(m.group(1)))}.")
    m = re.search(r'const COMMAND_LIST_END: &\[u8\] = b"((?:\\.|[^"\\])*)";', cs)
    if not m:
        raise TranslatorError("COMMAND_LIST_END not found")
    emit(f"Definition command_list_end : bytes := {coq_bytes(rust_str(m.group(1)))}.")
    vc = body_of(cs, r"fn is_valid_command_char\(c: char\) -> bool\s*\{", "is_valid_command_char")
    emit(f"Definition command_charset (c : N) : bool := {translate_pred(vc, 'c', 'is_valid_command_char')}.")
    if re.search(r"fn is_valid_first_command_char\(c: char\) -> bool", cs):
        vf = body_of(cs, r"fn is_valid_first_command_char\(c: char\) -> bool\s*\{", "is_valid_first_command_char")
        vp = body_of(cs, r"fn validate_command_part\(command: &str\) -> Result<\(\), CommandErrorKind>\s*\{", "validate_command_part")
        if "command.chars().next().filter(|c|!is_valid_first_command_char(*c))" not in norm(vp):
            raise TranslatorError("validate_command_part: first-character check has changed shape")
        emit(f"Definition command_first_charset (c : N) : bool := {translate_pred(vf, 'c', 'is_valid_first_command_char')}.")
    else:
        emit("Definition command_first_charset (c : N) : bool := command_charset c.")
    se = body_of(cs, r"fn should_escape\(c: char\) -> bool\s*\{", "should_escape")
    emit(f"Definition should_escape (c : N) : bool := {translate_pred(se, 'c', 'should_escape')}.")
    cl = body_of(cs, r"fn is_command_list_command\(command: &str\) -> bool\s*\{", "is_command_list_command")
    m = re.fullmatch(r'command\.starts_with\("((?:\\.|[^"\\])*)"\)', norm(cl))
    if m:
        emit(f"Definition command_list_prefix : bytes := {coq_bytes(rust_str(m.group(1)))}.")
        emit("Definition command_list_test_is_prefix : bool := true.")
    else:
        raise TranslatorError("is_command_list_command: not a starts_with test any more")
    va = body_of(cs, r"fn validate_argument\(argument: &\[u8\]\) -> Result<\(\), CommandErrorKind>\s*\{", "validate_argument")
    m = re.search(r"position\(\|&c\|\s*(.*?)\)\s*\{", va, re.S)
    if not m:
        raise TranslatorError("validate_argument: rejection predicate not found")
    emit(f"Definition argument_reject (c : N) : bool := {translate_pred(m.group(1), 'c', 'validate_argument')}.")
    ea = body_of(cs, r"pub fn escape_argument\(argument: &str\) -> Cow<'_, str>\s*\{", "escape_argument")
    m = re.search(r"let needs_quotes = (.*?);", ea, re.S)
    if not m:
        raise TranslatorError("escape_argument: needs_quotes not found")
    nq = m.group(1).strip()
    m1 = re.fullmatch(r"argument\s*\.contains\(&\[((?:\s*'(?:\\.|[^\\'])'\s*,?)+)\]\[\.\.\]\)", nq)
    m2 = re.fullmatch(r"argument\.is_empty\(\)\s*\|\|\s*argument\s*\.bytes\(\)\s*\.any\(\|b\|\s*b\s*<=\s*(0x[0-9a-fA-F]+|b'(?:\\.|[^\\'])')\)", nq)
    if m1:
        chars = re.findall(r"'((?:\\.|[^\\'])+)'", m1.group(1))
        cond = " || ".join(f"(c =? {rust_str(ch)[0]})" for ch in chars)
        emit(f"Definition quote_trigger (c : N) : bool := {cond}.")
        emit("Definition quote_when_empty : bool := false.")
    elif m2:
        lim = m2.group(1)
        v = int(lim, 16) if lim.startswith("0x") else rust_str(lim[2:-1])[0]
        emit(f"Definition quote_trigger (c : N) : bool := c <=? {v}.")
        emit("Definition quote_when_empty : bool := true.")
    else:
        raise TranslatorError(f"escape_argument: needs_quotes has an unknown shape: {nq}")

    # ------------------------------------------------------------ connection.rs constants
    conn = strip_comments(read(repo, "mpd_protocol/src/connection.rs"))
    m = re.search(r"const DEFAULT_BUFFER_CAPACITY: usize = (\d+);", conn)
    if not m:
        raise TranslatorError("DEFAULT_BUFFER_CAPACITY not found")
    emit(f"Definition default_buffer_capacity : N := {m.group(1)}.")
    cc = strip_comments(read(repo, "mpd_client/src/client/connection.rs"))
    m = re.search(r"const NEXT_COMMAND_IDLE_TIMEOUT: Duration = Duration::from_millis\((\d+)\);", cc)
    if not m:
        raise TranslatorError("NEXT_COMMAND_IDLE_TIMEOUT not found")
    emit(f"Definition idle_timeout_ms : N := {m.group(1)}.")
    for fn, nm in (("idle", "idle_word"), ("cancel_idle", "noidle_word")):
        bdy = body_of(cc, rf"fn {fn}\(\) -> RawCommand\s*\{{", fn)
        m = re.fullmatch(r'RawCommand::new\("((?:\\.|[^"\\])*)"\)', norm(bdy))
        if not m:
            raise TranslatorError(f"{fn}(): not a bare RawCommand::new literal")
        emit(f"Definition {nm} : bytes := {coq_bytes(rust_str(m.group(1)))}.")

    # ------------------------------------------------------------ filter.rs
    fs = strip_comments(read(repo, "mpd_client/src/filter.rs"))
    op_enum = body_of(fs, r"pub enum Operator\s*\{", "Operator enum")
    ops = re.findall(r"^\s*(\w+),", op_enum, re.M)
    op_as = body_of(body_of(fs, r"impl Operator\s*\{", "impl Operator"), r"fn as_str\(self\) -> &'static str\s*\{", "Operator::as_str")
    oarms, orest = match_arms(body_of(op_as, r"match self\s*\{", "Operator::as_str match"), "Operator::as_str")
    if orest or sorted(dict(oarms)) != sorted(ops):
        raise TranslatorError("Operator::as_str: arms do not cover the enum")
    emit("Inductive operator : Set := " + " | ".join("Op_" + o for o in ops) + ".")
    emit("Definition all_operators : list operator := [" + "; ".join("Op_" + o for o in ops) + "].")
    emit("Definition operator_str (o : operator) : bytes := match o with")
    for o, s in oarms:
        emit(f"  | Op_{o} => {coq_bytes(s)} (* {s.decode()} *)")
    emit("  end.")
    emit("Definition operator_ident (o : operator) : bytes := match o with")
    for o in ops:
        emit(f"  | Op_{o} => {coq_bytes(o.encode())}")
    emit("  end.")
    emit("Definition operator_index (o : operator) : nat := match o with")
    for i, o in enumerate(ops):
        emit(f"  | Op_{o} => {i}%nat")
    emit("  end.")
    efv_raw = body_of(fs, r"fn escape_filter_value\(value: &str\) -> Cow<'_, str>\s*\{", "escape_filter_value")
    efv = norm(efv_raw)
    pins["escape_filter_value"] = efv
    # recognised shapes: if value.contains(<guard>) { Cow::Owned(CHAIN) } else { Cow::Borrowed(value) } | Cow::Owned(CHAIN) |
    # CHAIN.into() | Cow::from(CHAIN), with CHAIN = value.replace('c', lit)[.replace('c', lit)]* and <guard> a char literal
    # or an array of char literals.  The replacements are applied in source order (C11's model
    # folds over this list); original code: only '"' -> \\" ; repaired code: '\' -> \\\\ first, then '"' -> \\"
    chr_lit = r"'((?:\\.|[^\\'])+)'"
    str_lit = r'(?:r#"(.*?)"#|r"([^"]*)"|"((?:\\.|[^"\\])*)")'
    one_repl = r"\s*\.replace\(\s*" + chr_lit + r"\s*,\s*" + str_lit + r"\s*\)"
    mc = re.search(r"value((?:" + one_repl + r")+)", efv_raw, re.S)
    if not mc:
        raise TranslatorError("escape_filter_value has an unknown shape (no chain of value.replace(char, literal))")
    skeleton = efv_raw[: mc.start()] + "CHAIN" + efv_raw[mc.end():]
    mg = re.search(r"value\.contains\((" + chr_lit + r"|\[[^\]]*\])\)", skeleton)
    if mg:
        skeleton = skeleton[: mg.start()] + "GUARD" + skeleton[mg.end():]
    if norm(skeleton) not in ("ifGUARD{Cow::Owned(CHAIN)}else{Cow::Borrowed(value)}", "Cow::Owned(CHAIN)", "CHAIN.into()",
                              "Cow::from(CHAIN)"):
        raise TranslatorError("escape_filter_value has an unknown shape")

    guard = [rust_str(g) for g in re.findall(chr_lit, mg.group(1))] if mg else []
    repls = []
    for rm in re.finditer(r"\.replace\(" + chr_lit + r",\s*" + str_lit + r"\s*\)", mc.group(1)):
        ch = rust_str(rm.group(1))
        if rm.group(2) is not None:
            lit = rm.group(2).encode()
        elif rm.group(3) is not None:
            lit = rm.group(3).encode()
        else:
            lit = rust_str(rm.group(4))
        if len(ch) != 1:
            raise TranslatorError("escape_filter_value: non-byte char in replace")
        repls.append((ch[0], lit))
    if not mg:
        guard = [bytes([c]) for c, _ in repls]      # no borrowed fast path: every replaced char "guards"
    if any(len(g) != 1 for g in guard) or not repls:
        raise TranslatorError("escape_filter_value: guard/replacements not understood")
    emit("Definition filter_value_guard : list N := " + coq_bytes([g[0] for g in guard]) + ".")
    emit("Definition filter_value_replacements : list (N * bytes) := ["
         + "; ".join(f"({c}, {coq_bytes(l)})" for c, l in repls) + "].")
    emit(f"Definition filter_escapes_backslash : bool := {'true' if any(c == 92 for c, _ in repls) else 'false'}.")

    # ------------------------------------------------------------ song.rs
    ss = strip_comments(read(repo, "mpd_client/src/responses/song.rs"))
    sf = norm(body_of(ss, r"fn is_start_field\(f: &str\) -> bool\s*\{", "is_start_field"))
    m = re.fullmatch(r'matches!\(f,((?:"[^"]*"\|?)+)\)', sf)
    if not m:
        raise TranslatorError("is_start_field: not a matches! over literals")
    sfl = re.findall(r'"([^"]*)"', m.group(1))
    emit("Definition start_fields : list bytes := [" + "; ".join(coq_bytes(rust_str(x)) for x in sfl) + "].")
    # handle_start_field: the key that opens a song, the keys skipped while no song is in progress,
    # and the name reported in the unexpected-field error
    hs = norm(body_of(ss, r"fn handle_start_field\(&mut self, key: &str, value: String\) -> Result<\(\), TypedResponseError>\s*\{", "handle_start_field"))
    m = re.fullmatch(r'matchkey\{"([^"]*)"=>self\.url=value,((?:"[^"]*"\|?)+)=>\(\),other=>returnErr\(TypedResponseError::unexpected_field\("([^"]*)",other\)\),?\}Ok\(\(\)\)', hs)
    if not m:
        raise TranslatorError("handle_start_field: not the shape `match key { \"file\" => self.url = value, \"a\" | \"b\" => (), other => return Err(unexpected_field(..)) } Ok(())`")
    emit(f"Definition song_url_key : bytes := {coq_bytes(rust_str(m.group(1)))}.")
    emit("Definition start_skip_fields : list bytes := [" + "; ".join(coq_bytes(rust_str(x)) for x in re.findall(r'"([^"]*)"', m.group(2))) + "].")
    emit(f"Definition start_expected_name : bytes := {coq_bytes(rust_str(m.group(3)))}.")
    # handle_song_field: literal keys of the attribute match (everything else is a tag)
    hf = body_of(ss, r"fn handle_song_field\(\s*&mut self,\s*key: &str,\s*value: String,?\s*\) -> Result<Option<SongInQueue>, TypedResponseError>\s*\{", "handle_song_field")
    if "if is_start_field(key)" not in hf:
        raise TranslatorError("handle_song_field: the is_start_field test is gone")
    mk = body_of(hf, r"match key\s*\{", "handle_song_field match")
    akeys = re.findall(r'^\s*"([^"]*)"\s*=>', mk, re.M)
    if not akeys or not re.search(r"^\s*tag\s*=>", mk, re.M) or re.search(r'"\s*\|\s*"', mk):
        raise TranslatorError("handle_song_field: attribute match has changed shape")
    emit("Definition song_attr_keys : list bytes := [" + "; ".join(coq_bytes(rust_str(x)) for x in akeys) + "].")

    # ------------------------------------------------------------ responses/mod.rs enum spellings
    rs = strip_comments(read(repo, "mpd_client/src/responses/mod.rs"))

    def from_value_table(ty, what):
        bdy = body_of(rs, rf"impl FromFieldValue for {ty}\s*\{{", what)
        mm = re.search(r"match &\*v\s*\{(.*?)_\s*=>\s*Err\(TypedResponseError::invalid_value\(field, v\)\),?\s*\}", bdy, re.S)
        if not mm:
            raise TranslatorError(f"{what}: match has changed shape")
        return lit_to_variant_arms(mm.group(1), what)

    for ty, nm in (("bool", "bool_spellings"), ("PlayState", "playstate_spellings"), ("ReplayGainMode", "replaygain_spellings")):
        rows = from_value_table(ty, f"FromFieldValue for {ty}")
        emit(f"Definition {nm} : list (bytes * bytes) := [" + "; ".join(f"({coq_bytes(p)}, {coq_bytes(v.encode())})" for p, v in rows) + "].")
    stf = body_of(rs, r"impl Status\s*\{", "impl Status")
    mm = re.search(r"match val\.as_str\(\)\s*\{(.*?)_\s*=>", stf, re.S)
    if not mm:
        raise TranslatorError("Status::from_frame: single match not found")
    rows = lit_to_variant_arms(mm.group(1), "Status single")
    emit("Definition single_spellings : list (bytes * bytes) := [" + "; ".join(f"({coq_bytes(p)}, {coq_bytes(v.encode())})" for p, v in rows) + "].")
    # status field names read by Status::from_frame, in source order
    sfields = re.findall(r'(?:optional_value|value|song_identifier|get)\(\s*(?:f,\s*)?((?:"[^"]*"(?:,\s*)?)+)\)', stf)
    flat = []
    for grp in sfields:
        flat += re.findall(r'"([^"]*)"', grp)
    emit("Definition status_fields_read : list bytes := [" + "; ".join(coq_bytes(rust_str(x)) for x in flat) + "].")

    # ------------------------------------------------------------ definitions.rs
    ds = strip_comments(read(repo, "mpd_client/src/commands/definitions.rs"))
    ds_nontest = ds.split("#[cfg(test)]")[0]
    words = sorted(set(re.findall(r'RawCommand::new\("((?:\\.|[^"\\])*)"\)', ds_nontest)) |
                   set(re.findall(r'(?:argless_command|single_arg_command)!\(\s*[\w<>\']+,\s*(?:[&\w\' ]+,\s*)?"((?:\\.|[^"\\])*)"\)', ds_nontest)))
    emit("Definition predefined_command_words : list bytes := [")
    emit(";\n".join(f"  {coq_bytes(rust_str(w))} (* {w} *)" for w in words))
    emit("].")
    m = (re.search(r"let volume = (?:std::cmp::|cmp::)?min\(self\.0, (\d+)\);", ds_nontest)
         or re.search(r"let volume = self\.0\.min\((\d+)\);", ds_nontest))
    if not m:
        raise TranslatorError("SetVolume: clamp not found")
    emit(f"Definition volume_max : N := {m.group(1)}.")
    for ty, nm in (("SetSingle", "single_render"), ("SetReplayGainMode", "replaygain_render")):
        bdy = body_of(ds_nontest, rf"impl Command for {ty}\s*\{{", ty)
        mm = re.search(r"match self\.0\s*\{(.*?)\};", bdy, re.S)
        if not mm:
            raise TranslatorError(f"{ty}: match not found")
        arms2, rest2 = match_arms(mm.group(1), ty)
        if rest2:
            raise TranslatorError(f"{ty}: unexpected arms")
        emit(f"Definition {nm} : list (bytes * bytes) := [" + "; ".join(f"({coq_bytes(v.encode())}, {coq_bytes(s)})" for v, s in arms2) + "].")
    # C15 shape pins: the renderers whose meaning CommandsModel.v hard-codes
    dur_arg = norm(body_of(cs, r"impl Argument for Duration\s*\{", "Argument for Duration"))
    pins["duration_argument"] = dur_arg
    dur_ok = 'write!(buf,"{:.3}",self.as_secs_f64()).unwrap();' in dur_arg
    emit(f"Definition pin_duration_argument : bool := {'true' if dur_ok else 'false'}.")
    seek_body = norm(body_of(ds_nontest, r"impl Command for Seek\s*\{", "Command for Seek"))
    pins["seek_command"] = seek_body
    seek_ok = all(x in seek_body for x in (
        'SeekMode::Absolute(pos)=>format!("{:.3}",pos.as_secs_f64())',
        'SeekMode::Forward(time)=>format!("+{:.3}",time.as_secs_f64())',
        'SeekMode::Backward(time)=>format!("-{:.3}",time.as_secs_f64())'))
    emit(f"Definition pin_seek_format : bool := {'true' if seek_ok else 'false'}.")
    rng_arg = norm(body_of(ds_nontest, r"impl Argument for SongRange\s*\{", "Argument for SongRange"))
    pins["songrange_argument"] = rng_arg
    rng_ok = 'write!(buf,"{}:{}",self.from,to).unwrap();' in rng_arg and 'write!(buf,"{}:",self.from).unwrap();' in rng_arg
    emit(f"Definition pin_songrange_argument : bool := {'true' if rng_ok else 'false'}.")
    sat = norm(body_of(ds_nontest, r"fn new_usize<R: RangeBounds<usize>>\(range: R\) -> Self\s*\{", "SongRange::new_usize"))
    pins["songrange_new_usize"] = sat
    emit(f"Definition range_saturating : bool := {'true' if sat.count('saturating_add(1)') == 2 and 'pos+1' not in sat and 'wrapping' not in sat else 'false'}.")

    # ------------------------------------------------------------ command_list.rs tuple impls
    cls = strip_comments(read(repo, "mpd_client/src/commands/command_list.rs"))
    invs = re.findall(r"^impl_command_list_tuple!\((.*?)\);", cls, re.M)
    if not invs:
        raise TranslatorError("impl_command_list_tuple!: no invocations")
    lists = []
    for inv in invs:
        parts = [p.strip() for p in inv.split(",") if p.strip()]
        idxs = [0]
        for p in parts[1:]:
            mm = re.fullmatch(r"\w+\s*=>\s*(\d+)", p)
            if not mm:
                raise TranslatorError(f"impl_command_list_tuple!: cannot read {p!r}")
            idxs.append(int(mm.group(1)))
        lists.append(idxs)
    emit("Definition tuple_impls : list (list nat) := [" + "; ".join("[" + "; ".join(f"{i}%nat" for i in l) + "]" for l in lists) + "].")
    mac = norm(body_of(cls, r"macro_rules! impl_command_list_tuple\s*\{", "impl_command_list_tuple! definition"))
    pins["impl_command_list_tuple"] = mac
    uses_same_idx = ("commands.add(self.$further_idx.command());" in mac) and (
        "self.$further_idx.response(" in mac)
    emit(f"Definition tuple_macro_uses_index_for_both : bool := {'true' if uses_same_idx else 'false'}.")

    # ------------------------------------------------------------ frame.rs shape pins
    fr = strip_comments(read(repo, "mpd_protocol/src/response/frame.rs"))
    impl_frame = body_of(fr, r"impl Frame\s*\{", "impl Frame")
    find_b = norm(body_of(impl_frame, r"pub fn find<K>\(&self, key: K\) -> Option<&str>\s*where\s*K: AsRef<str>,\s*\{", "Frame::find"))
    pins["frame_find"] = find_b
    emit(f"Definition pin_frame_find : bool := {'true' if find_b == norm('self.fields().find_map(|(k, v)| if k == key.as_ref() { Some(v) } else { None })') else 'false'}.")

    text = "\n".join(out) + "\n"
    return text, pins


def main():
    repo, outp = sys.argv[1], sys.argv[2]
    try:
        text, pins = gen(repo)
    except TranslatorError as e:
        print(f"TRANSLATOR-ERROR: {e}")
        sys.exit(3)
    except FileNotFoundError as e:
        print(f"TRANSLATOR-ERROR: {e}")
        sys.exit(3)
    try:
        old = open(outp, encoding="utf-8").read()
    except FileNotFoundError:
        old = None
    if old != text:
        with open(outp, "w", encoding="utf-8") as f:
            f.write(text)
    print(json.dumps({"sha256": hashlib.sha256(text.encode()).hexdigest(), "changed": old != text}))


if __name__ == "__main__":
    main()
