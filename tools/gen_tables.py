#!/usr/bin/env python3
"""gen_tables.py — the translator half of the tie between /repo and the Coq development.

Writes coq/Tables.v (name tables, character-class predicates, constants, macro index lists, shape
pins) from the *current working tree* of the repository, SECTION BY SECTION, each by two routes:

  (a) static   a small pattern-directed reading of the Rust source (regular expressions; it sees the
               source itself, e.g. a newly added enum variant or table row in whatever position);
  (b) probe    the behaviour of the compiled implementation, observed through its public API by the
               correspondence harness (tools/probe.py + harness/src/probecases.rs), exhaustively
               where the domain is finite (all 256 bytes, every char, every enum variant).

Per section: static alone => `static`; probe alone (the source no longer has a shape the static
reader knows) => `probe`; both and they agree => `static+probe-agree`; both and they DISAGREE => the
section is reported as failed (`disagree`: the static reading cannot be trusted); neither => the
section is reported as failed and the last good value (tools/tables_fallback.json, generated from
the unchanged repository) is emitted, marked FALLBACK, so that everything that does not depend on
the section still builds.  A failed section breaks only the properties whose Coq cone or executable
model mentions one of its identifiers (tools/tabledeps.py, applied in vlib.finish).

Usage: gen_tables.py <repo> <out.v> [--probe <probe.json>] [--fallback <json>] [--write-fallback <json>]
Prints one JSON line: sha256, per-section provenance, failed sections with reasons.  Exit 0 unless
nothing at all could be written (exit 3).
"""
import re
import os
import sys
import json
import hashlib


class TranslatorError(Exception):
    pass


HERE = os.path.dirname(os.path.abspath(__file__))
DEFAULT_FALLBACK = os.path.join(HERE, "tables_fallback.json")


def strip_comments(src):
    # remove // comments (not inside string literals: the anchored code has none with //)
    out = []
    for line in src.split("\n"):
        m = re.search(r'(?<![:"\'])//', line)
        if m and line.count('"', 0, m.start()) % 2 == 0:
            line = line[: m.start()]
        out.append(line)
    return "\n".join(out)


class Src:
    """Lazy, comment-stripped view of the repository's source files."""

    def __init__(self, repo):
        self.repo = repo
        self._c = {}

    def __call__(self, rel):
        if rel not in self._c:
            try:
                with open(f"{self.repo}/{rel}", encoding="utf-8") as f:
                    self._c[rel] = strip_comments(f.read())
            except OSError as e:
                raise TranslatorError(f"cannot read {rel}: {e}")
        return self._c[rel]


TAG_RS = "mpd_client/src/tag.rs"
CLIENT_MOD_RS = "mpd_client/src/client/mod.rs"
CLIENT_CONN_RS = "mpd_client/src/client/connection.rs"
PARSER_RS = "mpd_protocol/src/parser.rs"
COMMAND_RS = "mpd_protocol/src/command.rs"
CONNECTION_RS = "mpd_protocol/src/connection.rs"
FILTER_RS = "mpd_client/src/filter.rs"
SONG_RS = "mpd_client/src/responses/song.rs"
RESPONSES_RS = "mpd_client/src/responses/mod.rs"
DEFINITIONS_RS = "mpd_client/src/commands/definitions.rs"
COMMAND_LIST_RS = "mpd_client/src/commands/command_list.rs"
FRAME_RS = "mpd_protocol/src/response/frame.rs"


def body_of(src, header_re, what):
    """Return the text of the brace-delimited block that follows the first match of header_re."""
    m = re.search(header_re, src)
    if not m:
        raise TranslatorError(f"{what}: header not found ({header_re})")
    i = src.index("{", m.end() - 1) if src[m.end() - 1] != "{" else m.end() - 1
    depth = 0
    j = i
    in_str = False
    while j < len(src):
        c = src[j]
        if in_str:
            if c == "\\":
                j += 1
            elif c == '"':
                in_str = False
        elif c == "r" and re.match(r'r(#+)"', src[j:]) and not (j > 0 and (src[j - 1].isalnum() or src[j - 1] == "_")):
            hashes = re.match(r'r(#+)"', src[j:]).group(1)
            end = src.index('"' + hashes, j + len(hashes) + 2)
            j = end + len(hashes)
        elif c == '"':
            in_str = True
        elif c == "'" and re.match(r"'(\\.|[^\\'])'", src[j:]):
            j += len(re.match(r"'(\\.|[^\\'])'", src[j:]).group(0)) - 1
        elif c == "{":
            depth += 1
        elif c == "}":
            depth -= 1
            if depth == 0:
                return src[i + 1 : j]
        j += 1
    raise TranslatorError(f"{what}: unbalanced braces")


def rust_str(lit):
    """Decode a Rust string literal body (between the quotes) into bytes."""
    out = bytearray()
    i = 0
    while i < len(lit):
        c = lit[i]
        if c == "\\":
            n = lit[i + 1]
            table = {"n": 10, "t": 9, "r": 13, "0": 0, "\\": 92, '"': 34, "'": 39}
            if n in table:
                out.append(table[n])
                i += 2
            elif n == "x":
                out.append(int(lit[i + 2 : i + 4], 16))
                i += 4
            else:
                raise TranslatorError(f"unsupported escape in literal {lit!r}")
        else:
            out.extend(c.encode("utf-8"))
            i += 1
    return bytes(out)


def coq_bytes(bs):
    return "[" + "; ".join(str(x) for x in bs) + "]"


def hx(b):
    return bytes(b).hex()


def unhx(s):
    return bytes.fromhex(s)


def norm(s):
    return re.sub(r"\s+", "", s)


# ---------------------------------------------------------------- predicates

def _is_alpha(c):
    return 65 <= c <= 90 or 97 <= c <= 122


def _is_digit(c):
    return 48 <= c <= 57


def _in_range(lo, hi, c):
    return lo <= c <= hi


def _one_byte(lit, what):
    bs = rust_str(lit)
    if len(bs) != 1:
        raise TranslatorError(f"{what}: non-byte char literal {lit!r}")
    return bs[0]


def translate_pred(expr, var, what):
    """Translate a disjunction/conjunction of character tests on `var` into a Coq `N -> bool` body
    over the variable c.  Returns {"coq": text, "accept": [bytes on which it is true]}."""
    e = expr.strip()
    coq = []
    py = []
    i = 0
    chr_lit = r"b?'((?:\\.|[^\\'])+)'"
    pat = [
        (rf"is_alphabetic\(\s*\*?{var}\s*\)", "(is_alpha c)", "_is_alpha(c)"),
        (rf"\*?{var}\.is_ascii_alphabetic\(\)", "(is_alpha c)", "_is_alpha(c)"),
        (rf"\*?{var}\.is_ascii_digit\(\)", "(is_digit c)", "_is_digit(c)"),
        (rf"\*?{var}\.is_ascii_alphanumeric\(\)", "(is_alpha c || is_digit c)", "(_is_alpha(c) or _is_digit(c))"),
        (rf"is_digit\(\s*\*?{var}\s*\)", "(is_digit c)", "_is_digit(c)"),
        (rf"is_alphanumeric\(\s*\*?{var}\s*\)", "(is_alpha c || is_digit c)", "(_is_alpha(c) or _is_digit(c))"),
        (rf"matches!\(\s*\*?{var}\s*,((?:\s*{chr_lit}(?:\s*\.\.=\s*{chr_lit})?\s*\|?)+)\)", "MATCHES", None),
        (rf"\*?{var}\s*==\s*{chr_lit}", "EQ", None),
        (rf"\*?{var}\s*!=\s*{chr_lit}", "NE", None),
        (r"\|\|", " || ", " or "),
        (r"&&", " && ", " and "),
        (r"!\(", "negb (", "not ("),
        (r"\(", "(", "("),
        (r"\)", ")", ")"),
        (r"\s+", "", ""),
    ]
    while i < len(e):
        for rx, rep, pyrep in pat:
            m = re.match(rx, e[i:])
            if m:
                if rep in ("EQ", "NE"):
                    v = _one_byte(m.group(1), what)
                    t = f"(c =? {v})"
                    coq.append(t if rep == "EQ" else f"(negb {t})")
                    py.append(f"(c == {v})" if rep == "EQ" else f"(c != {v})")
                elif rep == "MATCHES":
                    alts_c, alts_p = [], []
                    for am in re.finditer(rf"{chr_lit}(?:\s*\.\.=\s*{chr_lit})?", m.group(1)):
                        lo = _one_byte(am.group(1), what)
                        if am.group(2) is not None:
                            hi = _one_byte(am.group(2), what)
                            alts_c.append(f"(in_range {lo} {hi} c)")
                            alts_p.append(f"_in_range({lo}, {hi}, c)")
                        else:
                            alts_c.append(f"(c =? {lo})")
                            alts_p.append(f"(c == {lo})")
                    coq.append("(" + " || ".join(alts_c) + ")")
                    py.append("(" + " or ".join(alts_p) + ")")
                else:
                    coq.append(rep)
                    py.append(pyrep)
                i += m.end()
                break
        else:
            raise TranslatorError(f"{what}: cannot translate predicate near {e[i:i+40]!r}")
    pyexpr = "".join(py)
    try:
        code = compile(pyexpr, "<pred>", "eval")
        env = {"_is_alpha": _is_alpha, "_is_digit": _is_digit, "_in_range": _in_range, "__builtins__": {}}
        accept = [c for c in range(256) if eval(code, dict(env, c=c))]
    except Exception as ex:  # malformed nesting
        raise TranslatorError(f"{what}: predicate does not evaluate ({ex})")
    return {"coq": "".join(coq), "accept": accept}


def canonical_pred(accept):
    """A Coq `N -> bool` body (over c) for a set of bytes, built from the primitives of Bytes.v."""
    s = sorted(set(accept))
    if not s:
        return "false"
    parts = []
    rest = set(s)
    if set(range(65, 91)) | set(range(97, 123)) <= rest:
        parts.append("(is_alpha c)")
        rest -= set(range(65, 91)) | set(range(97, 123))
    if set(range(48, 58)) <= rest:
        parts.append("(is_digit c)")
        rest -= set(range(48, 58))
    runs = []
    for c in sorted(rest):
        if runs and runs[-1][1] == c - 1:
            runs[-1][1] = c
        else:
            runs.append([c, c])
    for lo, hi in runs:
        if lo == hi:
            parts.append(f"(c =? {lo})")
        elif lo == 0:
            parts.append(f"(c <=? {hi})")
        elif hi - lo == 1:
            parts.append(f"(c =? {lo})")
            parts.append(f"(c =? {hi})")
        else:
            parts.append(f"(in_range {lo} {hi} c)")
    return " || ".join(parts)


# ---------------------------------------------------------------- match tables

def match_arms(body, what):
    """`Enum::Variant => "lit",` arms; returns [(variant, bytes)]; other arms are returned raw."""
    arms = []
    rest = []
    for m in re.finditer(r'(?:\w+::)?(\w+)(\([^)]*\))?\s*=>\s*(return\s+[^,]+|"((?:\\.|[^"\\])*)"|[^,\n]+),?', body):
        variant, payload, rhs, lit = m.group(1), m.group(2), m.group(3), m.group(4)
        if lit is not None and payload is None:
            arms.append((variant, rust_str(lit)))
        else:
            rest.append((variant, payload, rhs.strip()))
    if not arms:
        raise TranslatorError(f"{what}: no literal arms found")
    return arms, rest


def lit_to_variant_arms(body, what):
    """`"lit" => Enum::Variant,` arms; returns [(bytes, variant)]."""
    arms = []
    for m in re.finditer(r'"((?:\\.|[^"\\])*)"\s*=>\s*(?:Ok\()?(?:\w+::)*(\w+)\)?,?', body):
        arms.append((rust_str(m.group(1)), m.group(2)))
    if not arms:
        raise TranslatorError(f"{what}: no literal arms found")
    return arms


def enum_variants(src, header, what):
    body = body_of(src, header, what)
    variants = re.findall(r"^\s*(\w+)\s*(\([^)]*\))?,", body, re.M)
    named = [v for v, p in variants if not p]
    others = [v for v, p in variants if p]
    return named, others


# ================================================================= sections
#
# A section is a group of Tables.v identifiers obtained together.  Its value is a small JSON-able
# object; `static` reads it from the source, the probe (tools/probe.py) reports it under the same
# name in the same format, `sem` maps a value to what must be EQUAL between two readings (order of
# rows that cannot matter is forgotten there), `render` writes the Coq text.

SECTIONS = []


class Section:
    def __init__(self, name, ids, static, render, sem=None, kind="value", needs=(), probe_note="", exact=None, decided_by=(),
                 static_may_see_more=False):
        self.name = name
        # the harness enumerates enum variants, predefined commands and tuple arities BY HAND: something ADDED to the
        # source is seen by the static reading only.  For such sections the two readings agree when everything the
        # probe reports is in the static reading with the same meaning (the additions are then judged by the lemmas
        # and the oracle as before, not by the cross-check).
        self.static_may_see_more = static_may_see_more
        self.decided_by = tuple(decided_by)   # tripwires: the properties whose correspondence + oracle decide the behaviour on every run
        self.ids = ids
        self.static = static
        self.render = render
        self.sem = sem or (lambda v, got: v)
        # sem: what two readings must agree on (as fine as the probe can see); exact: everything of a static reading
        # that the Coq text depends on apart from spelling (default: the same).  A reading whose exact meaning equals
        # the recorded reference value is rendered with the reference text, so that a refactoring that changes no
        # meaning leaves Tables.v byte-identical (no rebuild, no proof sees a different syntactic form).
        self.exact = exact or self.sem
        # value | pin (boolean shape reading, overridden by a probe over a complete universe) |
        # flag (static-only boolean) | tripwire (static-only shape reading of a renderer whose domain has no finite
        # complete universe: NO Coq identifier, nothing depends on it; when it trips, the evidence of the
        # properties in decided_by says so and their correspondence run + oracle decide)
        self.kind = kind
        self.needs = needs
        self.probe_note = probe_note
        SECTIONS.append(self)


def need(got, name):
    if name not in got:
        raise TranslatorError(f"depends on section {name}, which could not be obtained")
    return got[name]


# ---------------------------------------------------------------- generic renderers / sems

def render_pred(ident):
    def r(v, got):
        body = v.get("coq") or canonical_pred(v["accept"])
        return f"Definition {ident} (c : N) : bool := {body}."
    return r


def sem_pred(v, got):
    return sorted(set(v["accept"]))


def render_bytes_const(ident):
    return lambda v, got: f"Definition {ident} : bytes := {coq_bytes(unhx(v['bytes']))}."


def render_n_const(ident):
    return lambda v, got: f"Definition {ident} : N := {v['n']}."


def render_bool(ident):
    return lambda v, got: f"Definition {ident} : bool := {'true' if v['ok'] else 'false'}."


def render_pairs(ident):
    """list (bytes * bytes) from rows [[hex, hex], ...]"""
    def r(v, got):
        return (f"Definition {ident} : list (bytes * bytes) := ["
                + "; ".join(f"({coq_bytes(unhx(a))}, {coq_bytes(unhx(b))})" for a, b in v["rows"]) + "].")
    return r


def sem_rows_dict(v, got):
    d = {}
    for a, b in v["rows"]:
        d.setdefault(a, b)       # first match wins
    return d


def render_bytes_list(ident):
    return lambda v, got: (f"Definition {ident} : list bytes := [" + "; ".join(coq_bytes(unhx(x)) for x in v["list"]) + "].")


def sem_set(v, got):
    return sorted(set(v["list"]))


# ---------------------------------------------------------------- tag.rs

def st_tag_enum(src, got):
    named, others = enum_variants(src(TAG_RS), r"pub enum Tag\s*\{", "Tag enum")
    if others != ["Other"]:
        raise TranslatorError(f"Tag enum: expected exactly one payload variant Other, found {others}")
    return {"variants": named}


def render_enum(typ, prefix, allname, defs):
    """defs: which of index / ident definitions to emit, in order, as (kind, ident)."""
    def r(v, got):
        named = v["variants"]
        out = [f"Inductive {typ} : Set :="]
        out += [f"  | {prefix}{x}" for x in named]
        out.append(".")
        out.append(f"Definition {allname} : list {typ} := [" + "; ".join(prefix + x for x in named) + "].")
        for kind, ident in defs:
            var = typ[0]
            if kind == "index":
                out.append(f"Definition {ident} ({var} : {typ}) : nat := match {var} with")
                out += [f"  | {prefix}{x} => {i}%nat" for i, x in enumerate(named)]
            else:
                out.append(f"Definition {ident} ({var} : {typ}) : bytes := match {var} with")
                out += [f"  | {prefix}{x} => {coq_bytes(x.encode())}" for x in named]
            out.append("  end.")
        return "\n".join(out)
    return r


def sem_variants(v, got):
    return sorted(v["variants"])


Section("tag_enum", ["tagv", "all_tagv", "tagv_index", "tagv_ident"], st_tag_enum,
        render_enum("tagv", "T_", "all_tagv", [("index", "tagv_index"), ("ident", "tagv_ident")]), sem_variants,
        exact=lambda v, got: list(v["variants"]),
        static_may_see_more=True, probe_note="variants the harness enumerates (tag_list); a variant added to the enum is seen by the static reading only")


def st_tag_names(src, got):
    named = need(got, "tag_enum")["variants"]
    tag_src = src(TAG_RS)
    as_str = body_of(tag_src, r"pub\(crate\) fn as_str\(&self\) -> Cow<'static, str>\s*\{", "Tag::as_str")
    if not norm(as_str).startswith("Cow::Borrowed(matchself{"):
        raise TranslatorError("Tag::as_str: body is not Cow::Borrowed(match self {..})")
    arms, rest = match_arms(body_of(as_str, r"match self\s*\{", "Tag::as_str match"), "Tag::as_str")
    if [r for r in rest if r[0] != "Other"] or not any(
        r[0] == "Other" and norm(r[2]) == "returnCow::Owned(raw.to_string())" for r in rest
    ):
        raise TranslatorError(f"Tag::as_str: unexpected arms {rest}")
    names = dict(arms)
    if sorted(names) != sorted(named) or len(arms) != len(named):
        raise TranslatorError("Tag::as_str: arms do not cover the enum exactly once")
    return {"names": {v: hx(names[v]) for v in named}}


def render_names(ident, typ, prefix, enum_section):
    def r(v, got):
        named = need(got, enum_section)["variants"]
        var = typ[0]
        out = [f"Definition {ident} ({var} : {typ}) : bytes := match {var} with"]
        for x in named:
            if x not in v["names"]:
                raise TranslatorError(f"{ident}: no name for variant {x}")
            bs = unhx(v["names"][x])
            out.append(f"  | {prefix}{x} => {coq_bytes(bs)} (* {bs.decode('utf-8', 'replace')} *)")
        out.append("  end.")
        return "\n".join(out)
    return r


def sem_names(v, got):
    return dict(v["names"])


Section("tag_names", ["tag_name"], st_tag_names, render_names("tag_name", "tagv", "T_", "tag_enum"), sem_names,
        needs=("tag_enum",), static_may_see_more=True, probe_note="what Argument::render writes for every variant (tag_list)")


def st_tag_charset(src, got):
    tf = body_of(src(TAG_RS), r"fn try_from\(raw: &'a str\) -> Result<Self, Self::Error>\s*\{", "Tag::try_from")
    m = re.search(r"if raw\.is_empty\(\)\s*\{\s*return Err\(TagError::Empty\);\s*\}\s*else if let Some\(\(pos, chr\)\) = raw\s*\.char_indices\(\)\s*\.find\(\|&\(_, ch\)\| !\((.*?)\)\)\s*\{\s*return Err\(TagError::InvalidCharacter \{ chr, pos \}\);\s*\}", tf, re.S)
    if not m:
        raise TranslatorError("Tag::try_from: validation prelude has changed shape")
    return translate_pred(m.group(1), "ch", "Tag::try_from charset")


Section("tag_charset", ["tag_charset"], st_tag_charset, render_pred("tag_charset"), sem_pred,
        probe_note="Tag::try_from on <c>, a<c>, <c>a for every char c (no non-ASCII char accepted)")


def st_tag_parse_table(src, got):
    named = need(got, "tag_enum")["variants"]
    tag_src = src(TAG_RS)
    tf = body_of(tag_src, r"fn try_from\(raw: &'a str\) -> Result<Self, Self::Error>\s*\{", "Tag::try_from")
    mic = body_of(tf, r"match_ignore_case!\s*\{", "match_ignore_case! invocation")
    if not re.match(r"\s*raw\s*,", mic):
        raise TranslatorError("match_ignore_case!: first argument is not raw")
    rows = re.findall(r'"((?:\\.|[^"\\])*)"\s*=>\s*Self::(\w+)', mic)
    if not rows:
        raise TranslatorError("match_ignore_case!: no rows")
    for _, v in rows:
        if v not in named:
            raise TranslatorError(f"match_ignore_case!: unknown variant {v}")
    tail = tf[tf.index("match_ignore_case!"):]
    if "Ok(Self::Other(raw.into()))" not in norm(tail):
        raise TranslatorError("Tag::try_from: catch-all tail has changed shape")
    mac = body_of(tag_src, r"macro_rules! match_ignore_case\s*\{", "match_ignore_case! definition")
    if norm(mac) != norm("""($raw:ident, $($pattern:literal => $result:expr),+) => {
        $( if $raw.eq_ignore_ascii_case($pattern) { return Ok($result); } )+ };"""):
        raise TranslatorError("match_ignore_case! definition has changed shape")
    return {"rows": [[hx(rust_str(p)), v] for p, v in rows]}


def render_parse_table(ident, typ, prefix, enum_section):
    def r(v, got):
        named = need(got, enum_section)["variants"]
        for _, x in v["rows"]:
            if x not in named:
                raise TranslatorError(f"{ident}: unknown variant {x}")
        return (f"Definition {ident} : list (bytes * {typ}) := [\n"
                + ";\n".join(f"  ({coq_bytes(unhx(p))}, {prefix}{x})" for p, x in v["rows"]) + "\n].")
    return r


def sem_ci_table(v, got):
    d = {}
    for p, x in v["rows"]:
        d.setdefault(unhx(p).lower().hex(), x)     # eq_ignore_ascii_case, first row wins
    return d


Section("tag_parse_table", ["tag_parse_table"], st_tag_parse_table,
        render_parse_table("tag_parse_table", "tagv", "T_", "tag_enum"), sem_ci_table, needs=("tag_enum",),
        probe_note="Tag::try_from on every string literal of tag.rs + every protocol name + MPD's tag names, each in 4 letter cases")


def st_pin(file, header, expect, what):
    def f(src, got):
        return {"ok": norm(body_of(src(file), header, what)) == norm(expect)}
    return f


def pin_section(name, file, header, expect, probe_note=""):
    Section("pin_" + name, ["pin_" + name], st_pin(file, header, expect, name), render_bool("pin_" + name),
            kind="pin", probe_note=probe_note)


TAG_PAIRS_NOTE = "probe tag_pairs: all variants x Other(name in 4 letter cases), every pair"
pin_section("tag_eq", TAG_RS, r"impl PartialEq for Tag\s*\{", "fn eq(&self, other: &Tag) -> bool { self.as_str() == other.as_str() }", TAG_PAIRS_NOTE)
pin_section("tag_cmp", TAG_RS, r"impl Ord for Tag\s*\{", "fn cmp(&self, other: &Self) -> std::cmp::Ordering { self.as_str().cmp(&other.as_str()) }", TAG_PAIRS_NOTE)
pin_section("tag_partial_cmp", TAG_RS, r"impl PartialOrd for Tag\s*\{", "fn partial_cmp(&self, other: &Tag) -> Option<std::cmp::Ordering> { Some(self.cmp(other)) }", TAG_PAIRS_NOTE)
pin_section("tag_hash", TAG_RS, r"impl Hash for Tag\s*\{", "fn hash<H: Hasher>(&self, state: &mut H) { self.as_str().hash(state); }", TAG_PAIRS_NOTE)
pin_section("tag_argument", TAG_RS, r"impl Argument for Tag\s*\{", "fn render(&self, buf: &mut BytesMut) { buf.put_slice(self.as_str().as_bytes()); }", TAG_PAIRS_NOTE)


# ---------------------------------------------------------------- client/mod.rs: Subsystem

def st_sub_enum(src, got):
    named, others = enum_variants(src(CLIENT_MOD_RS), r"pub enum Subsystem\s*\{", "Subsystem enum")
    if others != ["Other"]:
        raise TranslatorError("Subsystem enum: expected exactly one payload variant Other")
    return {"variants": named}


Section("sub_enum", ["subv", "all_subv", "subv_ident", "subv_index"], st_sub_enum,
        render_enum("subv", "S_", "all_subv", [("ident", "subv_ident"), ("index", "subv_index")]), sem_variants,
        exact=lambda v, got: list(v["variants"]),
        static_may_see_more=True, probe_note="variants the harness enumerates (sub_list)")


def st_sub_names(src, got):
    snamed = need(got, "sub_enum")["variants"]
    sub_impl = body_of(src(CLIENT_MOD_RS), r"impl Subsystem\s*\{", "impl Subsystem")
    s_as = body_of(sub_impl, r"pub fn as_str\(&self\) -> &str\s*\{", "Subsystem::as_str")
    sarms, srest = match_arms(body_of(s_as, r"match self\s*\{", "Subsystem::as_str match"), "Subsystem::as_str")
    if [(r[0], norm(r[2])) for r in srest] not in ([("Other", "r")], [("Other", "raw")]):
        raise TranslatorError(f"Subsystem::as_str: unexpected arms {srest}")
    snames = dict(sarms)
    if sorted(snames) != sorted(snamed) or len(sarms) != len(snamed):
        raise TranslatorError("Subsystem::as_str: arms do not cover the enum exactly once")
    return {"names": {v: hx(snames[v]) for v in snamed}}


Section("sub_names", ["sub_name"], st_sub_names, render_names("sub_name", "subv", "S_", "sub_enum"), sem_names,
        needs=("sub_enum",), static_may_see_more=True, probe_note="Subsystem::as_str of every variant (sub_list)")


def _sub_from_frame(src):
    sub_impl = body_of(src(CLIENT_MOD_RS), r"impl Subsystem\s*\{", "impl Subsystem")
    ff = body_of(sub_impl, r"fn from_frame\(mut r: Frame\) -> (?:Option|Vec)<Subsystem>\s*\{", "Subsystem::from_frame")
    return sub_impl, ff


def st_sub_parse_table(src, got):
    snamed = need(got, "sub_enum")["variants"]
    sub_impl, ff = _sub_from_frame(src)
    if re.search(r"fn from_name\(raw: String\) -> Subsystem", sub_impl):
        fn_body = body_of(sub_impl, r"fn from_name\(raw: String\) -> Subsystem\s*\{", "Subsystem::from_name")
        mm = re.fullmatch(r"\s*match &\*raw\s*\{(.*?)_\s*=>\s*Subsystem::Other\(raw\.into\(\)\),?\s*\}\s*", fn_body, re.S)
    else:
        mm = re.search(r"r\.get\(\"changed\"\)\.map\(\|raw\| match &\*raw\s*\{(.*?)_\s*=>\s*Subsystem::Other\(raw\.into\(\)\),?\s*\}\)", ff, re.S)
    if not mm:
        raise TranslatorError("Subsystem::from_frame: name match has changed shape")
    frows = lit_to_variant_arms(mm.group(1), "Subsystem::from_frame")
    for _, v in frows:
        if v not in snamed:
            raise TranslatorError(f"Subsystem::from_frame: unknown variant {v}")
    return {"rows": [[hx(p), v] for p, v in frows]}


Section("sub_parse_table", ["sub_parse_table"], st_sub_parse_table,
        render_parse_table("sub_parse_table", "subv", "S_", "sub_enum"), sem_rows_dict, needs=("sub_enum",),
        probe_note="a real idle reply `changed: <name>` for every string literal of client/mod.rs + every protocol name + MPD's subsystem names")


def st_sub_field_key(src, got):
    _, ff = _sub_from_frame(src)
    key = re.search(r'r\.get\("((?:\\.|[^"\\])*)"\)', ff)
    if not key:
        raise TranslatorError("Subsystem::from_frame: field name not found")
    return {"bytes": hx(rust_str(key.group(1)))}


Section("sub_field_key", ["sub_field_key"], st_sub_field_key, render_bytes_const("sub_field_key"),
        probe_note="the one key among the candidates (literals of client/mod.rs) under which an idle reply produces an event")


def st_sub_all_changed(src, got):
    sub_impl, ff = _sub_from_frame(src)
    if re.search(r"fn from_name\(raw: String\) -> Subsystem", sub_impl):
        return {"ok": norm(ff) == norm("""let mut changed = Vec::new(); while let Some(raw) = r.get("changed") { changed.push(Self::from_name(raw)); } changed""")}
    return {"ok": False}


Section("sub_all_changed_fields", ["sub_all_changed_fields"], st_sub_all_changed, render_bool("sub_all_changed_fields"), kind="pin",
        probe_note="the real Client on an idle reply naming two subsystems: two events")


def st_sub_event_sites(src, got):
    cc0 = src(CLIENT_CONN_RS)
    n_for = len(re.findall(r"for subsystem in Subsystem::from_frame\(f\)", cc0))
    n_if = len(re.findall(r"if let Some\(subsystem\) = Subsystem::from_frame\(f\)", cc0))
    return {"ok": n_for == 2 and n_if == 0}


Section("sub_event_sites_iterate", ["sub_event_sites_iterate"], st_sub_event_sites, render_bool("sub_event_sites_iterate"), kind="pin",
        probe_note="two events for two changes, both while idling and in the reply to noidle")

SUB_PAIRS_NOTE = "probe sub_pairs: all variants x Other(name in 3 letter cases), every pair"
pin_section("sub_eq", CLIENT_MOD_RS, r"impl PartialEq for Subsystem\s*\{", "fn eq(&self, other: &Self) -> bool { self.as_str() == other.as_str() }", SUB_PAIRS_NOTE)
pin_section("sub_hash", CLIENT_MOD_RS, r"impl Hash for Subsystem\s*\{", "fn hash<H: Hasher>(&self, state: &mut H) { self.as_str().hash(state); }", SUB_PAIRS_NOTE)


def st_album_art_code(src, got):
    cm = src(CLIENT_MOD_RS)
    m = re.search(r"error\.code == (\d+)", cm)
    if m:
        return {"n": int(m.group(1))}
    m = re.search(r"error\.code == ([A-Z][A-Z0-9_]*)\b", cm)
    if m:
        c = re.search(rf"const {m.group(1)}: u\d+ = (\d+);", cm)
        if c:
            return {"n": int(c.group(1))}
    raise TranslatorError("album_art: fallback error code not found")


Section("album_art_fallback_code", ["album_art_fallback_code"], st_album_art_code, render_n_const("album_art_fallback_code"),
        probe_note="Client::album_art against a scripted `ACK [<code>@0] {readpicture}` for every code 0..60: the codes after which `albumart` is requested")


# ---------------------------------------------------------------- parser.rs charsets

def st_parser_key_charset(src, got):
    kv = body_of(src(PARSER_RS), r"fn key_value_field\(i: &\[u8\]\) -> IResult<&\[u8\], \(&str, &str\)>\s*\{", "key_value_field")
    m = re.search(r"take_while1\(\|b\|\s*(.*?)\),\s*from_utf8", kv, re.S)
    if not m:
        raise TranslatorError("key_value_field: key charset not found")
    return translate_pred(m.group(1), "b", "parser key charset")


Section("parser_key_charset", ["parser_key_charset"], st_parser_key_charset, render_pred("parser_key_charset"), sem_pred,
        probe_note="Connection::receive on `k<b>: v\\nOK\\n` / `<b>k: v\\nOK\\n` (b<128) and on the truncated `k<b>` + EOF (all 256 bytes: waiting for more vs InvalidMessage), cross-checked on every 2-byte UTF-8 sequence")


def st_parser_command_charset(src, got):
    ec = body_of(src(PARSER_RS), r"fn error_current_command\(i: &\[u8\]\) -> IResult<&\[u8\], Option<&str>>\s*\{", "error_current_command")
    m = re.search(r"take_while1\(\|b\|\s*(.*?)\),\s*from_utf8", ec, re.S)
    if not m:
        raise TranslatorError("error_current_command: charset not found")
    return translate_pred(m.group(1), "b", "parser command charset")


Section("parser_command_charset", ["parser_command_charset"], st_parser_command_charset, render_pred("parser_command_charset"), sem_pred,
        probe_note="Connection::receive on `ACK [1@0] {a<b>} m\\n` (b<128) and on the truncated `ACK [1@0] {a<b>` + EOF (all 256 bytes)")


# ---------------------------------------------------------------- command.rs

def st_const_bytes(file, name):
    def f(src, got):
        m = re.search(rf'const {name}: &\[u8\] = b"((?:\\.|[^"\\])*)";', src(file))
        if not m:
            raise TranslatorError(f"{name} not found")
        return {"bytes": hx(rust_str(m.group(1)))}
    return f


Section("command_list_begin", ["command_list_begin"], st_const_bytes(COMMAND_RS, "COMMAND_LIST_BEGIN"), render_bytes_const("command_list_begin"),
        probe_note="what Connection::send_list writes before the first command of a 2- and a 3-command list")
Section("command_list_end", ["command_list_end"], st_const_bytes(COMMAND_RS, "COMMAND_LIST_END"), render_bytes_const("command_list_end"),
        probe_note="what Connection::send_list writes after the last command")


def st_command_charset(src, got):
    vc = body_of(src(COMMAND_RS), r"fn is_valid_command_char\(c: char\) -> bool\s*\{", "is_valid_command_char")
    return translate_pred(vc, "c", "is_valid_command_char")


Section("command_charset", ["command_charset"], st_command_charset, render_pred("command_charset"), sem_pred,
        probe_note="Command::build on a<c>, a<c>a for every char c")


def st_command_first_charset(src, got):
    cs = src(COMMAND_RS)
    if re.search(r"fn is_valid_first_command_char\(c: char\) -> bool", cs):
        vf = body_of(cs, r"fn is_valid_first_command_char\(c: char\) -> bool\s*\{", "is_valid_first_command_char")
        vp = norm(body_of(cs, r"fn validate_command_part\(command: &str\) -> Result<\(\), CommandErrorKind>\s*\{", "validate_command_part"))
        if ("command.chars().next().filter(|c|!is_valid_first_command_char(*c))" not in vp
                and "if!is_valid_first_command_char(first)" not in vp):
            raise TranslatorError("validate_command_part: first-character check has changed shape")
        return translate_pred(vf, "c", "is_valid_first_command_char")
    c = need(got, "command_charset")
    return {"coq": "command_charset c", "accept": list(c["accept"])}


def sem_first_charset(v, got):
    # observable part only: a first character outside the general class is rejected at the same position anyway
    return sorted(set(v["accept"]) & set(need(got, "command_charset")["accept"]))


Section("command_first_charset", ["command_first_charset"], st_command_first_charset, render_pred("command_first_charset"),
        sem_first_charset, needs=("command_charset",), probe_note="Command::build on <c>a, <c> for every char c")


def st_should_escape(src, got):
    se = body_of(src(COMMAND_RS), r"fn should_escape\(c: char\) -> bool\s*\{", "should_escape")
    return translate_pred(se, "c", "should_escape")


Section("should_escape", ["should_escape"], st_should_escape, render_pred("should_escape"), sem_pred,
        probe_note="escape_argument on x<c>y and <c> for every char c: is c preceded by a backslash")


def st_command_list_prefix(src, got):
    cl = body_of(src(COMMAND_RS), r"fn is_command_list_command\(command: &str\) -> bool\s*\{", "is_command_list_command")
    m = re.fullmatch(r'command\.starts_with\("((?:\\.|[^"\\])*)"\)', norm(cl))
    if not m:
        raise TranslatorError("is_command_list_command: not a starts_with test any more")
    return {"bytes": hx(rust_str(m.group(1))), "is_prefix": True}


def render_command_list_prefix(v, got):
    return (f"Definition command_list_prefix : bytes := {coq_bytes(unhx(v['bytes']))}.\n"
            f"Definition command_list_test_is_prefix : bool := {'true' if v['is_prefix'] else 'false'}.")


Section("command_list_prefix", ["command_list_prefix", "command_list_test_is_prefix"], st_command_list_prefix, render_command_list_prefix,
        probe_note="Command::build on every prefix of the list delimiters, on prefix+suffix and on embedded/upper-case variants")


def st_argument_reject(src, got):
    va = body_of(src(COMMAND_RS), r"fn validate_argument\(argument: &\[u8\]\) -> Result<\(\), CommandErrorKind>\s*\{", "validate_argument")
    m = re.search(r"position\(\|&c\|\s*(.*?)\)\s*\{", va, re.S)
    if not m:
        raise TranslatorError("validate_argument: rejection predicate not found")
    return translate_pred(m.group(1), "c", "validate_argument")


Section("argument_reject", ["argument_reject"], st_argument_reject, render_pred("argument_reject"), sem_pred,
        probe_note="Command::add_argument of a raw renderer emitting [x,b,y], [b], [b,y] for all 256 bytes b")


def st_quote(src, got):
    ea = body_of(src(COMMAND_RS), r"pub fn escape_argument\(argument: &str\) -> Cow<'_, str>\s*\{", "escape_argument")
    m = re.search(r"let needs_quotes = (.*?);", ea, re.S)
    if not m:
        raise TranslatorError("escape_argument: needs_quotes not found")
    nq = m.group(1).strip()
    m1 = re.fullmatch(r"argument\s*\.contains\(&\[((?:\s*'(?:\\.|[^\\'])'\s*,?)+)\]\[\.\.\]\)", nq)
    m2 = re.fullmatch(r"argument\.is_empty\(\)\s*\|\|\s*argument\s*\.bytes\(\)\s*\.any\(\|b\|\s*b\s*<=\s*(0x[0-9a-fA-F]+|b'(?:\\.|[^\\'])')\)", nq)
    if m1:
        chars = [rust_str(ch)[0] for ch in re.findall(r"'((?:\\.|[^\\'])+)'", m1.group(1))]
        return {"coq": " || ".join(f"(c =? {c})" for c in chars), "accept": sorted(set(chars)), "when_empty": False}
    if m2:
        lim = m2.group(1)
        v = int(lim, 16) if lim.startswith("0x") else rust_str(lim[2:-1])[0]
        return {"coq": f"c <=? {v}", "accept": list(range(0, v + 1)), "when_empty": True}
    raise TranslatorError(f"escape_argument: needs_quotes has an unknown shape: {nq}")


def render_quote(v, got):
    body = v.get("coq") or canonical_pred(v["accept"])
    return (f"Definition quote_trigger (c : N) : bool := {body}.\n"
            f"Definition quote_when_empty : bool := {'true' if v['when_empty'] else 'false'}.")


Section("quote", ["quote_trigger", "quote_when_empty"], st_quote, render_quote,
        lambda v, got: [sorted(set(v["accept"])), bool(v["when_empty"])],
        probe_note="escape_argument on x<c>y and <c> for every char c and on the empty string: is the result wrapped in double quotes")


# ---------------------------------------------------------------- connection constants

def st_default_buffer_capacity(src, got):
    m = re.search(r"const DEFAULT_BUFFER_CAPACITY: usize = ([\d_]+);", src(CONNECTION_RS))
    if not m:
        raise TranslatorError("DEFAULT_BUFFER_CAPACITY not found")
    return {"n": int(m.group(1).replace("_", ""))}


Section("default_buffer_capacity", ["default_buffer_capacity"], st_default_buffer_capacity, render_n_const("default_buffer_capacity"),
        probe_note="the size of the buffer the blocking Connection offers to its first read")


def st_idle_timeout(src, got):
    m = re.search(r"const NEXT_COMMAND_IDLE_TIMEOUT: Duration = Duration::from_millis\(([\d_]+)\);", src(CLIENT_CONN_RS))
    if not m:
        raise TranslatorError("NEXT_COMMAND_IDLE_TIMEOUT not found")
    return {"n": int(m.group(1).replace("_", ""))}


Section("idle_timeout_ms", ["idle_timeout_ms"], st_idle_timeout, render_n_const("idle_timeout_ms"),
        probe_note="the real Client on a paused clock: the first millisecond after a reply at which `idle` is written again")


def st_idle_words(src, got):
    cc = src(CLIENT_CONN_RS)
    out = {}
    for fn, nm in (("idle", "idle"), ("cancel_idle", "noidle")):
        bdy = body_of(cc, rf"fn {fn}\(\) -> RawCommand\s*\{{", fn)
        m = re.fullmatch(r'RawCommand::new\("((?:\\.|[^"\\])*)"\)', norm(bdy))
        if not m:
            raise TranslatorError(f"{fn}(): not a bare RawCommand::new literal")
        out[nm] = hx(rust_str(m.group(1)))
    return out


def render_idle_words(v, got):
    return (f"Definition idle_word : bytes := {coq_bytes(unhx(v['idle']))}.\n"
            f"Definition noidle_word : bytes := {coq_bytes(unhx(v['noidle']))}.")


Section("idle_words", ["idle_word", "noidle_word"], st_idle_words, render_idle_words,
        probe_note="what the real Client writes after the greeting and when a request arrives while it idles")


# ---------------------------------------------------------------- filter.rs

def st_operator_enum(src, got):
    op_enum = body_of(src(FILTER_RS), r"pub enum Operator\s*\{", "Operator enum")
    ops = re.findall(r"^\s*(\w+),", op_enum, re.M)
    if not ops:
        raise TranslatorError("Operator enum: no variants")
    return {"variants": ops}


def render_operator_enum(v, got):
    ops = v["variants"]
    out = ["Inductive operator : Set := " + " | ".join("Op_" + o for o in ops) + ".",
           "Definition all_operators : list operator := [" + "; ".join("Op_" + o for o in ops) + "].",
           "Definition operator_ident (o : operator) : bytes := match o with"]
    out += [f"  | Op_{o} => {coq_bytes(o.encode())}" for o in ops]
    out += ["  end.", "Definition operator_index (o : operator) : nat := match o with"]
    out += [f"  | Op_{o} => {i}%nat" for i, o in enumerate(ops)]
    out.append("  end.")
    return "\n".join(out)


Section("operator_enum", ["operator", "all_operators", "operator_ident", "operator_index"], st_operator_enum, render_operator_enum,
        sem_variants, static_may_see_more=True, probe_note="variants the harness enumerates", exact=lambda v, got: list(v["variants"]))


def st_operator_str(src, got):
    ops = need(got, "operator_enum")["variants"]
    fs = src(FILTER_RS)
    op_as = body_of(body_of(fs, r"impl Operator\s*\{", "impl Operator"), r"fn as_str\(self\) -> &'static str\s*\{", "Operator::as_str")
    oarms, orest = match_arms(body_of(op_as, r"match self\s*\{", "Operator::as_str match"), "Operator::as_str")
    if orest or sorted(dict(oarms)) != sorted(ops):
        raise TranslatorError("Operator::as_str: arms do not cover the enum")
    return {"names": {o: hx(s) for o, s in oarms}}


Section("operator_str", ["operator_str"], st_operator_str, render_names("operator_str", "operator", "Op_", "operator_enum"), sem_names,
        needs=("operator_enum",), static_may_see_more=True, probe_note="the rendering of Filter::new(Album, op, \"v\") for every operator")


def st_filter_escape(src, got):
    efv_raw = body_of(src(FILTER_RS), r"fn escape_filter_value\(value: &str\) -> Cow<'_, str>\s*\{", "escape_filter_value")
    # recognised shapes: if value.contains(<guard>) { Cow::Owned(CHAIN) } else { Cow::Borrowed(value) } | Cow::Owned(CHAIN) |
    # CHAIN.into() | Cow::from(CHAIN), with CHAIN = value.replace('c', lit)[.replace('c', lit)]* and <guard> a char literal
    # or an array of char literals.  The replacements are applied in source order (C11's model
    # folds over this list); original code: only '"' -> \\" ; repaired code: '\' -> \\\\ first, then '"' -> \\"
    chr_lit = r"'((?:\\.|[^\\'])+)'"
    str_lit = r'(?:r#"(.*?)"#|r"([^"]*)"|"((?:\\.|[^"\\])*)")'
    one_repl = r"\s*\.replace\(\s*" + chr_lit + r"\s*,\s*" + str_lit + r"\s*\)"
    mc = re.search(r"value((?:" + one_repl + r")+)", efv_raw, re.S)
    if not mc:
        raise TranslatorError("escape_filter_value has an unknown shape (no chain of value.replace(char, literal))")
    skeleton = efv_raw[: mc.start()] + "CHAIN" + efv_raw[mc.end():]
    mg = re.search(r"value\.contains\((" + chr_lit + r"|\[[^\]]*\])\)", skeleton)
    if mg:
        skeleton = skeleton[: mg.start()] + "GUARD" + skeleton[mg.end():]
    if norm(skeleton) not in ("ifGUARD{Cow::Owned(CHAIN)}else{Cow::Borrowed(value)}", "Cow::Owned(CHAIN)", "CHAIN.into()",
                              "Cow::from(CHAIN)"):
        raise TranslatorError("escape_filter_value has an unknown shape")
    guard = [rust_str(g) for g in re.findall(chr_lit, mg.group(1))] if mg else []
    repls = []
    for rm in re.finditer(r"\.replace\(" + chr_lit + r",\s*" + str_lit + r"\s*\)", mc.group(1)):
        ch = rust_str(rm.group(1))
        if rm.group(2) is not None:
            lit = rm.group(2).encode()
        elif rm.group(3) is not None:
            lit = rm.group(3).encode()
        else:
            lit = rust_str(rm.group(4))
        if len(ch) != 1:
            raise TranslatorError("escape_filter_value: non-byte char in replace")
        repls.append((ch[0], lit))
    if not mg:
        guard = [bytes([c]) for c, _ in repls]      # no borrowed fast path: every replaced char "guards"
    if any(len(g) != 1 for g in guard) or not repls:
        raise TranslatorError("escape_filter_value: guard/replacements not understood")
    return {"guard": [g[0] for g in guard], "repls": [[c, hx(l)] for c, l in repls]}


def render_filter_escape(v, got):
    return ("Definition filter_value_guard : list N := " + coq_bytes(v["guard"]) + ".\n"
            "Definition filter_value_replacements : list (N * bytes) := ["
            + "; ".join(f"({c}, {coq_bytes(unhx(l))})" for c, l in v["repls"]) + "].\n"
            f"Definition filter_escapes_backslash : bool := {'true' if any(c == 92 for c, _ in v['repls']) else 'false'}.")


def apply_filter_escape(v, s):
    """The function the value denotes: guarded sequential replacement (bytes -> bytes)."""
    if not any(c in s for c in v["guard"]):
        return s
    for c, l in v["repls"]:
        s = s.replace(bytes([c]), unhx(l))
    return s


def filter_escape_test_strings():
    specials = [34, 92, 39, 40, 41, 32, 120]
    out = [bytes([a]) for a in range(1, 128) if a != 10]
    out += [bytes([a, b]) for a in specials for b in specials]
    out += [bytes([a, b, c]) for a in (34, 92, 120) for b in (34, 92, 120) for c in (34, 92, 120)]
    return out


def sem_filter_escape(v, got):
    # extensional: the image of every 1-char string and of every short string over the special characters
    return [apply_filter_escape(v, s).hex() for s in filter_escape_test_strings()]


Section("filter_escape", ["filter_value_guard", "filter_value_replacements", "filter_escapes_backslash"], st_filter_escape,
        render_filter_escape, sem_filter_escape,
        probe_note="the rendering of Filter::tag(Album, s) for every 1-char s and every short s over the special characters, argument escaping undone")


# ---------------------------------------------------------------- song.rs

def st_start_fields(src, got):
    ss = src(SONG_RS)
    sf = norm(body_of(ss, r"fn is_start_field\(f: &str\) -> bool\s*\{", "is_start_field"))
    m = re.fullmatch(r'matches!\(f,((?:"[^"]*"\|?)+)\)', sf)
    if not m:
        raise TranslatorError("is_start_field: not a matches! over literals")
    hf = body_of(ss, r"fn handle_song_field\(\s*&mut self,\s*key: &str,\s*value: String,?\s*\) -> Result<Option<SongInQueue>, TypedResponseError>\s*\{", "handle_song_field")
    if "if is_start_field(key)" not in hf:
        raise TranslatorError("handle_song_field: the is_start_field test is gone")
    return {"list": [hx(rust_str(x)) for x in re.findall(r'"([^"]*)"', m.group(1))]}


Section("start_fields", ["start_fields"], st_start_fields, render_bytes_list("start_fields"), sem_set,
        probe_note="song listings `file: a / <K>: zz / Title: t` decoded for every candidate key K (literals of song.rs): does K end the entry")


def st_song_start(src, got):
    hs = norm(body_of(src(SONG_RS), r"fn handle_start_field\(&mut self, key: &str, value: String\) -> Result<\(\), TypedResponseError>\s*\{", "handle_start_field"))
    m = re.fullmatch(r'matchkey\{"([^"]*)"=>self\.url=value,((?:"[^"]*"\|?)+)=>\(\),other=>returnErr\(TypedResponseError::unexpected_field\("([^"]*)",other\)\),?\}Ok\(\(\)\)', hs)
    if not m:
        raise TranslatorError("handle_start_field: not the shape `match key { \"file\" => self.url = value, \"a\" | \"b\" => (), other => return Err(unexpected_field(..)) } Ok(())`")
    return {"url_key": hx(rust_str(m.group(1))), "skip": [hx(rust_str(x)) for x in re.findall(r'"([^"]*)"', m.group(2))],
            "expected": hx(rust_str(m.group(3)))}


def render_song_start(v, got):
    return (f"Definition song_url_key : bytes := {coq_bytes(unhx(v['url_key']))}.\n"
            "Definition start_skip_fields : list bytes := [" + "; ".join(coq_bytes(unhx(x)) for x in v["skip"]) + "].\n"
            f"Definition start_expected_name : bytes := {coq_bytes(unhx(v['expected']))}.")


Section("song_start", ["song_url_key", "start_skip_fields", "start_expected_name"], st_song_start, render_song_start,
        lambda v, got: [v["url_key"], sorted(set(v["skip"])), v["expected"]],
        probe_note="song listings `<K>: v` decoded for every candidate key K: opens a song / skipped / unexpected-field error (and the name it reports)")


def st_song_attr_keys(src, got):
    hf = body_of(src(SONG_RS), r"fn handle_song_field\(\s*&mut self,\s*key: &str,\s*value: String,?\s*\) -> Result<Option<SongInQueue>, TypedResponseError>\s*\{", "handle_song_field")
    mk = body_of(hf, r"match key\s*\{", "handle_song_field match")
    akeys = re.findall(r'^\s*"([^"]*)"\s*=>', mk, re.M)
    if not akeys or not re.search(r"^\s*tag\s*=>", mk, re.M) or re.search(r'"\s*\|\s*"', mk):
        raise TranslatorError("handle_song_field: attribute match has changed shape")
    return {"list": [hx(rust_str(x)) for x in akeys]}


Section("song_attr_keys", ["song_attr_keys"], st_song_attr_keys, render_bytes_list("song_attr_keys"), sem_set,
        probe_note="song listings `file: a / <K>: zz` for every candidate key K: stored as a tag or treated as an attribute")


# ---------------------------------------------------------------- responses/mod.rs enum spellings

def st_from_value_table(ty):
    def f(src, got):
        what = f"FromFieldValue for {ty}"
        bdy = body_of(src(RESPONSES_RS), rf"impl FromFieldValue for {ty}\s*\{{", what)
        mm = re.search(r"match &\*v\s*\{(.*?)_\s*=>\s*Err\(TypedResponseError::invalid_value\(field, v\)\),?\s*\}", bdy, re.S)
        if not mm:
            raise TranslatorError(f"{what}: match has changed shape")
        return {"rows": [[hx(p), hx(v.encode())] for p, v in lit_to_variant_arms(mm.group(1), what)]}
    return f


for _ty, _nm, _note in (("bool", "bool_spellings", "a status reply with `repeat: <s>`"),
                        ("PlayState", "playstate_spellings", "a status reply with `state: <s>`"),
                        ("ReplayGainMode", "replaygain_spellings", "a replay_gain_status reply with `replay_gain_mode: <s>`")):
    Section(_nm, [_nm], st_from_value_table(_ty), render_pairs(_nm), sem_rows_dict,
            probe_note=_note + " decoded for every candidate spelling s (literals of responses/mod.rs, variant names, a generous list)")


def _status_impl(src):
    return body_of(src(RESPONSES_RS), r"impl Status\s*\{", "impl Status")


def st_single_spellings(src, got):
    mm = re.search(r"match val\.as_str\(\)\s*\{(.*?)_\s*=>", _status_impl(src), re.S)
    if not mm:
        raise TranslatorError("Status::from_frame: single match not found")
    return {"rows": [[hx(p), hx(v.encode())] for p, v in lit_to_variant_arms(mm.group(1), "Status single")]}


Section("single_spellings", ["single_spellings"], st_single_spellings, render_pairs("single_spellings"), sem_rows_dict,
        probe_note="a status reply with `single: <s>` decoded for every candidate spelling s")


def st_status_fields(src, got):
    stf = _status_impl(src)
    sfields = re.findall(r'(?<![\w])(?:optional_value|value|song_identifier|get)\(\s*(?:&?\s*(?:mut\s+)?\w+\s*,\s*)?((?:"[^"]*"(?:,\s*)?)+)\)', stf)
    flat = []
    for grp in sfields:
        flat += re.findall(r'"([^"]*)"', grp)
    if not flat:
        raise TranslatorError("Status::from_frame: no field reads found")
    return {"list": [hx(rust_str(x)) for x in flat]}


Section("status_fields_read", ["status_fields_read"], st_status_fields, render_bytes_list("status_fields_read"), sem_set,
        exact=lambda v, got: list(v["list"]),       # the order of the reads decides which error wins: only the static reading sees it
        probe_note="(as a set) the candidate keys whose presence with a junk value changes the decoding of a full status reply")


# ---------------------------------------------------------------- definitions.rs

def _defs(src):
    return src(DEFINITIONS_RS).split("#[cfg(test)]")[0]


def st_predefined_words(src, got):
    ds = _defs(src)
    words = sorted(set(re.findall(r'RawCommand::new\("((?:\\.|[^"\\])*)"\)', ds)) |
                   set(re.findall(r'(?:argless_command|single_arg_command)!\(\s*[\w<>\']+,\s*(?:[&\w\' ]+,\s*)?"((?:\\.|[^"\\])*)"\)', ds)))
    if not words:
        raise TranslatorError("definitions.rs: no command words found")
    return {"list": [hx(rust_str(w)) for w in words]}


def render_predefined_words(v, got):
    ws = [unhx(w) for w in v["list"]]
    return ("Definition predefined_command_words : list bytes := [\n"
            + ";\n".join(f"  {coq_bytes(w)} (* {w.decode('utf-8', 'replace')} *)" for w in ws) + "\n].")


Section("predefined_command_words", ["predefined_command_words"], st_predefined_words, render_predefined_words, sem_set,
        static_may_see_more=True, probe_note="the first word of the rendering of every constructor path of every predefined command the harness knows")


def st_volume_max(src, got):
    ds = _defs(src)
    m = (re.search(r"let volume = (?:std::cmp::|cmp::)?min\(self\.0, (\d+)\);", ds)
         or re.search(r"let volume = self\.0\.min\((\d+)\);", ds))
    if m:
        return {"n": int(m.group(1))}
    m = re.search(r"self\.0\.min\(([A-Z][A-Z0-9_]*)\)|min\(self\.0, ([A-Z][A-Z0-9_]*)\)", ds)
    if m:
        c = re.search(rf"const {m.group(1) or m.group(2)}: u8 = (\d+);", ds)
        if c:
            return {"n": int(c.group(1))}
    raise TranslatorError("SetVolume: clamp not found")


Section("volume_max", ["volume_max"], st_volume_max, render_n_const("volume_max"),
        probe_note="the rendering of SetVolume(n) for all 256 values of n: setvol min(n, max)")


def st_enum_render(ty):
    def f(src, got):
        bdy = body_of(_defs(src), rf"impl Command for {ty}\s*\{{", ty)
        mm = re.search(r"match self\.0\s*\{(.*?)\};", bdy, re.S)
        if not mm:
            raise TranslatorError(f"{ty}: match not found")
        arms2, rest2 = match_arms(mm.group(1), ty)
        if rest2:
            raise TranslatorError(f"{ty}: unexpected arms")
        return {"rows": [[hx(v.encode()), hx(s)] for v, s in arms2]}
    return f


Section("single_render", ["single_render"], st_enum_render("SetSingle"), render_pairs("single_render"), sem_rows_dict,
        probe_note="the rendering of SetSingle(mode) for every mode")
Section("replaygain_render", ["replaygain_render"], st_enum_render("SetReplayGainMode"), render_pairs("replaygain_render"), sem_rows_dict,
        probe_note="the rendering of SetReplayGainMode(mode) for every mode")


def st_pin_contains(file_fn, header, needles, what):
    def f(src, got):
        bdy = norm(body_of(file_fn(src), header, what))
        return {"ok": all(x in bdy for x in needles)}
    return f


NO_FINITE = ("no finite complete universe (durations / positions): a tripwire only; the behaviour is decided on every run by "
             "C15's correspondence (edge sweeps and 1500 / 600 random durations / ranges per quick run) and its oracle")


def render_tripwire(name):
    return lambda v, got: f"(* tripwire {name}: {'the source has the pinned shape' if v['ok'] else 'TRIPPED (the source no longer has the pinned shape)'} *)"


def tripwire(name, static, decided_by, note):
    Section(name, [], static, render_tripwire(name), kind="tripwire", decided_by=decided_by, probe_note=note)


tripwire("pin_duration_argument",
         st_pin_contains(lambda s: s(COMMAND_RS), r"impl Argument for Duration\s*\{", ['write!(buf,"{:.3}",self.as_secs_f64()).unwrap();'], "Argument for Duration"),
         ("C15",), NO_FINITE)
tripwire("pin_seek_format",
         st_pin_contains(_defs, r"impl Command for Seek\s*\{", [
             'SeekMode::Absolute(pos)=>format!("{:.3}",pos.as_secs_f64())',
             'SeekMode::Forward(time)=>format!("+{:.3}",time.as_secs_f64())',
             'SeekMode::Backward(time)=>format!("-{:.3}",time.as_secs_f64())'], "Command for Seek"),
         ("C15",), NO_FINITE)
tripwire("pin_songrange_argument",
         st_pin_contains(_defs, r"impl Argument for SongRange\s*\{", ['write!(buf,"{}:{}",self.from,to).unwrap();', 'write!(buf,"{}:",self.from).unwrap();'], "Argument for SongRange"),
         ("C15",), NO_FINITE)


def st_range_saturating(src, got):
    sat = norm(body_of(_defs(src), r"fn new_usize<R: RangeBounds<usize>>\(range: R\) -> Self\s*\{", "SongRange::new_usize"))
    return {"ok": sat.count("saturating_add(1)") == 2 and "pos+1" not in sat and "wrapping" not in sat}


Section("range_saturating", ["range_saturating"], st_range_saturating, render_bool("range_saturating"), kind="pin",
        probe_note="the two ranges that touch usize::MAX (excluded start, included end) render saturated, without panic (overflow checks on)")


# ---------------------------------------------------------------- command_list.rs tuple impls

def st_tuple_impls(src, got):
    invs = re.findall(r"^impl_command_list_tuple!\((.*?)\);", src(COMMAND_LIST_RS), re.M)
    if not invs:
        raise TranslatorError("impl_command_list_tuple!: no invocations")
    lists = []
    for inv in invs:
        parts = [p.strip() for p in inv.split(",") if p.strip()]
        idxs = [0]
        for p in parts[1:]:
            mm = re.fullmatch(r"\w+\s*=>\s*(\d+)", p)
            if not mm:
                raise TranslatorError(f"impl_command_list_tuple!: cannot read {p!r}")
            idxs.append(int(mm.group(1)))
        lists.append(idxs)
    return {"lists": lists}


def render_tuple_impls(v, got):
    return ("Definition tuple_impls : list (list nat) := ["
            + "; ".join("[" + "; ".join(f"{i}%nat" for i in l) + "]" for l in v["lists"]) + "].")


Section("tuple_impls", ["tuple_impls"], st_tuple_impls, render_tuple_impls, lambda v, got: sorted(v["lists"]),
        exact=lambda v, got: list(v["lists"]),
        static_may_see_more=True, probe_note="typed tuples of arity 1..8 over commands with mutually undecodable replies: which command decodes which frame into which position")


def st_tuple_macro(src, got):
    mac = norm(body_of(src(COMMAND_LIST_RS), r"macro_rules! impl_command_list_tuple\s*\{", "impl_command_list_tuple! definition"))
    return {"ok": ("commands.add(self.$further_idx.command());" in mac) and ("self.$further_idx.response(" in mac)}


tripwire("tuple_macro_uses_index_for_both", st_tuple_macro, ("C13", "C12"),
         "a reading of the macro body; what it stands for is probed by section tuple_impls and decided by C13's / C12's typed-list correspondence")


# ---------------------------------------------------------------- frame.rs shape pin

def st_pin_frame_find(src, got):
    impl_frame = body_of(src(FRAME_RS), r"impl Frame\s*\{", "impl Frame")
    find_b = norm(body_of(impl_frame, r"pub fn find<K>\(&self, key: K\) -> Option<&str>\s*where\s*K: AsRef<str>,\s*\{", "Frame::find"))
    return {"ok": find_b == norm('self.fields().find_map(|(k, v)| if k == key.as_ref() { Some(v) } else { None })')}


tripwire("pin_frame_find", st_pin_frame_find, ("C19",),
         "frames over arbitrary keys: no finite complete universe; decided by C19's correspondence (find/get on every generated frame) and its multimap oracle")


SECTION_BY_NAME = {s.name: s for s in SECTIONS}


def section_ids():
    return {s.name: list(s.ids) for s in SECTIONS}


# ================================================================= driver

def canon(x):
    return json.dumps(x, sort_keys=True)


def readings_agree(s, st, pr):
    if canon(st) == canon(pr):
        return True
    if not s.static_may_see_more:
        return False
    if isinstance(st, dict) and isinstance(pr, dict):
        return all(k in st and canon(st[k]) == canon(v) for k, v in pr.items())
    if isinstance(st, list) and isinstance(pr, list):
        have = {canon(x) for x in st}
        return all(canon(x) in have for x in pr)
    return False


def gen(repo, probe=None, fallback=None):
    """Returns (text, info).  probe: {section: {"value": v} | {"error": msg, "kind": "inconsistent"|"unavailable"}}."""
    src = Src(repo)
    probe = probe or {}
    fallback = fallback or {}
    got = {}            # section -> value used for rendering
    how = {}            # section -> provenance
    failed = {}         # section -> reason
    tripped = {}        # tripwire -> who decides
    texts = {}
    values = {}
    for s in SECTIONS:
        st_val = st_err = None
        try:
            st_val = s.static(src, got)
        except TranslatorError as e:
            st_err = str(e)
        except (KeyError, IndexError, ValueError) as e:
            st_err = f"{type(e).__name__}: {e}"
        pr = probe.get(s.name) or {}
        pr_val = pr.get("value")
        pr_err = pr.get("error")
        pr_inconsistent = pr.get("kind") == "inconsistent"
        use = None
        if s.kind == "tripwire":
            use = st_val if st_val is not None else {"ok": False}
            how[s.name] = "static"
            if not use["ok"]:
                tripped[s.name] = {"decided_by": list(s.decided_by), "why": st_err or "the body no longer matches the recorded normal form"}
        elif s.kind == "flag":
            if st_val is not None:
                use, how[s.name] = st_val, "static"
            else:
                failed[s.name] = f"static: {st_err}"
        elif s.kind == "pin":
            if pr_val is not None:
                if st_val is not None and st_val["ok"] and not pr_val["ok"]:
                    use, how[s.name] = {"ok": False}, "disagree"
                    failed[s.name] = f"the source has the pinned shape but the probe contradicts it: {pr.get('detail', '')}"
                elif st_val is not None and st_val["ok"] == pr_val["ok"]:
                    use, how[s.name] = pr_val, "static+probe-agree"
                else:
                    use, how[s.name] = pr_val, "probe"
            elif st_val is not None:
                use, how[s.name] = st_val, "static"
            else:
                failed[s.name] = f"static: {st_err}; probe: {pr_err or 'not available'}"
        else:
            try:
                if st_val is not None and pr_val is not None:
                    got_tmp = dict(got)
                    if readings_agree(s, s.sem(st_val, got_tmp), s.sem(pr_val, got_tmp)):
                        use, how[s.name] = st_val, "static+probe-agree"
                    else:
                        use, how[s.name] = st_val, "disagree"
                        failed[s.name] = ("static reading and probed behaviour disagree: static "
                                          + canon(s.sem(st_val, got_tmp))[:300] + " probe " + canon(s.sem(pr_val, got_tmp))[:300])
                elif st_val is not None:
                    use, how[s.name] = st_val, "static"
                    if pr_inconsistent:
                        how[s.name] = "disagree"
                        failed[s.name] = f"the probed behaviour does not fit the form the static reading assumes: {pr_err}"
                elif pr_val is not None:
                    use, how[s.name] = pr_val, "probe"
                else:
                    failed[s.name] = f"static: {st_err}; probe: {pr_err or 'not available'}"
            except TranslatorError as e:
                use = None
                failed[s.name] = f"comparison failed: {e}"
        text = None
        if use is not None:
            try:
                ref = fallback.get(s.name)
                same = (s.sem if how[s.name] == "probe" else s.exact)
                if ref is not None and s.kind == "value" and canon(same(use, got)) == canon(same(ref["value"], got)):
                    # same meaning as the reference rendering: keep its text (identical Tables.v, no rebuild)
                    use = ref["value"]
                text = s.render(use, dict(got, **{s.name: use}))
            except TranslatorError as e:
                failed[s.name] = f"render: {e}"
                text = None
        if text is None:
            ref = fallback.get(s.name)
            how[s.name] = "fallback"
            if ref is None:
                raise TranslatorError(f"section {s.name} could not be obtained ({failed.get(s.name)}) and no fallback value is recorded")
            use = ref["value"]
            text = ref["text"]
        got[s.name] = use
        values[s.name] = use
        texts[s.name] = text
    out = ["(* Tables.v — GENERATED by tools/gen_tables.py from the repository's current working tree.",
           "   Do not edit: it is rewritten on every run of every check.  Each section says how it was obtained:",
           "   static = read from the source text; probe = derived from the behaviour of the compiled code",
           "   (tools/probe.py); static+probe-agree = both, equal; disagree / FALLBACK = broken tie for the",
           "   properties that depend on the section. *)",
           "From MPD Require Import Bytes.",
           "Open Scope N_scope.",
           ""]
    for s in SECTIONS:
        h = how[s.name]
        if h == "fallback":
            out.append(f"(* FALLBACK: section {s.name} could not be obtained; last good value from tools/tables_fallback.json. "
                       f"{_comment_safe(failed.get(s.name, ''))} *)")
        elif h == "disagree":
            out.append(f"(* section {s.name}: DISAGREE (static reading emitted). {_comment_safe(failed.get(s.name, ''))} *)")
        elif s.kind != "tripwire":
            out.append(f"(* section {s.name}: {h} *)")
        out.append(texts[s.name])
    text = "\n".join(out) + "\n"
    info = {"sections": how, "failed": failed, "tripped": tripped, "values": values, "texts": texts}
    return text, info


def _comment_safe(s):
    return s.replace("(*", "( *").replace("*)", "* )").replace("\n", " ")[:400]


def code_only(text):
    """Tables.v without comments and blank lines: what the compiled .vo depends on."""
    out = []
    depth = 0
    i = 0
    while i < len(text):
        if text.startswith("(*", i):
            depth += 1
            i += 2
        elif text.startswith("*)", i) and depth > 0:
            depth -= 1
            i += 2
        else:
            if depth == 0:
                out.append(text[i])
            i += 1
    return "\n".join(l.rstrip() for l in "".join(out).split("\n") if l.strip())


def main():
    args = sys.argv[1:]
    if len(args) < 2:
        print(__doc__)
        sys.exit(2)
    repo, outp = args[0], args[1]
    probe_path = fallback_path = write_fallback = None
    i = 2
    while i < len(args):
        if args[i] == "--probe":
            probe_path = args[i + 1]
        elif args[i] == "--fallback":
            fallback_path = args[i + 1]
        elif args[i] == "--write-fallback":
            write_fallback = args[i + 1]
        else:
            print("unknown argument", args[i])
            sys.exit(2)
        i += 2
    probe = None
    if probe_path:
        try:
            probe = json.load(open(probe_path)).get("sections", {})
        except (OSError, ValueError) as e:
            probe = None
            print(f"note: probe file unreadable: {e}", file=sys.stderr)
    fallback = {}
    fp = fallback_path or DEFAULT_FALLBACK
    if os.path.exists(fp) and not write_fallback:
        fallback = json.load(open(fp))["sections"]
    try:
        text, info = gen(repo, probe, fallback)
    except TranslatorError as e:
        print(f"TRANSLATOR-ERROR: {e}")
        sys.exit(3)
    if write_fallback:
        if info["failed"]:
            print("refusing to write a fallback file from a run with failed sections: " + json.dumps(info["failed"]))
            sys.exit(3)
        with open(write_fallback, "w") as f:
            json.dump({"note": "last good value of every Tables.v section, generated by `gen_tables.py /repo <out> --write-fallback` "
                               "from the unchanged repository; used only to keep Tables.v complete when a section cannot be obtained",
                       "sections": {s.name: {"value": info["values"][s.name], "text": info["texts"][s.name]} for s in SECTIONS}},
                      f, indent=1, sort_keys=True)
    try:
        old = open(outp, encoding="utf-8").read()
    except FileNotFoundError:
        old = None
    code_changed = old is None or code_only(old) != code_only(text)
    if old != text:
        st = os.stat(outp) if old is not None else None
        with open(outp, "w", encoding="utf-8") as f:
            f.write(text)
        if not code_changed and st is not None:
            # only comments (provenance) changed: the compiled Tables.vo still corresponds; keep make quiet
            os.utime(outp, ns=(st.st_atime_ns, st.st_mtime_ns))
    print(json.dumps({"sha256": hashlib.sha256(text.encode()).hexdigest(), "changed": old != text, "code_changed": code_changed,
                      "sections": info["sections"], "failed": info["failed"], "tripped": info["tripped"]}))


if __name__ == "__main__":
    main()
