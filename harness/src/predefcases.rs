//! C15: every public constructor / builder path of every predefined command
//! (mpd_client::commands::definitions), built from the abstract parameters of a case line
//!   predef <Name.path> <param>...
//! and rendered through `Command::command()`; the bytes are what `Connection::send` writes.
//! Parameter syntax: see coq/DriverCommands.v.  Output: `ok <hex>` | `PANIC` | `bad-case`.
use std::ops::Bound;
use std::time::Duration;

use mpd_client::commands::*;
use mpd_client::filter::{Filter, Operator};
use mpd_client::tag::Tag;

use crate::cmdcases::sent_bytes;
use crate::tagcases::{all_tags, tag_ident};
use crate::util::*;

#[derive(Clone, Copy, Debug)]
enum B {
    I(usize),
    X(usize),
    U,
}

#[derive(Clone, Copy, Debug)]
enum Rel {
    Abs(usize),
    After(usize),
    Before(usize),
}

#[derive(Clone, Debug)]
enum P {
    Num(u64),
    Str(String),
    Bool(bool),
    Range(B, B),
    Dur(Duration),
    Tg(Tag),
    Tgs(Vec<Tag>),
    Flt(Filter),
    Non,
    Enum(String),
    Sng(Song),
    Rl(Rel),
}

fn parse_bound(s: &str) -> Option<B> {
    if s == "u" {
        Some(B::U)
    } else if let Some(r) = s.strip_prefix('i') {
        Some(B::I(parse_u64(r)? as usize))
    } else if let Some(r) = s.strip_prefix('x') {
        Some(B::X(parse_u64(r)? as usize))
    } else {
        None
    }
}

/// digits only (no sign), value below 2^64
fn parse_u64(s: &str) -> Option<u64> {
    if s.is_empty() || !s.bytes().all(|c| c.is_ascii_digit()) {
        return None;
    }
    s.parse::<u64>().ok()
}

fn parse_tag(s: &str) -> Option<Tag> {
    if let Some(id) = s.strip_prefix('t') {
        all_tags().into_iter().find(|t| tag_ident(t) == id)
    } else if let Some(h) = s.strip_prefix('o') {
        unhex_str(h).map(|s| Tag::Other(s.into()))
    } else if let Some(h) = s.strip_prefix('p') {
        // the way an application gets a tag from a name it was given: the checked, case-insensitive conversion
        unhex_str(h).and_then(|s| Tag::try_from(&*s).ok())
    } else {
        None
    }
}

fn parse_operator(s: &str) -> Option<Operator> {
    [Operator::Equal, Operator::NotEqual, Operator::Contain, Operator::Match, Operator::NotMatch]
        .into_iter()
        .find(|o| format!("{:?}", o) == s)
}

fn parse_param(t: &str) -> Option<P> {
    if t == "-" {
        return Some(P::Non);
    }
    let (k, r) = t.split_at(1);
    match k {
        "n" => Some(P::Num(parse_u64(r)?)),
        "s" => Some(P::Str(unhex_str(r)?)),
        "b" => match r {
            "0" => Some(P::Bool(false)),
            "1" => Some(P::Bool(true)),
            _ => None,
        },
        "r" => {
            let (lo, hi) = r.split_once(',')?;
            if hi.contains(',') {
                return None;
            }
            Some(P::Range(parse_bound(lo)?, parse_bound(hi)?))
        }
        "d" => {
            let (s, n) = r.split_once(',')?;
            let n = parse_u64(n)?;
            if n >= 1_000_000_000 {
                return None;
            }
            Some(P::Dur(Duration::new(parse_u64(s)?, n as u32)))
        }
        "t" | "o" | "p" => Some(P::Tg(parse_tag(t)?)),
        "T" => {
            if r.is_empty() {
                Some(P::Tgs(Vec::new()))
            } else {
                r.split(',').map(parse_tag).collect::<Option<Vec<_>>>().map(P::Tgs)
            }
        }
        "f" => {
            let parts: Vec<&str> = r.split(',').collect();
            if parts.len() != 4 {
                return None;
            }
            let f = Filter::new(parse_tag(parts[0])?, parse_operator(parts[1])?, unhex_str(parts[2])?);
            match parts[3] {
                "0" => Some(P::Flt(f)),
                "1" => Some(P::Flt(f.negate())),
                _ => None,
            }
        }
        "e" => Some(P::Enum(r.to_string())),
        "I" => Some(P::Sng(Song::Id(SongId(parse_u64(r)?)))),
        "P" => Some(P::Sng(Song::Position(SongPosition(parse_u64(r)? as usize)))),
        "q" => {
            let (m, v) = r.split_at(r.len().min(1));
            let v = parse_u64(v)? as usize;
            match m {
                "a" => Some(P::Rl(Rel::Abs(v))),
                "+" => Some(P::Rl(Rel::After(v))),
                "-" => Some(P::Rl(Rel::Before(v))),
                _ => None,
            }
        }
        _ => None,
    }
}

/// Calls `$body` with `$r` bound to a `RangeBounds<$ty>` value of the same bounds: the native
/// range syntax where Rust has one for the shape, the `(Bound, Bound)` pair otherwise.
macro_rules! with_range {
    ($lo:expr, $hi:expr, $wrap:expr, |$r:ident| $body:expr) => {
        match ($lo, $hi) {
            (B::I(a), B::X(z)) => { let $r = $wrap(a)..$wrap(z); $body }
            (B::I(a), B::I(z)) => { let $r = $wrap(a)..=$wrap(z); $body }
            (B::I(a), B::U) => { let $r = $wrap(a)..; $body }
            (B::U, B::X(z)) => { let $r = ..$wrap(z); $body }
            (B::U, B::I(z)) => { let $r = ..=$wrap(z); $body }
            (B::U, B::U) => { let $r = ..; $body }
            (B::X(a), B::X(z)) => { let $r = (Bound::Excluded($wrap(a)), Bound::Excluded($wrap(z))); $body }
            (B::X(a), B::I(z)) => { let $r = (Bound::Excluded($wrap(a)), Bound::Included($wrap(z))); $body }
            (B::X(a), B::U) => { let $r = (Bound::Excluded($wrap(a)), Bound::Unbounded); $body }
        }
    };
}

fn ident(x: usize) -> usize {
    x
}

fn bytes_of<C: Command>(c: C) -> Vec<u8> {
    sent_bytes(&c.command())
}

fn move_to(b: MoveBuilder, to: Rel) -> Move {
    match to {
        Rel::Abs(p) => b.to_position(SongPosition(p)),
        Rel::After(n) => b.after_current(n),
        Rel::Before(n) => b.before_current(n),
    }
}

/// None = the case line does not name a constructor path with these parameter kinds.
fn build(name: &str, ps: &[P]) -> Option<Vec<u8>> {
    use P::*;
    let out = match (name, ps) {
        ("ClearQueue", []) => bytes_of(ClearQueue),
        ("Next", []) => bytes_of(Next),
        ("Ping", []) => bytes_of(Ping),
        ("Previous", []) => bytes_of(Previous),
        ("Stop", []) => bytes_of(Stop),
        ("ReplayGainStatus", []) => bytes_of(ReplayGainStatus),
        ("Status", []) => bytes_of(Status),
        ("Stats", []) => bytes_of(Stats),
        ("Queue", []) => bytes_of(Queue),
        ("Queue.all", []) => bytes_of(Queue::all()),
        ("CurrentSong", []) => bytes_of(CurrentSong),
        ("GetPlaylists", []) => bytes_of(GetPlaylists),
        ("GetEnabledTagTypes", []) => bytes_of(GetEnabledTagTypes),
        ("ReadChannelMessages", []) => bytes_of(ReadChannelMessages),
        ("ListChannels", []) => bytes_of(ListChannels),
        ("ClearPlaylist", [Str(s)]) => bytes_of(ClearPlaylist(s)),
        ("DeletePlaylist", [Str(s)]) => bytes_of(DeletePlaylist(s)),
        ("SaveQueueAsPlaylist", [Str(s)]) => bytes_of(SaveQueueAsPlaylist(s)),
        ("SubscribeToChannel", [Str(s)]) => bytes_of(SubscribeToChannel(s)),
        ("UnsubscribeFromChannel", [Str(s)]) => bytes_of(UnsubscribeFromChannel(s)),
        ("GetPlaylist", [Str(s)]) => bytes_of(GetPlaylist(s)),
        ("SetConsume", [Bool(x)]) => bytes_of(SetConsume(*x)),
        ("SetPause", [Bool(x)]) => bytes_of(SetPause(*x)),
        ("SetRandom", [Bool(x)]) => bytes_of(SetRandom(*x)),
        ("SetRepeat", [Bool(x)]) => bytes_of(SetRepeat(*x)),
        ("Queue.song", [Sng(s)]) => match s {
            // both From impls of Song are public conversion paths
            Song::Id(i) => bytes_of(Queue::song(*i)),
            Song::Position(p) => bytes_of(Queue::song(*p)),
        },
        ("QueueRange.song", [Sng(s)]) => bytes_of(QueueRange::song(*s)),
        ("Queue.range", [Range(lo, hi)]) => with_range!(*lo, *hi, SongPosition, |r| bytes_of(Queue::range(r))),
        ("QueueRange.range", [Range(lo, hi)]) => with_range!(*lo, *hi, SongPosition, |r| bytes_of(QueueRange::range(r))),
        ("SetVolume", [Num(n)]) => bytes_of(SetVolume(u8::try_from(*n).ok()?)),
        ("SetSingle", [Enum(e)]) => bytes_of(SetSingle(match e.as_str() {
            "Enabled" => SingleMode::Enabled,
            "Disabled" => SingleMode::Disabled,
            "Oneshot" => SingleMode::Oneshot,
            _ => return None,
        })),
        ("SetReplayGainMode", [Enum(e)]) => bytes_of(SetReplayGainMode(match e.as_str() {
            "Off" => ReplayGainMode::Off,
            "Track" => ReplayGainMode::Track,
            "Album" => ReplayGainMode::Album,
            "Auto" => ReplayGainMode::Auto,
            _ => return None,
        })),
        ("Crossfade", [Dur(d)]) => bytes_of(Crossfade(*d)),
        ("SeekTo", [Sng(s), Dur(d)]) => bytes_of(SeekTo(*s, *d)),
        ("Seek", [Enum(e), Dur(d)]) => bytes_of(Seek(match e.as_str() {
            "Forward" => SeekMode::Forward(*d),
            "Backward" => SeekMode::Backward(*d),
            "Absolute" => SeekMode::Absolute(*d),
            _ => return None,
        })),
        ("Shuffle.all", []) => bytes_of(Shuffle::all()),
        ("Shuffle.range", [Range(lo, hi)]) => with_range!(*lo, *hi, SongPosition, |r| bytes_of(Shuffle::range(r))),
        ("Play.current", []) => bytes_of(Play::current()),
        ("Play.song", [Sng(s)]) => match s {
            Song::Id(i) => bytes_of(Play::song(*i)),
            Song::Position(p) => bytes_of(Play::song(*p)),
        },
        ("Add.uri", [Str(u), Non]) => bytes_of(Add::uri(u)),
        ("Add.uri", [Str(u), Rl(p)]) => bytes_of(match p {
            Rel::Abs(p) => Add::uri(u).at(*p),
            Rel::After(n) => Add::uri(u).after_current(*n),
            Rel::Before(n) => Add::uri(u).before_current(*n),
        }),
        ("Delete.id", [Num(n)]) => bytes_of(Delete::id(SongId(*n))),
        ("Delete.position", [Num(n)]) => bytes_of(Delete::position(SongPosition(*n as usize))),
        ("Delete.range", [Range(lo, hi)]) => with_range!(*lo, *hi, SongPosition, |r| bytes_of(Delete::range(r))),
        ("Move.id", [Num(n), Rl(to)]) => bytes_of(move_to(Move::id(SongId(*n)), *to)),
        ("Move.position", [Num(n), Rl(to)]) => bytes_of(move_to(Move::position(SongPosition(*n as usize)), *to)),
        ("Move.range", [Range(lo, hi), Rl(to)]) => {
            with_range!(*lo, *hi, SongPosition, |r| bytes_of(move_to(Move::range(r), *to)))
        }
        ("Find.new", [Flt(f), so, wi]) => {
            let mut c = Find::new(f.clone());
            match so {
                Non => {}
                Tg(t) => c = c.sort(t.clone()),
                _ => return None,
            }
            match wi {
                Non => {}
                Range(lo, hi) => c = with_range!(*lo, *hi, ident, |r| c.window(r)),
                _ => return None,
            }
            bytes_of(c)
        }
        ("List.new", [Tg(t), fo, Tgs(g)]) => {
            let mut c = List::new(t.clone());
            match fo {
                Non => {}
                Flt(f) => c = c.filter(f.clone()),
                _ => return None,
            }
            match g.len() {
                0 => bytes_of(c),
                1 => bytes_of(c.group_by::<1>(g.clone().try_into().ok()?)),
                2 => bytes_of(c.group_by::<2>(g.clone().try_into().ok()?)),
                3 => bytes_of(c.group_by::<3>(g.clone().try_into().ok()?)),
                4 => bytes_of(c.group_by::<4>(g.clone().try_into().ok()?)),
                _ => return None,
            }
        }
        ("Count.new", [Flt(f)]) => bytes_of(Count::new(f.clone())),
        ("Count.group_by", [Flt(f), Tg(g)]) => bytes_of(Count::new(f.clone()).group_by(g.clone())),
        ("CountGrouped.new", [Tg(g), Non]) => bytes_of(CountGrouped::new(g.clone())),
        ("CountGrouped.new", [Tg(g), Flt(f)]) => bytes_of(CountGrouped::new(g.clone()).filter(f.clone())),
        // setting the filter again replaces it (the documented behaviour of every setter)
        ("Count.group_by_refilter", [Flt(f), Tg(g), Flt(f2)]) => bytes_of(Count::new(f.clone()).group_by(g.clone()).filter(f2.clone())),
        ("CountGrouped.refilter", [Tg(g), Flt(f), Flt(f2)]) => bytes_of(CountGrouped::new(g.clone()).filter(f.clone()).filter(f2.clone())),
        ("RenamePlaylist.new", [Str(a), Str(z)]) => bytes_of(RenamePlaylist::new(a, z)),
        ("LoadPlaylist.name", [Str(n), Non]) => bytes_of(LoadPlaylist::name(n)),
        ("LoadPlaylist.name", [Str(n), Range(lo, hi)]) => {
            with_range!(*lo, *hi, ident, |r| bytes_of(LoadPlaylist::name(n).range(r)))
        }
        ("AddToPlaylist.new", [Str(p), Str(u), Non]) => bytes_of(AddToPlaylist::new(p, u)),
        ("AddToPlaylist.new", [Str(p), Str(u), Num(n)]) => bytes_of(AddToPlaylist::new(p, u).at(*n as usize)),
        ("RemoveFromPlaylist.position", [Str(p), Num(n)]) => bytes_of(RemoveFromPlaylist::position(p, *n as usize)),
        ("RemoveFromPlaylist.range", [Str(p), Range(lo, hi)]) => {
            with_range!(*lo, *hi, SongPosition, |r| bytes_of(RemoveFromPlaylist::range(p, r)))
        }
        ("MoveInPlaylist.new", [Str(p), Num(a), Num(z)]) => bytes_of(MoveInPlaylist::new(p, *a as usize, *z as usize)),
        ("ListAllIn.root", []) => bytes_of(ListAllIn::root()),
        ("ListAllIn.directory", [Str(d)]) => bytes_of(ListAllIn::directory(d)),
        ("SetBinaryLimit", [Num(n)]) => bytes_of(SetBinaryLimit(*n as usize)),
        ("AlbumArt.new", [Str(u), Non]) => bytes_of(AlbumArt::new(u)),
        // builder setters overwrite: for odd offsets the setter is first called with a decoy value
        ("AlbumArt.new", [Str(u), Num(n)]) if n % 2 == 1 => bytes_of(AlbumArt::new(u).offset(8192).offset(*n as usize)),
        ("AlbumArt.new", [Str(u), Num(n)]) => bytes_of(AlbumArt::new(u).offset(*n as usize)),
        ("AlbumArtEmbedded.new", [Str(u), Non]) => bytes_of(AlbumArtEmbedded::new(u)),
        ("AlbumArtEmbedded.new", [Str(u), Num(n)]) if n % 2 == 1 => bytes_of(AlbumArtEmbedded::new(u).offset(8192).offset(*n as usize)),
        ("AlbumArtEmbedded.new", [Str(u), Num(n)]) => bytes_of(AlbumArtEmbedded::new(u).offset(*n as usize)),
        ("TagTypes.enable_all", []) => bytes_of(TagTypes::enable_all()),
        ("TagTypes.disable_all", []) => bytes_of(TagTypes::disable_all()),
        ("TagTypes.disable", [Tgs(l)]) => bytes_of(TagTypes::disable(l)),
        ("TagTypes.enable", [Tgs(l)]) => bytes_of(TagTypes::enable(l)),
        ("StickerGet.new", [Str(u), Str(n)]) => bytes_of(StickerGet::new(u, n)),
        ("StickerSet.new", [Str(u), Str(n), Str(v)]) => bytes_of(StickerSet::new(u, n, v)),
        ("StickerDelete.new", [Str(u), Str(n)]) => bytes_of(StickerDelete::new(u, n)),
        ("StickerList.new", [Str(u)]) => bytes_of(StickerList::new(u)),
        ("StickerFind.new", [Str(u), Str(n), Non, Non]) => bytes_of(StickerFind::new(u, n)),
        ("StickerFind.new", [Str(u), Str(n), Enum(o), Str(v)]) => bytes_of(match o.as_str() {
            "Eq" => StickerFind::new(u, n).where_eq(v),
            "Lt" => StickerFind::new(u, n).where_lt(v),
            "Gt" => StickerFind::new(u, n).where_gt(v),
            _ => return None,
        }),
        ("Update.new", [Non]) => bytes_of(Update::new()),
        ("Update.new", [Str(u)]) => bytes_of(Update::new().uri(u)),
        ("Rescan.new", [Non]) => bytes_of(Rescan::new()),
        ("Rescan.new", [Str(u)]) => bytes_of(Rescan::new().uri(u)),
        ("SendChannelMessage.new", [Str(c), Str(m)]) => bytes_of(SendChannelMessage::new(c, m)),
        _ => return None,
    };
    Some(out)
}

pub fn run(toks: &[&str]) -> String {
    if toks.len() < 2 {
        return "bad-case".into();
    }
    let Some(ps) = toks[2..].iter().map(|t| if t.is_empty() { None } else { parse_param(t) }).collect::<Option<Vec<P>>>() else {
        return "bad-case".into();
    };
    match catch(|| build(toks[1], &ps)) {
        Err(_) => "PANIC".into(),
        Ok(None) => "bad-case".into(),
        Ok(Some(bytes)) => format!("ok {}", hex(&bytes)),
    }
}
