//! C19: Frame / Fields / IntoIter / Response / FramesRef / Frames as ordered collections.
use mpd_protocol::response::{Frame, Response};
use mpd_protocol::Connection;

use crate::conncases::ChunkReader;
use crate::util::*;

pub fn response_of_wire(wire: &[u8]) -> Option<Response> {
    let reader = ChunkReader::new(vec![b"OK MPD 0.23.5\n".to_vec(), wire.to_vec()], false);
    let mut conn = Connection::connect(reader).ok()?;
    conn.receive().ok()?
}

fn show_opt(v: Option<&[u8]>) -> String {
    match v {
        Some(b) => hex(b),
        None => "~".into(),
    }
}

fn show_pair(p: Option<(&str, &str)>) -> String {
    match p {
        Some((k, v)) => format!("{}:{}", hex(k.as_bytes()), hex(v.as_bytes())),
        None => "~".into(),
    }
}

fn frame_brief(f: &Frame) -> String {
    let fields: Vec<String> = f.fields().map(|p| show_pair(Some(p))).collect();
    format!("F({})bin={}", fields.join(","), show_opt(f.binary()))
}

pub fn run(toks: &[&str]) -> String {
    let wire = unhex(toks[1]);
    let Some(resp) = response_of_wire(&wire) else { return "noresponse".into() };
    match toks[0] {
        "frame" => {
            let Some(Ok(mut frame)) = resp.into_iter().next() else { return "noframe".into() };
            let mut out = Vec::new();
            let mut consumed: Option<String> = None;
            let ops: Vec<&str> = toks[2..].to_vec();
            let mut frame_opt = Some(frame.clone());
            let _ = &mut frame;
            for op in ops {
                let Some(fr) = frame_opt.as_mut() else { break };
                let (name, arg) = op.split_once(':').unwrap_or((op, ""));
                match name {
                    "find" => {
                        let k = unhex_str(arg).unwrap_or_default();
                        out.push(format!("v={}", show_opt(fr.find(&k).map(|s| s.as_bytes()))));
                    }
                    "get" => {
                        let k = unhex_str(arg).unwrap_or_default();
                        let v = fr.get(&k);
                        out.push(format!("v={}", show_opt(v.as_deref().map(|s| s.as_bytes()))));
                    }
                    "len" => out.push(format!("n={}", fr.fields_len())),
                    "empty" => out.push(format!("b={}", fr.is_empty() as u8)),
                    "hasbin" => out.push(format!("b={}", fr.has_binary() as u8)),
                    "bin" => out.push(format!("v={}", show_opt(fr.binary()))),
                    "takebin" => {
                        let b = fr.take_binary();
                        out.push(format!("v={}", show_opt(b.as_deref())));
                    }
                    "iter" => {
                        // alternate between Frame::fields() and (&frame).into_iter()
                        let mut it = if arg.len() % 2 == 0 { fr.fields() } else { (&*fr).into_iter() };
                        let mut items = Vec::new();
                        for d in arg.chars() {
                            match d {
                                'f' => items.push(show_pair(it.next())),
                                'b' => items.push(show_pair(it.next_back())),
                                '0'..='9' => items.push(show_pair(it.nth(d as usize - '0' as usize))),
                                'A'..='J' => items.push(show_pair(it.nth_back(d as usize - 'A' as usize))),
                                _ => {}
                            }
                        }
                        out.push(format!("p=[{}]", items.join(",")));
                    }
                    "into" => {
                        let owned = frame_opt.take().unwrap();
                        let mut it = owned.into_iter();
                        let mut items = Vec::new();
                        for d in arg.chars() {
                            match d {
                                'f' => items.push(match it.next() {
                                    Some((k, v)) => format!("{}:{}", hex(k.as_bytes()), hex(v.as_bytes())),
                                    None => "~".into(),
                                }),
                                'b' => items.push(match it.next_back() {
                                    Some((k, v)) => format!("{}:{}", hex(k.as_bytes()), hex(v.as_bytes())),
                                    None => "~".into(),
                                }),
                                't' => items.push(format!("B{}", show_opt(it.take_binary().as_deref()))),
                                '0'..='9' => items.push(match it.nth(d as usize - '0' as usize) {
                                    Some((k, v)) => format!("{}:{}", hex(k.as_bytes()), hex(v.as_bytes())),
                                    None => "~".into(),
                                }),
                                'A'..='J' => items.push(match it.nth_back(d as usize - 'A' as usize) {
                                    Some((k, v)) => format!("{}:{}", hex(k.as_bytes()), hex(v.as_bytes())),
                                    None => "~".into(),
                                }),
                                _ => {}
                            }
                        }
                        consumed = Some(format!("m=[{}]", items.join(",")));
                    }
                    _ => out.push("badop".into()),
                }
            }
            if let Some(c) = consumed {
                out.push(c);
            }
            out.join(" ; ")
        }
        "resp" => {
            let dirs = toks[3];
            let mut items = Vec::new();
            if toks[2] == "ref" {
                let mut it = if dirs.len() % 2 == 0 { resp.frames() } else { (&resp).into_iter() };
                for d in dirs.chars() {
                    let (lo, hi) = it.size_hint();
                    let sz = if hi == Some(lo) && it.len() == lo { lo.to_string() } else { format!("{}?{:?}", lo, hi) };
                    let item = match d {
                        'f' => it.next(),
                        '0'..='9' => it.nth(d as usize - '0' as usize),
                        'A'..='J' => it.nth_back(d as usize - 'A' as usize),
                        _ => it.next_back(),
                    };
                    items.push(format!(
                        "{}:{}",
                        sz,
                        match item {
                            Some(Ok(f)) => frame_brief(f),
                            Some(Err(e)) => format!("E{}", e.code),
                            None => "~".into(),
                        }
                    ));
                }
            } else {
                let mut it = resp.into_iter();
                for d in dirs.chars() {
                    let (lo, hi) = it.size_hint();
                    let sz = if hi == Some(lo) && it.len() == lo { lo.to_string() } else { format!("{}?{:?}", lo, hi) };
                    let item = match d {
                        'f' => it.next(),
                        '0'..='9' => it.nth(d as usize - '0' as usize),
                        'A'..='J' => it.nth_back(d as usize - 'A' as usize),
                        _ => it.next_back(),
                    };
                    items.push(format!(
                        "{}:{}",
                        sz,
                        match item {
                            Some(Ok(f)) => frame_brief(&f),
                            Some(Err(e)) => format!("E{}", e.code),
                            None => "~".into(),
                        }
                    ));
                }
            }
            format!("[{}]", items.join(","))
        }
        _ => "unknown-kind".into(),
    }
}
