//! C19: Frame / Fields / IntoIter / Response / FramesRef / Frames as ordered collections.
use mpd_protocol::response::{Frame, Response};
use mpd_protocol::Connection;

use crate::conncases::ChunkReader;
use crate::util::*;

pub fn response_of_wire(wire: &[u8]) -> Option<Response> {
    let reader = ChunkReader::new(vec![b"OK MPD 0.23.5\n".to_vec(), wire.to_vec()], false);
    let mut conn = Connection::connect(reader).ok()?;
    conn.receive().ok()?
}

fn show_opt(v: Option<&[u8]>) -> String {
    match v {
        Some(b) => hex(b),
        None => "~".into(),
    }
}

fn show_pair(p: Option<(&str, &str)>) -> String {
    match p {
        Some((k, v)) => format!("{}:{}", hex(k.as_bytes()), hex(v.as_bytes())),
        None => "~".into(),
    }
}

fn frame_brief(f: &Frame) -> String {
    let fields: Vec<String> = f.fields().map(|p| show_pair(Some(p))).collect();
    format!("F({})bin={}", fields.join(","), show_opt(f.binary()))
}

/// Every way the standard library lets a caller walk an iterator (many of which an implementation may override:
/// fold, rfold, nth, nth_back, last, count, try_fold ... and everything built on them) must give the sequence that
/// repeated `next()` gives, or its reverse.  Returns a description of the first walk that differs.
fn walk_differs<I, M, S>(mk: M, show: S) -> Option<String>
where
    I: DoubleEndedIterator,
    M: Fn() -> I,
    S: Fn(I::Item) -> String,
{
    let mut base = Vec::new();
    let mut it = mk();
    while let Some(x) = it.next() {
        base.push(show(x));
    }
    let rev: Vec<String> = base.iter().rev().cloned().collect();
    let n = base.len();
    let mut walks: Vec<(&str, Vec<String>, &Vec<String>)> = Vec::new();
    walks.push(("fold", mk().fold(Vec::new(), |mut a, x| { a.push(show(x)); a }), &base));
    let mut v = Vec::new();
    mk().for_each(|x| v.push(show(x)));
    walks.push(("for_each", v, &base));
    walks.push(("collect", mk().map(&show).collect(), &base));
    walks.push(("rfold", mk().rfold(Vec::new(), |mut a, x| { a.push(show(x)); a }), &rev));
    let mut v = Vec::new();
    mk().rev().for_each(|x| v.push(show(x)));
    walks.push(("rev().for_each", v, &rev));
    walks.push(("rev().collect", mk().rev().map(&show).collect(), &rev));
    let mut v = Vec::new();
    let mut it = mk();
    while let Some(x) = it.next_back() {
        v.push(show(x));
    }
    walks.push(("next_back", v, &rev));
    let mut v = Vec::new();
    let _ = mk().try_for_each(|x| { v.push(show(x)); Some(()) });
    walks.push(("try_for_each", v, &base));
    let mut v = Vec::new();
    let _ = mk().rev().try_for_each(|x| { v.push(show(x)); Some(()) });
    walks.push(("rev().try_for_each", v, &rev));
    walks.push(("skip(1)", mk().skip(1).map(&show).collect(), &base));
    walks.push(("step_by(2)", mk().step_by(2).map(&show).collect(), &base));
    walks.push(("chain", mk().take(1).chain(mk().skip(1)).map(&show).collect(), &base));
    for (name, got, want) in walks {
        let want: Vec<String> = match name {
            "skip(1)" => want.iter().skip(1).cloned().collect(),
            "step_by(2)" => want.iter().step_by(2).cloned().collect(),
            _ => want.clone(),
        };
        if got != want {
            return Some(format!("{name} gives [{}] where next() gives [{}]", got.join(","), base.join(",")));
        }
    }
    if mk().count() != n || mk().rev().count() != n || mk().size_hint().0 > n || mk().size_hint().1.map(|h| h < n).unwrap_or(false) {
        return Some(format!("count/len differ from the {n} items next() gives"));
    }
    if mk().last().map(&show) != base.last().cloned() {
        return Some(format!("last() differs from the last item next() gives ([{}])", base.join(",")));
    }
    if mk().rev().last().map(&show) != base.first().cloned() {
        return Some(format!("rev().last() differs from the first item next() gives ([{}])", base.join(",")));
    }
    for k in 0..=n {
        if mk().nth(k).map(&show) != base.get(k).cloned() || mk().nth_back(k).map(&show) != rev.get(k).cloned() {
            return Some(format!("nth({k}) / nth_back({k}) differ from position {k} of what next() gives ([{}])", base.join(",")));
        }
    }
    None
}

pub fn collections_differ(resp: &Response) -> Option<String> {
    let show_ref = |x: Result<&Frame, &mpd_protocol::response::Error>| match x {
        Ok(f) => frame_brief(f),
        Err(e) => format!("E{}", e.code),
    };
    if let Some(d) = walk_differs(|| resp.frames(), show_ref) {
        return Some(format!("Response::frames(): {d}"));
    }
    if let Some(d) = walk_differs(|| resp.into_iter(), show_ref) {
        return Some(format!("(&Response).into_iter(): {d}"));
    }
    let show_own = |x: Result<Frame, mpd_protocol::response::Error>| match x {
        Ok(f) => frame_brief(&f),
        Err(e) => format!("E{}", e.code),
    };
    if let Some(d) = walk_differs(|| resp.clone().into_iter(), show_own) {
        return Some(format!("Response::into_iter(): {d}"));
    }
    for f in resp.frames().flatten() {
        if let Some(d) = walk_differs(|| f.fields(), |p| show_pair(Some(p))) {
            return Some(format!("Frame::fields(): {d}"));
        }
        if let Some(d) = walk_differs(|| f.into_iter(), |p| show_pair(Some(p))) {
            return Some(format!("(&Frame).into_iter(): {d}"));
        }
        // the owning iterator is double-ended but not exact-size: walked by hand
        let base: Vec<String> = f.fields().map(|p| show_pair(Some(p))).collect();
        let own = |p: (std::sync::Arc<str>, String)| format!("{}:{}", hex(p.0.as_bytes()), hex(p.1.as_bytes()));
        let fwd: Vec<String> = f.clone().into_iter().map(own).collect();
        let mut bwd: Vec<String> = f.clone().into_iter().rev().map(own).collect();
        bwd.reverse();
        let folded: Vec<String> = f.clone().into_iter().fold(Vec::new(), |mut a, x| { a.push(own(x)); a });
        let mut rfolded: Vec<String> = f.clone().into_iter().rfold(Vec::new(), |mut a, x| { a.push(own(x)); a });
        rfolded.reverse();
        if fwd != base || bwd != base || folded != base || rfolded != base {
            return Some(format!("Frame::into_iter(): a walk differs from fields() [{}]", base.join(",")));
        }
        // emptiness is "no fields and no payload", whatever the payload's length
        if f.is_empty() != (f.fields_len() == 0 && !f.has_binary()) || f.has_binary() != f.binary().is_some() {
            return Some(format!("Frame::is_empty()={} with {} fields and has_binary()={} / binary().is_some()={}", f.is_empty(), f.fields_len(), f.has_binary(), f.binary().is_some()));
        }
    }
    None
}

/// What the accessors of a decoded frame say must follow from the fields in wire order alone: `find` is the first value of
/// the key; `get` removes exactly that field and leaves the others in order (observed through every iterator, `fields_len`
/// and `size_hint`); repeated `get`s of a key yield its values in wire order.  Returns a description of the first deviation.
pub fn accessors_differ(resp: &Response) -> Option<String> {
    // the response as a whole: its summary accessors against what iterating it shows
    let ok_frames = resp.frames().filter(|f| f.is_ok()).count();
    let has_err = resp.frames().any(|f| f.is_err());
    if resp.is_error() != has_err || resp.is_success() == has_err || resp.successful_frames() != ok_frames {
        return Some(format!("is_error()={} is_success()={} successful_frames()={} but iterating yields {ok_frames} frames and {} error",
                            resp.is_error(), resp.is_success(), resp.successful_frames(), if has_err { "an" } else { "no" }));
    }
    let total = ok_frames + has_err as usize;
    if resp.frames().len() != total || resp.clone().into_iter().len() != total || resp.into_iter().len() != total {
        return Some(format!("len() of a frames iterator is not the {total} items it yields"));
    }
    {
        // the error, if any, is the last item; exhausted iterators stay exhausted; len() counts down with next() / next_back()
        let mut it = resp.frames();
        let mut left = total;
        let mut seen_err = false;
        while let Some(x) = it.next() {
            if seen_err {
                return Some("an item after the error frame".into());
            }
            seen_err = x.is_err();
            left -= 1;
            if it.len() != left {
                return Some(format!("frames().len() = {} after taking {} of {total} items", it.len(), total - left));
            }
        }
        if it.next().is_some() || it.next_back().is_some() || it.next().is_some() {
            return Some("an exhausted frames iterator yields an item again".into());
        }
        let mut it = resp.clone().into_iter();
        let mut n = 0;
        while it.next_back().is_some() {
            n += 1;
            if it.len() != total - n {
                return Some(format!("into_iter().len() = {} after taking {n} of {total} items from the back", it.len()));
            }
        }
        if it.next().is_some() || it.next_back().is_some() {
            return Some("an exhausted owning frames iterator yields an item again".into());
        }
        match (resp.clone().into_single_frame(), resp.frames().next()) {
            (Ok(a), Some(Ok(b))) if a.fields().eq(b.fields()) && a.binary() == b.binary() => {}
            (Err(a), Some(Err(b))) if a == *b => {}
            _ => return Some("into_single_frame() is not the first item of frames()".into()),
        }
    }
    for f in resp.frames().flatten() {
        {
            let mut it = f.fields();
            while it.next().is_some() {}
            if it.next().is_some() || it.next_back().is_some() {
                return Some("an exhausted fields() iterator yields an item again".into());
            }
        }
        let base: Vec<(String, String)> = f.fields().map(|(k, v)| (k.to_string(), v.to_string())).collect();
        let n = base.len();
        let show = |l: &[(String, String)]| l.iter().map(|(k, v)| format!("{k:?}={v:?}")).collect::<Vec<_>>().join(",");
        let hint_bad = |it: (usize, Option<usize>), len: usize| it.0 > len || it.1.map_or(false, |h| h < len);
        if hint_bad(f.fields().size_hint(), n) || hint_bad(f.into_iter().size_hint(), n) || hint_bad(f.clone().into_iter().size_hint(), n) {
            return Some(format!("size_hint of a field iterator excludes the {n} fields it yields [{}]", show(&base)));
        }
        if f.fields_len() != n {
            return Some(format!("fields_len()={} but fields() yields {n}", f.fields_len()));
        }
        for (k, _) in &base {
            let want = base.iter().find(|(k2, _)| k2 == k).map(|(_, v)| v.as_str());
            if f.find(k) != want {
                return Some(format!("find({k:?}) = {:?}, the first field with that key is {:?}", f.find(k), want));
            }
        }
        if n == 0 {
            continue;
        }
        let mut picks = vec![0, n / 2, n - 1];
        picks.dedup();
        for idx in picks {
            let key = base[idx].0.clone();
            let mut g = f.clone();
            let mut want = base.clone();
            // every value of the key, in wire order, each get removing exactly one field
            let mut round = 0;
            while let Some(first) = want.iter().position(|(k, _)| *k == key) {
                round += 1;
                let got = g.get(&key);
                if got.as_deref() != Some(want[first].1.as_str()) {
                    return Some(format!("get({key:?}) #{round} = {:?}, expected {:?} (fields [{}])", got, want[first].1, show(&base)));
                }
                want.remove(first);
                let rest: Vec<(String, String)> = g.fields().map(|(k, v)| (k.to_string(), v.to_string())).collect();
                if rest != want {
                    return Some(format!("after get({key:?}) #{round} the remaining fields are [{}], expected [{}] (the others, in wire order)", show(&rest), show(&want)));
                }
                let owned: Vec<(String, String)> = g.clone().into_iter().map(|(k, v)| (k.to_string(), v)).collect();
                let mut back: Vec<(String, String)> = g.fields().rev().map(|(k, v)| (k.to_string(), v.to_string())).collect();
                back.reverse();
                if owned != want || back != want {
                    return Some(format!("after get({key:?}) the owning / reversed iterator disagrees with fields() [{}]", show(&want)));
                }
                if hint_bad(g.fields().size_hint(), want.len()) || hint_bad(g.fields().rev().size_hint(), want.len()) || hint_bad(g.clone().into_iter().size_hint(), want.len()) {
                    return Some(format!("after get({key:?}) size_hint {:?} excludes the {} fields left", g.fields().size_hint(), want.len()));
                }
                if g.fields_len() != want.len() || g.is_empty() != (want.is_empty() && !g.has_binary()) {
                    return Some(format!("after get({key:?}): fields_len()={} is_empty()={} with {} fields left", g.fields_len(), g.is_empty(), want.len()));
                }
                if round >= 3 {
                    break;
                }
            }
            if round < 3 && g.get(&key).is_some() {
                return Some(format!("get({key:?}) still yields a value after all fields with that key were taken"));
            }
        }
    }
    None
}

pub fn run(toks: &[&str]) -> String {
    let wire = unhex(toks[1]);
    let Some(resp) = response_of_wire(&wire) else { return "noresponse".into() };
    if let Some(d) = collections_differ(&resp).or_else(|| accessors_differ(&resp)) {
        return format!("INCONSISTENT {d}");
    }
    match toks[0] {
        "frame" => {
            let Some(Ok(mut frame)) = resp.into_iter().next() else { return "noframe".into() };
            let mut out = Vec::new();
            let mut consumed: Option<String> = None;
            let ops: Vec<&str> = toks[2..].to_vec();
            let mut frame_opt = Some(frame.clone());
            let _ = &mut frame;
            for op in ops {
                let Some(fr) = frame_opt.as_mut() else { break };
                let (name, arg) = op.split_once(':').unwrap_or((op, ""));
                match name {
                    "find" => {
                        let k = unhex_str(arg).unwrap_or_default();
                        out.push(format!("v={}", show_opt(fr.find(&k).map(|s| s.as_bytes()))));
                    }
                    "get" => {
                        let k = unhex_str(arg).unwrap_or_default();
                        let v = fr.get(&k);
                        out.push(format!("v={}", show_opt(v.as_deref().map(|s| s.as_bytes()))));
                    }
                    "len" => out.push(format!("n={}", fr.fields_len())),
                    "empty" => out.push(format!("b={}", fr.is_empty() as u8)),
                    "hasbin" => out.push(format!("b={}", fr.has_binary() as u8)),
                    "bin" => out.push(format!("v={}", show_opt(fr.binary()))),
                    "takebin" => {
                        let b = fr.take_binary();
                        out.push(format!("v={}", show_opt(b.as_deref())));
                    }
                    "iter" => {
                        // alternate between Frame::fields() and (&frame).into_iter()
                        let mut it = if arg.len() % 2 == 0 { fr.fields() } else { (&*fr).into_iter() };
                        let mut items = Vec::new();
                        for d in arg.chars() {
                            match d {
                                'f' => items.push(show_pair(it.next())),
                                'b' => items.push(show_pair(it.next_back())),
                                '0'..='9' => items.push(show_pair(it.nth(d as usize - '0' as usize))),
                                'A'..='J' => items.push(show_pair(it.nth_back(d as usize - 'A' as usize))),
                                _ => {}
                            }
                        }
                        out.push(format!("p=[{}]", items.join(",")));
                    }
                    "into" => {
                        let owned = frame_opt.take().unwrap();
                        let mut it = owned.into_iter();
                        let mut items = Vec::new();
                        for d in arg.chars() {
                            match d {
                                'f' => items.push(match it.next() {
                                    Some((k, v)) => format!("{}:{}", hex(k.as_bytes()), hex(v.as_bytes())),
                                    None => "~".into(),
                                }),
                                'b' => items.push(match it.next_back() {
                                    Some((k, v)) => format!("{}:{}", hex(k.as_bytes()), hex(v.as_bytes())),
                                    None => "~".into(),
                                }),
                                't' => items.push(format!("B{}", show_opt(it.take_binary().as_deref()))),
                                '0'..='9' => items.push(match it.nth(d as usize - '0' as usize) {
                                    Some((k, v)) => format!("{}:{}", hex(k.as_bytes()), hex(v.as_bytes())),
                                    None => "~".into(),
                                }),
                                'A'..='J' => items.push(match it.nth_back(d as usize - 'A' as usize) {
                                    Some((k, v)) => format!("{}:{}", hex(k.as_bytes()), hex(v.as_bytes())),
                                    None => "~".into(),
                                }),
                                _ => {}
                            }
                        }
                        consumed = Some(format!("m=[{}]", items.join(",")));
                    }
                    _ => out.push("badop".into()),
                }
            }
            if let Some(c) = consumed {
                out.push(c);
            }
            out.join(" ; ")
        }
        "resp" => {
            let dirs = toks[3];
            let mut items = Vec::new();
            if toks[2] == "ref" {
                let mut it = if dirs.len() % 2 == 0 { resp.frames() } else { (&resp).into_iter() };
                for d in dirs.chars() {
                    let (lo, hi) = it.size_hint();
                    let sz = if hi == Some(lo) && it.len() == lo { lo.to_string() } else { format!("{}?{:?}", lo, hi) };
                    let item = match d {
                        'f' => it.next(),
                        '0'..='9' => it.nth(d as usize - '0' as usize),
                        'A'..='J' => it.nth_back(d as usize - 'A' as usize),
                        _ => it.next_back(),
                    };
                    items.push(format!(
                        "{}:{}",
                        sz,
                        match item {
                            Some(Ok(f)) => frame_brief(f),
                            Some(Err(e)) => format!("E{}", e.code),
                            None => "~".into(),
                        }
                    ));
                }
            } else {
                let mut it = resp.into_iter();
                for d in dirs.chars() {
                    let (lo, hi) = it.size_hint();
                    let sz = if hi == Some(lo) && it.len() == lo { lo.to_string() } else { format!("{}?{:?}", lo, hi) };
                    let item = match d {
                        'f' => it.next(),
                        '0'..='9' => it.nth(d as usize - '0' as usize),
                        'A'..='J' => it.nth_back(d as usize - 'A' as usize),
                        _ => it.next_back(),
                    };
                    items.push(format!(
                        "{}:{}",
                        sz,
                        match item {
                            Some(Ok(f)) => frame_brief(&f),
                            Some(Err(e)) => format!("E{}", e.code),
                            None => "~".into(),
                        }
                    ));
                }
            }
            format!("[{}]", items.join(","))
        }
        _ => "unknown-kind".into(),
    }
}
