//! C06 / C07 / C13 (framing): command building, argument escaping/rollback, list rendering.
//! The command bytes are observed the only public way: what `Connection::send/send_list` writes.
use std::borrow::Cow;
use std::cell::RefCell;
use std::io::{Cursor, Read, Write};
use std::rc::Rc;
use std::time::Duration;

use bytes::{BufMut, BytesMut};
use mpd_protocol::command::{Argument, Command, CommandList};
use mpd_protocol::Connection;

use crate::util::*;

pub struct CaptureIo {
    input: Cursor<Vec<u8>>,
    pub out: Rc<RefCell<Vec<u8>>>,
}

impl Read for CaptureIo {
    fn read(&mut self, buf: &mut [u8]) -> std::io::Result<usize> {
        self.input.read(buf)
    }
}

impl Write for CaptureIo {
    fn write(&mut self, buf: &[u8]) -> std::io::Result<usize> {
        self.out.borrow_mut().extend_from_slice(buf);
        Ok(buf.len())
    }
    fn flush(&mut self) -> std::io::Result<()> {
        Ok(())
    }
}

pub fn capture_conn() -> (Connection<CaptureIo>, Rc<RefCell<Vec<u8>>>) {
    let out = Rc::new(RefCell::new(Vec::new()));
    let io = CaptureIo {
        input: Cursor::new(b"OK MPD 0.23.5\n".to_vec()),
        out: out.clone(),
    };
    (Connection::connect(io).expect("greeting"), out)
}

/// A transport whose writes take at most `cap` bytes per call (blocking and async), as a nearly full socket buffer does.
pub struct LimitedIo {
    input: Cursor<Vec<u8>>,
    pub out: Rc<RefCell<Vec<u8>>>,
    cap: usize,
}

impl Read for LimitedIo {
    fn read(&mut self, buf: &mut [u8]) -> std::io::Result<usize> {
        self.input.read(buf)
    }
}

impl Write for LimitedIo {
    fn write(&mut self, buf: &[u8]) -> std::io::Result<usize> {
        let n = buf.len().min(self.cap);
        self.out.borrow_mut().extend_from_slice(&buf[..n]);
        Ok(n)
    }
    fn flush(&mut self) -> std::io::Result<()> {
        Ok(())
    }
}

impl tokio::io::AsyncRead for LimitedIo {
    fn poll_read(mut self: std::pin::Pin<&mut Self>, _cx: &mut std::task::Context<'_>, buf: &mut tokio::io::ReadBuf<'_>) -> std::task::Poll<std::io::Result<()>> {
        let pos = self.input.position() as usize;
        let data = self.input.get_ref();
        if pos >= data.len() {
            return std::task::Poll::Pending; // the server says nothing more; nobody reads after the greeting here
        }
        let n = (data.len() - pos).min(buf.remaining());
        buf.put_slice(&data[pos..pos + n]);
        self.input.set_position((pos + n) as u64);
        std::task::Poll::Ready(Ok(()))
    }
}

impl tokio::io::AsyncWrite for LimitedIo {
    fn poll_write(self: std::pin::Pin<&mut Self>, _cx: &mut std::task::Context<'_>, buf: &[u8]) -> std::task::Poll<std::io::Result<usize>> {
        let n = buf.len().min(self.cap);
        self.out.borrow_mut().extend_from_slice(&buf[..n]);
        std::task::Poll::Ready(Ok(n))
    }
    fn poll_flush(self: std::pin::Pin<&mut Self>, _cx: &mut std::task::Context<'_>) -> std::task::Poll<std::io::Result<()>> {
        std::task::Poll::Ready(Ok(()))
    }
    fn poll_shutdown(self: std::pin::Pin<&mut Self>, _cx: &mut std::task::Context<'_>) -> std::task::Poll<std::io::Result<()>> {
        std::task::Poll::Ready(Ok(()))
    }
}

fn limited(cap: usize) -> (LimitedIo, Rc<RefCell<Vec<u8>>>) {
    let out = Rc::new(RefCell::new(Vec::new()));
    (LimitedIo { input: Cursor::new(b"OK MPD 0.23.5\n".to_vec()), out: out.clone(), cap }, out)
}

enum Sendable<'a> {
    One(&'a Command),
    List(&'a CommandList),
}

/// What reaches the wire must not depend on the connection flavour or on how many bytes the transport takes per write:
/// the same request, followed by `ping`, through the blocking and the async connection over transports that take 1, 7
/// or 64 bytes per call.  Returns a description of the first difference.
fn wire_differs(what: &Sendable<'_>, expected: &[u8]) -> Option<String> {
    let mut want = expected.to_vec();
    want.extend_from_slice(b"ping\n");
    for cap in [1usize, 7, 64] {
        let (io, out) = limited(cap);
        let mut conn = Connection::connect(io).expect("greeting");
        let r = match what {
            Sendable::One(c) => conn.send((*c).clone()),
            Sendable::List(l) => conn.send_list((*l).clone()),
        };
        let r2 = conn.send(Command::new("ping"));
        let got = out.borrow().clone();
        if r.is_err() || r2.is_err() || got != want {
            return Some(format!("blocking,{cap}-byte-writes:{}", hex(&got)));
        }
        let (io, out) = limited(cap);
        let rt = tokio::runtime::Builder::new_current_thread().build().unwrap();
        let ok = rt.block_on(async {
            let mut conn = mpd_protocol::AsyncConnection::connect(io).await.expect("greeting");
            let r = match what {
                Sendable::One(c) => conn.send((*c).clone()).await,
                Sendable::List(l) => conn.send_list((*l).clone()).await,
            };
            let r2 = conn.send(Command::new("ping")).await;
            r.is_ok() && r2.is_ok()
        });
        let got = out.borrow().clone();
        if !ok || got != want {
            return Some(format!("async,{cap}-byte-writes:{}", hex(&got)));
        }
    }
    None
}

pub fn sent_bytes(c: &Command) -> Vec<u8> {
    let (mut conn, out) = capture_conn();
    conn.send(c.clone()).unwrap();
    let v = out.borrow().clone();
    if let Some(d) = wire_differs(&Sendable::One(c), &v) {
        return format!("WIRE-DIFFERS {d} whole-writes:{}", hex(&v)).into_bytes();
    }
    v
}

pub fn sent_list_bytes(l: CommandList) -> Vec<u8> {
    let (mut conn, out) = capture_conn();
    conn.send_list(l.clone()).unwrap();
    let v = out.borrow().clone();
    if let Some(d) = wire_differs(&Sendable::List(&l), &v) {
        return format!("WIRE-DIFFERS {d} whole-writes:{}", hex(&v)).into_bytes();
    }
    v
}

/// A user-defined renderer that emits arbitrary bytes.
pub struct Raw(pub Vec<u8>);
impl Argument for Raw {
    fn render(&self, buf: &mut BytesMut) {
        buf.put_slice(&self.0);
    }
}

/// A user-defined renderer with state: it emits `bad` on its k-th call and `good` on every other one.  Whatever bytes end up in
/// the command must be bytes that were checked.
pub struct Flip {
    pub calls: std::cell::Cell<u32>,
    pub k: u32,
    pub good: Vec<u8>,
    pub bad: Vec<u8>,
}
impl Argument for Flip {
    fn render(&self, buf: &mut BytesMut) {
        let n = self.calls.get() + 1;
        self.calls.set(n);
        buf.put_slice(if n == self.k { &self.bad } else { &self.good });
    }
}

/// Adding an argument whose renderer answers differently from call to call: if it is accepted, what is sent is still one line.
fn stateful_renderer_breaks(c: &Command, good: &[u8]) -> Option<String> {
    if good.contains(&b'\n') {
        return None;
    }
    for k in 1..=4u32 {
        for tail in [&b"\nkill"[..], &b"\ncommand_list_end\nkill"[..], &b"\n"[..]] {
            let mut bad = good.to_vec();
            bad.extend_from_slice(tail);
            let mut c2 = c.clone();
            let before = sent_bytes(&c2);
            let arg = Flip { calls: std::cell::Cell::new(0), k, good: good.to_vec(), bad };
            let r = c2.add_argument(arg);
            let sent = sent_bytes(&c2);
            let lfs = sent.iter().filter(|b| **b == b'\n').count();
            if lfs != 1 || sent.last() != Some(&b'\n') {
                return Some(format!("an argument whose renderer emits a line feed on its call #{k} only was {}; the command now sends {} lines: {}",
                                    if r.is_ok() { "accepted" } else { "rejected" }, lfs, hex(&sent)));
            }
            if r.is_err() && sent != before {
                return Some(format!("a rejected argument (renderer with a line feed on call #{k}) changed the command: {} -> {}", hex(&before), hex(&sent)));
            }
        }
    }
    None
}

fn err_kind(e: &mpd_protocol::command::CommandError) -> String {
    let s = format!("{}", e);
    if s == "empty command" {
        "err empty".into()
    } else if s.starts_with("attempted to open or close a command list") {
        "err list".into()
    } else if let Some(rest) = s.strip_prefix("invalid character ") {
        // invalid character 'x' at position N in ...
        let pos = rest
            .split(" at position ")
            .nth(1)
            .and_then(|r| r.split(' ').next())
            .unwrap_or("?");
        format!("err char {}", pos)
    } else {
        format!("err other {}", hex(s.as_bytes()))
    }
}

/// Apply one argument spec; returns Ok(()) / Err(kind) / None if the spec cannot be built.
fn add_spec(c: &mut Command, spec: &str) -> Option<Result<(), String>> {
    let (ty, val) = spec.split_once(':')?;
    let r = match ty {
        "s" => c.add_argument(&*unhex_str(val)?),
        "S" => c.add_argument(unhex_str(val)?),
        "c" => c.add_argument(Cow::<str>::Owned(unhex_str(val)?)),
        "cb" => {
            let s = unhex_str(val)?;
            c.add_argument(Cow::<str>::Borrowed(&s))
        }
        "r" => c.add_argument(Raw(unhex(val))),
        // a hand-made catch-all tag: it renders its text verbatim, so it is checked like any other argument
        "t" => c.add_argument(mpd_client::tag::Tag::Other(unhex_str(val)?.into())),
        "b" => c.add_argument(val == "1"),
        "u8" => c.add_argument(val.parse::<u8>().ok()?),
        "u16" => c.add_argument(val.parse::<u16>().ok()?),
        "u32" => c.add_argument(val.parse::<u32>().ok()?),
        "u64" => c.add_argument(val.parse::<u64>().ok()?),
        "usize" => c.add_argument(val.parse::<usize>().ok()?),
        "d" => {
            let (s, n) = val.split_once('.')?;
            c.add_argument(Duration::new(s.parse().ok()?, n.parse().ok()?))
        }
        _ => return None,
    };
    Some(r.map_err(|e| err_kind(&e)))
}

fn build_simple(spec: &str) -> Option<Command> {
    // hexname,hexarg,hexarg... (arguments as &str)
    let mut parts = spec.split(',');
    let name = unhex_str(parts.next()?)?;
    let mut c = Command::build(&name).ok()?;
    for a in parts {
        if let Some(raw) = a.strip_prefix('~') {
            // an argument that renders itself verbatim (a user-defined Argument, a hand-made Tag::Other)
            c.add_argument(Raw(unhex(raw))).ok()?;
        } else {
            c.add_argument(&*unhex_str(a)?).ok()?;
        }
    }
    Some(c)
}

pub fn run(toks: &[&str]) -> String {
    match toks[0] {
        "cmd_build" => {
            let Some(name) = unhex_str(toks[1]) else { return "skip non-utf8".into() };
            // the panicking constructor must accept exactly what the checked one accepts, and build the same command
            let via_new = catch(|| Command::new(&name)).ok().map(|c| hex(&sent_bytes(&c)));
            match catch(|| Command::build(&name)) {
                Err(p) => format!("panic {}", hex(p.as_bytes())),
                Ok(Ok(c)) => {
                    let sent = hex(&sent_bytes(&c));
                    match via_new {
                        Some(n) if n == sent => format!("ok {sent}"),
                        other => format!("INCONSISTENT build=ok:{sent} new={}", other.unwrap_or_else(|| "panic".into())),
                    }
                }
                Ok(Err(e)) => match via_new {
                    None => err_kind(&e),
                    Some(n) => format!("INCONSISTENT build={} new=ok:{n}", err_kind(&e).replace(' ', "_")),
                },
            }
        }
        // cmd_args <hexname> <spec>... : result of every add_argument and the bytes sent after it
        "cmd_args" => {
            let Some(name) = unhex_str(toks[1]) else { return "skip non-utf8".into() };
            let mut c = match Command::build(&name) {
                Ok(c) => c,
                Err(e) => return err_kind(&e),
            };
            let mut out = vec![format!("ok {}", hex(&sent_bytes(&c)))];
            for spec in &toks[2..] {
                if let Some(raw) = spec.strip_prefix("r:") {
                    let c0 = c.clone();
                    let good = unhex(raw);
                    if let Ok(Some(d)) = catch(move || stateful_renderer_breaks(&c0, &good)) {
                        return format!("INCONSISTENT {}", d.replace(' ', "_"));
                    }
                }
                // the chaining builder `argument()` is "add_argument or panic": same acceptance, same bytes — in every build profile
                let before = c.clone();
                let spec_owned = spec.to_string();
                let chained: Result<Option<Vec<u8>>, String> = catch(move || {
                    let (ty, val) = spec_owned.split_once(':')?;
                    let c2 = match ty {
                        "s" => before.argument(&*unhex_str(val)?),
                        "S" => before.argument(unhex_str(val)?),
                        "c" => before.argument(Cow::<str>::Owned(unhex_str(val)?)),
                        "r" => before.argument(Raw(unhex(val))),
                        "t" => before.argument(mpd_client::tag::Tag::Other(unhex_str(val)?.into())),
                        _ => return None,
                    };
                    Some(sent_bytes(&c2))
                });
                match catch(|| add_spec(&mut c, spec)) {
                    Err(p) => return format!("panic {}", hex(p.as_bytes())),
                    Ok(None) => return "skip bad-spec".into(),
                    Ok(Some(Ok(()))) => {
                        let sent = sent_bytes(&c);
                        match &chained {
                            Ok(Some(b)) if *b != sent => return format!("INCONSISTENT argument()_sends_{}_where_add_argument_sends_{}", hex(b), hex(&sent)),
                            Err(_) => return format!("INCONSISTENT argument()_panics_on_an_argument_that_add_argument_accepts:_{}", spec),
                            _ => {}
                        }
                        out.push(format!("ok {}", hex(&sent)))
                    }
                    Ok(Some(Err(k))) => {
                        if let Ok(Some(b)) = &chained {
                            return format!("INCONSISTENT argument()_accepts_what_add_argument_rejects_({})_and_sends_{}", k.replace(' ', "_"), hex(b));
                        }
                        out.push(format!("{} {}", k.replace(' ', "_"), hex(&sent_bytes(&c))))
                    }
                }
            }
            out.join(" ; ")
        }
        // cmd_list <how> <cmd> <cmd> ... : bytes written by send_list
        "cmd_list" => {
            let how = toks[1];
            let mut cmds = Vec::new();
            for spec in &toks[2..] {
                match build_simple(spec) {
                    Some(c) => cmds.push(c),
                    None => return "skip bad-spec".into(),
                }
            }
            if cmds.is_empty() {
                return "skip empty".into();
            }
            let mut it = cmds.into_iter();
            let mut list = CommandList::new(it.next().unwrap());
            match how {
                "add" => {
                    for c in it {
                        list.add(c);
                    }
                }
                "command" => {
                    for c in it {
                        list = list.command(c);
                    }
                }
                _ => list.extend(it),
            }
            let n = list.len();
            format!("len={} bytes={}", n, hex(&sent_list_bytes(list)))
        }
        // cmd_biglist <how> <n> <argsize>: a list of n commands, each with one argument of argsize bytes (generated here): how many
        // lines open / close a list on the wire, how many lines and bytes in all
        "cmd_biglist" => {
            let how = toks[1];
            let n: usize = toks[2].parse().unwrap_or(0);
            let size: usize = toks[3].parse().unwrap_or(0);
            if n == 0 {
                return "skip empty".into();
            }
            let mk = |i: usize| {
                let mut a = format!("{i:06}");
                while a.len() < size {
                    a.push((b'a' + (a.len() % 26) as u8) as char);
                }
                Command::new("sticker").argument("get").argument("song").argument(a)
            };
            let mut list = CommandList::new(mk(0));
            match how {
                "add" => (1..n).for_each(|i| list.add(mk(i))),
                "command" => {
                    for i in 1..n {
                        list = list.command(mk(i));
                    }
                }
                _ => list.extend((1..n).map(mk)),
            }
            let len = list.len();
            let bytes = sent_list_bytes(list);
            if bytes.starts_with(b"WIRE-DIFFERS") {
                return String::from_utf8_lossy(&bytes[..bytes.len().min(300)]).into_owned();
            }
            let lines: Vec<&[u8]> = bytes.split(|b| *b == b'\n').collect();
            let begins = lines.iter().filter(|l| l.starts_with(b"command_list_ok_begin") || l.starts_with(b"command_list_begin")).count();
            let ends = lines.iter().filter(|l| **l == b"command_list_end").count();
            let cmds = lines.iter().filter(|l| l.starts_with(b"sticker get song ")).count();
            let in_order = lines.iter().filter(|l| l.starts_with(b"sticker get song ")).enumerate().all(|(i, l)| l[17..].starts_with(format!("{i:06}").as_bytes()) || l[17..].starts_with(format!("\"{i:06}").as_bytes()));
            format!("len={len} begins={begins} ends={ends} commands={cmds} in_order={} bytes={} last_is_end={}", in_order as u8, bytes.len(),
                    (lines.len() >= 2 && lines[lines.len() - 2] == b"command_list_end" && lines[lines.len() - 1].is_empty()) as u8)
        }
        "escape" => {
            let Some(s) = unhex_str(toks[1]) else { return "skip non-utf8".into() };
            hex(mpd_protocol::command::escape_argument(&s).as_bytes())
        }
        _ => "unknown-kind".into(),
    }
}
