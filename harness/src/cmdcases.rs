//! C06 / C07 / C13 (framing): command building, argument escaping/rollback, list rendering.
//! The command bytes are observed the only public way: what `Connection::send/send_list` writes.
use std::borrow::Cow;
use std::cell::RefCell;
use std::io::{Cursor, Read, Write};
use std::rc::Rc;
use std::time::Duration;

use bytes::{BufMut, BytesMut};
use mpd_protocol::command::{Argument, Command, CommandList};
use mpd_protocol::Connection;

use crate::util::*;

pub struct CaptureIo {
    input: Cursor<Vec<u8>>,
    pub out: Rc<RefCell<Vec<u8>>>,
}

impl Read for CaptureIo {
    fn read(&mut self, buf: &mut [u8]) -> std::io::Result<usize> {
        self.input.read(buf)
    }
}

impl Write for CaptureIo {
    fn write(&mut self, buf: &[u8]) -> std::io::Result<usize> {
        self.out.borrow_mut().extend_from_slice(buf);
        Ok(buf.len())
    }
    fn flush(&mut self) -> std::io::Result<()> {
        Ok(())
    }
}

pub fn capture_conn() -> (Connection<CaptureIo>, Rc<RefCell<Vec<u8>>>) {
    let out = Rc::new(RefCell::new(Vec::new()));
    let io = CaptureIo {
        input: Cursor::new(b"OK MPD 0.23.5\n".to_vec()),
        out: out.clone(),
    };
    (Connection::connect(io).expect("greeting"), out)
}

pub fn sent_bytes(c: &Command) -> Vec<u8> {
    let (mut conn, out) = capture_conn();
    conn.send(c.clone()).unwrap();
    let v = out.borrow().clone();
    v
}

pub fn sent_list_bytes(l: CommandList) -> Vec<u8> {
    let (mut conn, out) = capture_conn();
    conn.send_list(l).unwrap();
    let v = out.borrow().clone();
    v
}

/// A user-defined renderer that emits arbitrary bytes.
pub struct Raw(pub Vec<u8>);
impl Argument for Raw {
    fn render(&self, buf: &mut BytesMut) {
        buf.put_slice(&self.0);
    }
}

fn err_kind(e: &mpd_protocol::command::CommandError) -> String {
    let s = format!("{}", e);
    if s == "empty command" {
        "err empty".into()
    } else if s.starts_with("attempted to open or close a command list") {
        "err list".into()
    } else if let Some(rest) = s.strip_prefix("invalid character ") {
        // invalid character 'x' at position N in ...
        let pos = rest
            .split(" at position ")
            .nth(1)
            .and_then(|r| r.split(' ').next())
            .unwrap_or("?");
        format!("err char {}", pos)
    } else {
        format!("err other {}", hex(s.as_bytes()))
    }
}

/// Apply one argument spec; returns Ok(()) / Err(kind) / None if the spec cannot be built.
fn add_spec(c: &mut Command, spec: &str) -> Option<Result<(), String>> {
    let (ty, val) = spec.split_once(':')?;
    let r = match ty {
        "s" => c.add_argument(&*unhex_str(val)?),
        "S" => c.add_argument(unhex_str(val)?),
        "c" => c.add_argument(Cow::<str>::Owned(unhex_str(val)?)),
        "cb" => {
            let s = unhex_str(val)?;
            c.add_argument(Cow::<str>::Borrowed(&s))
        }
        "r" => c.add_argument(Raw(unhex(val))),
        "b" => c.add_argument(val == "1"),
        "u8" => c.add_argument(val.parse::<u8>().ok()?),
        "u16" => c.add_argument(val.parse::<u16>().ok()?),
        "u32" => c.add_argument(val.parse::<u32>().ok()?),
        "u64" => c.add_argument(val.parse::<u64>().ok()?),
        "usize" => c.add_argument(val.parse::<usize>().ok()?),
        "d" => {
            let (s, n) = val.split_once('.')?;
            c.add_argument(Duration::new(s.parse().ok()?, n.parse().ok()?))
        }
        _ => return None,
    };
    Some(r.map_err(|e| err_kind(&e)))
}

fn build_simple(spec: &str) -> Option<Command> {
    // hexname,hexarg,hexarg... (arguments as &str)
    let mut parts = spec.split(',');
    let name = unhex_str(parts.next()?)?;
    let mut c = Command::build(&name).ok()?;
    for a in parts {
        c.add_argument(&*unhex_str(a)?).ok()?;
    }
    Some(c)
}

pub fn run(toks: &[&str]) -> String {
    match toks[0] {
        "cmd_build" => {
            let Some(name) = unhex_str(toks[1]) else { return "skip non-utf8".into() };
            match catch(|| Command::build(&name)) {
                Err(p) => format!("panic {}", hex(p.as_bytes())),
                Ok(Ok(c)) => format!("ok {}", hex(&sent_bytes(&c))),
                Ok(Err(e)) => err_kind(&e),
            }
        }
        // cmd_args <hexname> <spec>... : result of every add_argument and the bytes sent after it
        "cmd_args" => {
            let Some(name) = unhex_str(toks[1]) else { return "skip non-utf8".into() };
            let mut c = match Command::build(&name) {
                Ok(c) => c,
                Err(e) => return err_kind(&e),
            };
            let mut out = vec![format!("ok {}", hex(&sent_bytes(&c)))];
            for spec in &toks[2..] {
                match catch(|| add_spec(&mut c, spec)) {
                    Err(p) => return format!("panic {}", hex(p.as_bytes())),
                    Ok(None) => return "skip bad-spec".into(),
                    Ok(Some(Ok(()))) => out.push(format!("ok {}", hex(&sent_bytes(&c)))),
                    Ok(Some(Err(k))) => out.push(format!("{} {}", k.replace(' ', "_"), hex(&sent_bytes(&c)))),
                }
            }
            out.join(" ; ")
        }
        // cmd_list <how> <cmd> <cmd> ... : bytes written by send_list
        "cmd_list" => {
            let how = toks[1];
            let mut cmds = Vec::new();
            for spec in &toks[2..] {
                match build_simple(spec) {
                    Some(c) => cmds.push(c),
                    None => return "skip bad-spec".into(),
                }
            }
            if cmds.is_empty() {
                return "skip empty".into();
            }
            let mut it = cmds.into_iter();
            let mut list = CommandList::new(it.next().unwrap());
            match how {
                "add" => {
                    for c in it {
                        list.add(c);
                    }
                }
                "command" => {
                    for c in it {
                        list = list.command(c);
                    }
                }
                _ => list.extend(it),
            }
            let n = list.len();
            format!("len={} bytes={}", n, hex(&sent_list_bytes(list)))
        }
        "escape" => {
            let Some(s) = unhex_str(toks[1]) else { return "skip non-utf8".into() };
            hex(mpd_protocol::command::escape_argument(&s).as_bytes())
        }
        _ => "unknown-kind".into(),
    }
}
