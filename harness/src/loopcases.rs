//! C01 / C04 / C05 / C08 / C13 / C17 / C18 (password): replayer for the real `Client` and its run
//! loop.  A scripted in-memory transport (harness-controlled inbox, EOF / error switches, write
//! log, drop flag), a current-thread tokio runtime with the clock paused, and a schedule of
//! operations; after every operation the runtime is driven until every task is pending, then the
//! new writes, resolved futures, events and flags are logged as one trace segment.
//!
//! case line:  loop <connect-spec> <op> <op> ...
//!   connect-spec  p~ (Client::connect) | o~ (connect_with_password_opt(None)) |
//!                 p:<hexpw> (connect_with_password) | o:<hexpw> (connect_with_password_opt(Some))
//!   ops   d:<hex>            deliver bytes to the client's inbox
//!         i<id>:<spec>,..    raw_command_list        c<id>:<spec>  raw_command
//!         v<id>:<any>,..     typed Vec list          y<id>:<any>,.. typed tuple list (arity 1..8)
//!         a<id>:<hexuri>     album_art
//!         x<id>              cancel (abort the caller's task)
//!         t<ms>              advance the paused clock
//!         h                  drop the harness's client handle
//!         e / r / w          end of stream / failing reads / failing writes from now on
//!         p / u              the peer stops / resumes reading (writes block: back-pressure)
//!         k<n>               the transport takes at most n bytes per write call (0 = all)
//!         q / Q              the application stops / resumes polling ConnectionEvents
//!         A                  from now on a built-in rule-abiding echo server answers what the client writes
//!         n:<hexname>        (auto mode) a subsystem changes
//!         z<id>:<spec>;<hexname>   (auto mode) a change and a raw_command in the same instant (select! tie)
//!   spec  <name>[.<hexarg>]*       any  u<hexuri> | r<hexuri> | s
use std::collections::{BTreeMap, VecDeque};
use std::future::Future;
use std::io;
use std::pin::Pin;
use std::sync::atomic::Ordering;
use std::sync::{Arc, Mutex};
use std::task::{Context, Poll, Wake, Waker};
use std::time::Duration;

use mpd_client::client::{CommandError, ConnectWithPasswordError, ConnectionError, ConnectionEvent, ConnectionEvents};
use mpd_client::commands::{Command as TypedCommand, Rescan, Stop, Update};
use mpd_client::responses::TypedResponseError;
use mpd_client::Client;
use mpd_protocol::command::{Command as RawCommand, CommandList as RawCommandList};
use mpd_protocol::response::Frame;
use mpd_protocol::MpdProtocolError;
use tokio::io::{AsyncRead, AsyncWrite, ReadBuf};
use tokio::task::JoinHandle;

use crate::util::*;

#[derive(Default)]
struct Shared {
    inbox: VecDeque<u8>,
    eof: bool,
    rerr: bool,
    /// the kind of the injected read error (r<k>)
    rkind: Option<io::ErrorKind>,
    werr: bool,
    /// w<k> with k >= 1: writes do not fail, they take nothing (Ok(0)): write_all reports that as an error (WriteZero)
    wzero: bool,
    zero_writes: usize,
    failed_reads: usize,
    written: Vec<u8>,
    waker: Option<Waker>,
    dropped: bool,
    wpaused: bool,
    wwaker: Option<Waker>,
    /// the transport takes at most this many bytes per write call (0 = everything)
    wlimit: usize,
    /// bytes written by the client that the built-in server (auto mode) has not looked at yet
    srv_in: Vec<u8>,
    auto: Option<AutoServer>,
}

/// A minimal rule-abiding MPD server living inside the transport (op `A`): used for schedules whose
/// continuation depends on which select! branch tokio picks, where a scripted peer cannot be prepared.
#[derive(Default)]
struct AutoServer {
    idle: bool,
    pending: Vec<String>,
    list: Option<Vec<String>>,
    violated: bool,
}

impl AutoServer {
    fn exec(line: &str, idx: usize) -> Result<String, String> {
        let mut it = line.split(' ');
        match it.next() {
            Some("fail") => Err(format!("ACK [{}@{}] {{fail}} boom\n", it.next().unwrap_or("50"), idx)),
            _ => Ok(format!("line: {}\n", line)),
        }
    }
    fn flush(&mut self) -> String {
        self.idle = false;
        let mut out = String::new();
        for p in self.pending.drain(..) {
            out.push_str(&format!("changed: {}\n", p));
        }
        out.push_str("OK\n");
        out
    }
    fn line(&mut self, line: &str) -> String {
        if self.idle {
            if line == "noidle" {
                return self.flush();
            }
            self.violated = true;
            return String::new();
        }
        if let Some(acc) = self.list.as_mut() {
            if line == "command_list_end" {
                let acc = self.list.take().unwrap();
                let mut out = String::new();
                for (i, l) in acc.iter().enumerate() {
                    match Self::exec(l, i) {
                        Ok(b) => {
                            out.push_str(&b);
                            out.push_str("list_OK\n");
                        }
                        Err(a) => return out + &a,
                    }
                }
                return out + "OK\n";
            }
            acc.push(line.to_string());
            return String::new();
        }
        match line {
            "idle" => {
                if self.pending.is_empty() {
                    self.idle = true;
                    String::new()
                } else {
                    self.flush()
                }
            }
            "noidle" => String::new(),
            "command_list_ok_begin" => {
                self.list = Some(Vec::new());
                String::new()
            }
            l => match Self::exec(l, 0) {
                Ok(b) => b + "OK\n",
                Err(a) => a,
            },
        }
    }
    fn notify(&mut self, name: &str) -> String {
        self.pending.push(name.to_string());
        if self.idle {
            self.flush()
        } else {
            String::new()
        }
    }
}

struct Transport(Arc<Mutex<Shared>>);

impl AsyncRead for Transport {
    fn poll_read(self: Pin<&mut Self>, cx: &mut Context<'_>, buf: &mut ReadBuf<'_>) -> Poll<io::Result<()>> {
        let mut s = self.0.lock().unwrap();
        if s.rerr {
            // persistent failure (e.g. a reset connection): nothing more is ever read.  A reader that keeps retrying it would spin
            // forever: after 10000 failed reads in a row that is reported (as PANIC) and the kind changes so that the run can end.
            s.failed_reads += 1;
            if s.failed_reads > 10_000 {
                if s.failed_reads == 10_001 {
                    PANIC_COUNT.fetch_add(1, Ordering::SeqCst);
                }
                return Poll::Ready(Err(io::Error::new(io::ErrorKind::BrokenPipe, "gave up after 10000 failed reads")));
            }
            return Poll::Ready(Err(io::Error::new(s.rkind.unwrap_or(io::ErrorKind::ConnectionReset), "injected read error")));
        }
        if !s.inbox.is_empty() {
            let n = s.inbox.len().min(buf.remaining());
            for _ in 0..n {
                let b = s.inbox.pop_front().unwrap();
                buf.put_slice(&[b]);
            }
            return Poll::Ready(Ok(()));
        }
        if s.eof {
            return Poll::Ready(Ok(()));
        }
        s.waker = Some(cx.waker().clone());
        Poll::Pending
    }
}

impl AsyncWrite for Transport {
    fn poll_write(self: Pin<&mut Self>, _cx: &mut Context<'_>, buf: &[u8]) -> Poll<io::Result<usize>> {
        let mut s = self.0.lock().unwrap();
        if s.werr && s.wzero {
            s.zero_writes += 1;
            if s.zero_writes > 10_000 {
                // the writer keeps retrying a transport that takes nothing: it would spin forever.  Counted like a panic (shown as
                // PANIC in the segment); the write then fails for good so that the run can be finished and printed.
                if s.zero_writes == 10_001 {
                    PANIC_COUNT.fetch_add(1, Ordering::SeqCst);
                }
                return Poll::Ready(Err(io::Error::new(io::ErrorKind::BrokenPipe, "gave up after 10000 zero-length writes")));
            }
            return Poll::Ready(Ok(0));
        }
        if s.werr {
            return Poll::Ready(Err(io::Error::new(io::ErrorKind::BrokenPipe, "injected write error")));
        }
        if s.wpaused {
            // back-pressure: the peer does not read
            s.wwaker = Some(_cx.waker().clone());
            return Poll::Pending;
        }
        let n = if s.wlimit == 0 { buf.len() } else { buf.len().min(s.wlimit) };
        s.written.extend_from_slice(&buf[..n]);
        s.srv_in.extend_from_slice(&buf[..n]);
        Poll::Ready(Ok(n))
    }
    fn poll_flush(self: Pin<&mut Self>, _cx: &mut Context<'_>) -> Poll<io::Result<()>> {
        Poll::Ready(Ok(()))
    }
    fn poll_shutdown(self: Pin<&mut Self>, _cx: &mut Context<'_>) -> Poll<io::Result<()>> {
        Poll::Ready(Ok(()))
    }
}

impl Drop for Transport {
    fn drop(&mut self) {
        self.0.lock().unwrap().dropped = true;
    }
}

fn wake_reader(sh: &Arc<Mutex<Shared>>) {
    let w = sh.lock().unwrap().waker.take();
    if let Some(w) = w {
        w.wake();
    }
}

struct Noop;
impl Wake for Noop {
    fn wake(self: Arc<Self>) {}
}

fn show_frame(fr: &Frame) -> String {
    let fields: Vec<String> = fr
        .fields()
        .map(|(k, v)| format!("{}:{}", hex(k.as_bytes()), hex(v.as_bytes())))
        .collect();
    let bin = match fr.binary() {
        Some(b) => hex(b),
        None => "~".to_string(),
    };
    format!("({})bin={}", fields.join(","), bin)
}

fn show_perr(e: &MpdProtocolError) -> &'static str {
    match e {
        MpdProtocolError::InvalidMessage => "invalid",
        MpdProtocolError::Io(e) if e.to_string().contains("injected") => "io",
        MpdProtocolError::Io(e) if e.kind() == io::ErrorKind::UnexpectedEof => "ueof",
        MpdProtocolError::Io(_) => "io",
    }
}

fn show_cmd_err(e: &CommandError) -> String {
    match e {
        CommandError::ConnectionClosed => "closed".into(),
        CommandError::Protocol(e) => format!("proto:{}", show_perr(e)),
        CommandError::ErrorResponse { error, succesful_frames } => format!(
            "ack({},{},{},{})[{}]",
            error.code,
            error.command_index,
            match &error.current_command {
                Some(c) => hex(c.as_bytes()),
                None => "~".to_string(),
            },
            hex(error.message.as_bytes()),
            succesful_frames.iter().map(show_frame).collect::<Vec<_>>().join("/")
        ),
        CommandError::InvalidTypedResponse(_) => "typed".into(),
    }
}

fn raw_of_spec(spec: &str) -> RawCommand {
    let mut parts = spec.split('.');
    let name = parts.next().unwrap_or("");
    if name == "big" {
        // big.<hex of a decimal n>: echo with one argument of n bytes (see DriverLoop.parse_spec)
        let n: usize = parts.next().and_then(unhex_str).and_then(|d| d.parse().ok()).unwrap_or(0);
        return RawCommand::new("echo").argument("x".repeat(n));
    }
    let mut c = RawCommand::new(name);
    for a in parts {
        c = c.argument(unhex_str(a).unwrap_or_default());
    }
    c
}

/// A command type covering a few predefined commands with distinguishable typed replies, so that
/// tuples of every arity and vectors can be instantiated monomorphically.
enum Any {
    Upd(String),
    Resc(String),
    Stop,
    /// a command whose reply carries a binary part (the chunk is summarised by a checksum)
    Art(String),
}

fn data_sum(d: &[u8]) -> u64 {
    d.iter().fold(d.len() as u64, |a, x| (a * 31 + *x as u64) % 4294967296)
}

impl Any {
    fn of(spec: &str) -> Any {
        match spec.as_bytes().first() {
            Some(b'u') => Any::Upd(unhex_str(&spec[1..]).unwrap_or_default()),
            Some(b'r') => Any::Resc(unhex_str(&spec[1..]).unwrap_or_default()),
            Some(b'a') => Any::Art(unhex_str(&spec[1..]).unwrap_or_default()),
            _ => Any::Stop,
        }
    }
}

impl TypedCommand for Any {
    type Response = Option<u64>;
    fn command(&self) -> RawCommand {
        match self {
            Any::Upd(u) => Update::new().uri(u).command(),
            Any::Resc(u) => Rescan::new().uri(u).command(),
            Any::Stop => Stop.command(),
            Any::Art(u) => mpd_client::commands::AlbumArt::new(u).command(),
        }
    }
    fn response(self, frame: Frame) -> Result<Self::Response, TypedResponseError> {
        match self {
            Any::Upd(u) => Update::new().uri(&u).response(frame).map(Some),
            Any::Resc(u) => Rescan::new().uri(&u).response(frame).map(Some),
            Any::Stop => Stop.response(frame).map(|_| None),
            Any::Art(u) => mpd_client::commands::AlbumArt::new(&u).response(frame).map(|a| a.map(|a| data_sum(&a.data))),
        }
    }
}

fn show_ids(v: &[Option<u64>]) -> String {
    format!(
        "ok[{}]",
        v.iter()
            .map(|x| match x {
                Some(n) => n.to_string(),
                None => "~".into(),
            })
            .collect::<Vec<_>>()
            .join(",")
    )
}

async fn typed_tuple(client: Client, specs: Vec<String>) -> String {
    let mut it = specs.iter().map(|s| Any::of(s));
    macro_rules! n {
        () => {
            it.next().unwrap()
        };
    }
    let r: Result<Vec<Option<u64>>, CommandError> = match specs.len() {
        1 => client.command_list((n!(),)).await.map(|t| vec![t.0]),
        2 => client.command_list((n!(), n!())).await.map(|t| vec![t.0, t.1]),
        3 => client.command_list((n!(), n!(), n!())).await.map(|t| vec![t.0, t.1, t.2]),
        4 => client.command_list((n!(), n!(), n!(), n!())).await.map(|t| vec![t.0, t.1, t.2, t.3]),
        5 => client
            .command_list((n!(), n!(), n!(), n!(), n!()))
            .await
            .map(|t| vec![t.0, t.1, t.2, t.3, t.4]),
        6 => client
            .command_list((n!(), n!(), n!(), n!(), n!(), n!()))
            .await
            .map(|t| vec![t.0, t.1, t.2, t.3, t.4, t.5]),
        7 => client
            .command_list((n!(), n!(), n!(), n!(), n!(), n!(), n!()))
            .await
            .map(|t| vec![t.0, t.1, t.2, t.3, t.4, t.5, t.6]),
        8 => client
            .command_list((n!(), n!(), n!(), n!(), n!(), n!(), n!(), n!()))
            .await
            .map(|t| vec![t.0, t.1, t.2, t.3, t.4, t.5, t.6, t.7]),
        _ => return "bad-arity".into(),
    };
    match r {
        Ok(v) => show_ids(&v),
        Err(e) => show_cmd_err(&e),
    }
}

type ConnSlot = Arc<Mutex<Option<Result<(Client, ConnectionEvents), String>>>>;

struct Driver {
    shared: Arc<Mutex<Shared>>,
    conn_slot: ConnSlot,
    conn_reported: bool,
    client: Option<Client>,
    events: Option<ConnectionEvents>,
    events_ended: bool,
    /// the application holds ConnectionEvents but does not poll it for now
    events_unpolled: bool,
    tasks: BTreeMap<u32, JoinHandle<()>>,
    results: Arc<Mutex<Vec<(u32, String)>>>,
    panics_seen: usize,
}

impl Driver {
    async fn settle(&self) {
        for _ in 0..64 {
            tokio::task::yield_now().await;
            self.serve_auto();
        }
    }

    /// auto mode: the built-in server reads every complete line written so far and answers
    fn serve_auto(&self) {
        let mut wake = false;
        {
            let mut s = self.shared.lock().unwrap();
            if s.auto.is_none() {
                return;
            }
            while let Some(i) = s.srv_in.iter().position(|&b| b == b'\n') {
                let line: Vec<u8> = s.srv_in.drain(..=i).collect();
                let line = String::from_utf8_lossy(&line[..line.len() - 1]).to_string();
                let out = s.auto.as_mut().unwrap().line(&line);
                if !out.is_empty() {
                    s.inbox.extend(out.as_bytes());
                    wake = true;
                }
            }
        }
        if wake {
            wake_reader(&self.shared);
        }
    }

    fn segment(&mut self) -> String {
        let mut parts: Vec<String> = Vec::new();
        let (written, dropped) = {
            let mut s = self.shared.lock().unwrap();
            (std::mem::take(&mut s.written), s.dropped)
        };
        if !written.is_empty() {
            parts.push(format!("w:{}", hex(&written)));
        }
        if !self.conn_reported {
            if let Some(r) = self.conn_slot.lock().unwrap().take() {
                self.conn_reported = true;
                match r {
                    Ok((c, ev)) => {
                        parts.push(format!("conn=ok:{}", hex(c.protocol_version().as_bytes())));
                        self.client = Some(c);
                        self.events = Some(ev);
                    }
                    Err(k) => parts.push(format!("conn=err:{}", k)),
                }
            }
        }
        let mut rs = std::mem::take(&mut *self.results.lock().unwrap());
        rs.sort();
        for (id, s) in rs {
            self.tasks.remove(&id);
            parts.push(format!("r{}={}", id, s));
        }
        if let Some(ev) = self.events.as_mut() {
            if !self.events_ended && !self.events_unpolled {
                let waker = Waker::from(Arc::new(Noop));
                let mut cx = Context::from_waker(&waker);
                loop {
                    // (unconstrained: tokio's cooperative budget would otherwise report Pending after 128 items)
                    let fut = tokio::task::unconstrained(ev.next());
                    tokio::pin!(fut);
                    match fut.poll(&mut cx) {
                        Poll::Ready(Some(ConnectionEvent::SubsystemChange(s))) => {
                            parts.push(format!("ev:{}", hex(s.as_str().as_bytes())))
                        }
                        Poll::Ready(Some(ConnectionEvent::ConnectionClosed(e))) => parts.push(format!(
                            "ev:closed({})",
                            match e {
                                ConnectionError::Protocol(p) => show_perr(&p),
                                ConnectionError::InvalidResponse => "invalidresponse",
                            }
                        )),
                        Poll::Ready(None) => {
                            parts.push("ev:end".into());
                            self.events_ended = true;
                            break;
                        }
                        Poll::Pending => break,
                    }
                }
            }
        }
        if let Some(c) = &self.client {
            if c.is_connection_closed() {
                parts.push("X".into());
            }
        }
        if dropped {
            parts.push("D".into());
        }
        if self.shared.lock().unwrap().auto.as_ref().map(|a| a.violated).unwrap_or(false) {
            parts.push("V".into());
        }
        let p = PANIC_COUNT.load(Ordering::SeqCst);
        if p != self.panics_seen {
            self.panics_seen = p;
            parts.push("PANIC".into());
        }
        format!("[{}]", parts.join(";"))
    }

    fn spawn_req<F>(&mut self, id: u32, fut: F)
    where
        F: Future<Output = String> + Send + 'static,
    {
        let results = self.results.clone();
        let h = tokio::spawn(async move {
            let s = fut.await;
            results.lock().unwrap().push((id, s));
        });
        self.tasks.insert(id, h);
    }

    async fn apply(&mut self, op: &str) {
        let (head, arg) = match op.find(':') {
            Some(i) => (&op[..i], &op[i + 1..]),
            None => (op, ""),
        };
        let kind = head.as_bytes()[0];
        let id: u32 = head[1..].parse().unwrap_or(0);
        match kind {
            b'd' => {
                self.shared.lock().unwrap().inbox.extend(unhex(arg));
                wake_reader(&self.shared);
            }
            b'e' => {
                self.shared.lock().unwrap().eof = true;
                wake_reader(&self.shared);
            }
            b'r' => {
                const KINDS: [io::ErrorKind; 10] = [
                    io::ErrorKind::ConnectionReset, io::ErrorKind::UnexpectedEof, io::ErrorKind::ConnectionAborted, io::ErrorKind::TimedOut,
                    io::ErrorKind::BrokenPipe, io::ErrorKind::Other, io::ErrorKind::InvalidData, io::ErrorKind::NotConnected,
                    io::ErrorKind::Interrupted, io::ErrorKind::WouldBlock,
                ];
                self.shared.lock().unwrap().rkind = Some(KINDS[(id as usize) % KINDS.len()]);
                self.shared.lock().unwrap().rerr = true;
                wake_reader(&self.shared);
            }
            b'w' => {
                let mut sh = self.shared.lock().unwrap();
                sh.werr = true;
                sh.wzero = id >= 1;
            }
            b'p' => {
                self.shared.lock().unwrap().wpaused = true;
            }
            b'k' => {
                self.shared.lock().unwrap().wlimit = id as usize;
            }
            b'q' => self.events_unpolled = true,
            b'Q' => self.events_unpolled = false,
            // the application drops its ConnectionEvents for good (the docs allow it): nothing is observed on it any more
            b'Z' => {
                self.events = None;
                self.events_unpolled = true;
            }
            b'u' => {
                let w = {
                    let mut s = self.shared.lock().unwrap();
                    s.wpaused = false;
                    s.wwaker.take()
                };
                if let Some(w) = w {
                    w.wake();
                }
            }
            b'A' => {
                let mut s = self.shared.lock().unwrap();
                s.auto = Some(AutoServer::default());
            }
            b'n' => {
                // auto mode: a subsystem changes
                let out = {
                    let mut s = self.shared.lock().unwrap();
                    let name = unhex_str(arg).unwrap_or_default();
                    match s.auto.as_mut() {
                        Some(a) => a.notify(&name),
                        None => String::new(),
                    }
                };
                if !out.is_empty() {
                    self.shared.lock().unwrap().inbox.extend(out.as_bytes());
                    wake_reader(&self.shared);
                }
            }
            b'z' => {
                // a change and a request in the same instant: both select! branches become ready together
                let (req, name) = arg.split_once(';').unwrap_or((arg, ""));
                let out = {
                    let mut s = self.shared.lock().unwrap();
                    let name = unhex_str(name).unwrap_or_default();
                    match s.auto.as_mut() {
                        Some(a) => a.notify(&name),
                        None => String::new(),
                    }
                };
                if let Some(client) = self.client.clone() {
                    let spec = req.to_string();
                    self.spawn_req(id, async move {
                        match client.raw_command(raw_of_spec(&spec)).await {
                            Ok(f) => format!("ok[{}]", show_frame(&f)),
                            Err(e) => show_cmd_err(&e),
                        }
                    });
                }
                if !out.is_empty() {
                    self.shared.lock().unwrap().inbox.extend(out.as_bytes());
                    wake_reader(&self.shared);
                }
            }
            b't' => {
                tokio::time::advance(Duration::from_millis(id as u64)).await;
            }
            b'h' => {
                self.client = None;
            }
            b'x' => {
                if let Some(h) = self.tasks.remove(&id) {
                    h.abort();
                }
            }
            b'i' | b'c' | b'v' | b'y' | b'a' => {
                let Some(client) = self.client.clone() else {
                    self.results.lock().unwrap().push((id, "noclient".into()));
                    return;
                };
                let specs: Vec<String> = if arg.is_empty() { vec![] } else { arg.split(',').map(String::from).collect() };
                match kind {
                    b'i' => self.spawn_req(id, async move {
                        let mut it = specs.iter().map(|s| raw_of_spec(s));
                        let mut list = RawCommandList::new(it.next().unwrap());
                        list.extend(it);
                        match client.raw_command_list(list).await {
                            Ok(frames) => format!("ok[{}]", frames.iter().map(show_frame).collect::<Vec<_>>().join("/")),
                            Err(e) => show_cmd_err(&e),
                        }
                    }),
                    b'c' => self.spawn_req(id, async move {
                        match client.raw_command(raw_of_spec(&specs[0])).await {
                            Ok(f) => format!("ok[{}]", show_frame(&f)),
                            Err(e) => show_cmd_err(&e),
                        }
                    }),
                    b'v' => self.spawn_req(id, async move {
                        let list: Vec<Any> = specs.iter().map(|s| Any::of(s)).collect();
                        match client.command_list(list).await {
                            Ok(v) => show_ids(&v),
                            Err(e) => show_cmd_err(&e),
                        }
                    }),
                    b'y' => self.spawn_req(id, typed_tuple(client, specs)),
                    _ => self.spawn_req(id, async move {
                        let uri = unhex_str(&specs[0]).unwrap_or_default();
                        match client.album_art(&uri).await {
                            Ok(None) => "art:none".into(),
                            Ok(Some((data, mime))) => format!(
                                "art:some({},{})",
                                hex(&data),
                                match mime {
                                    Some(m) => hex(m.as_bytes()),
                                    None => "~".into(),
                                }
                            ),
                            Err(e) => show_cmd_err(&e),
                        }
                    }),
                }
            }
            _ => {}
        }
    }
}

async fn drive(toks: Vec<String>) -> String {
    let shared = Arc::new(Mutex::new(Shared::default()));
    let io = Transport(shared.clone());
    let spec = toks[1].clone();
    let conn_slot: ConnSlot = Arc::new(Mutex::new(None));
    let slot = conn_slot.clone();
    tokio::spawn(async move {
        let (api, pw) = match spec.find(':') {
            Some(i) => (spec.as_bytes()[0], unhex_str(&spec[i + 1..])),
            None => (spec.as_bytes()[0], None),
        };
        let r = match (api, pw) {
            (b'p', None) => Client::connect(io).await.map_err(|e| show_perr(&e).to_string()),
            (b'p', Some(pw)) => Client::connect_with_password(io, &pw).await.map_err(show_cwp),
            (_, pw) => Client::connect_with_password_opt(io, pw.as_deref()).await.map_err(show_cwp),
        };
        *slot.lock().unwrap() = Some(r);
    });
    let mut d = Driver {
        shared,
        conn_slot,
        conn_reported: false,
        client: None,
        events: None,
        events_ended: false,
        events_unpolled: false,
        tasks: BTreeMap::new(),
        results: Arc::new(Mutex::new(Vec::new())),
        panics_seen: PANIC_COUNT.load(Ordering::SeqCst),
    };
    let mut segs = Vec::new();
    d.settle().await;
    segs.push(d.segment());
    for op in &toks[2..] {
        d.apply(op).await;
        d.settle().await;
        segs.push(d.segment());
    }
    segs.join(" ")
}

fn show_cwp(e: ConnectWithPasswordError) -> String {
    match e {
        ConnectWithPasswordError::IncorrectPassword => "badpassword".into(),
        ConnectWithPasswordError::ProtocolError(e) => show_perr(&e).to_string(),
    }
}

pub fn run(toks: &[&str]) -> String {
    let toks: Vec<String> = toks.iter().map(|s| s.to_string()).collect();
    if toks.len() < 2 {
        return "bad-case".into();
    }
    let res = catch(move || {
        let rt = tokio::runtime::Builder::new_current_thread()
            .enable_time()
            .start_paused(true)
            .build()
            .unwrap();
        rt.block_on(drive(toks))
    });
    match res {
        Ok(s) => s,
        Err(p) => format!("PANIC {}", hex(p.as_bytes())),
    }
}
