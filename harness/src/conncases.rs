//! C02 / C03 / C09 / C10 / C18 (greeting): connect and receive of both connection flavours over a
//! scripted reader (a list of chunks, then EOF or a persistent error).
use std::future::Future;
use std::io::{self, Read};
use std::pin::Pin;
use std::task::{Context, Poll};

use mpd_protocol::response::Response;
#[cfg(feature = "with_async")]
use mpd_protocol::AsyncConnection;
use mpd_protocol::{Connection, MpdProtocolError};
#[cfg(feature = "with_async")]
use tokio::io::{AsyncRead, ReadBuf};

use crate::util::*;

pub struct ChunkReader {
    /// None = one read fails with a transient error (WouldBlock / interrupted by a timeout layer), then the stream goes on
    chunks: std::collections::VecDeque<Option<Vec<u8>>>,
    pub transient: std::rc::Rc<std::cell::Cell<bool>>,
    fail: bool,
    /// the kind of the persistent error at the end of the script
    pub fail_kind: io::ErrorKind,
    reads: usize,
    max_reads: usize,
    /// async only: an interruption is a read that stays pending (the caller drops the receive future and starts a new one)
    pub pending_mode: bool,
    /// after the script the peer stays silent with the transport open: a further read would block forever
    pub idle_after: bool,
    /// the kind of the transient failure (a read that would block, was interrupted by a signal, timed out)
    pub transient_kind: io::ErrorKind,
}

impl ChunkReader {
    pub fn new(chunks: Vec<Vec<u8>>, fail: bool) -> Self {
        Self::with_interruptions(chunks.into_iter().map(Some).collect(), fail)
    }

    pub fn with_interruptions(chunks: Vec<Option<Vec<u8>>>, fail: bool) -> Self {
        let total: usize = chunks.iter().map(|c| c.as_ref().map(|c| c.len()).unwrap_or(1)).sum();
        let n = chunks.len();
        ChunkReader {
            chunks: chunks.into_iter().filter(|c| c.as_ref().map(|c| !c.is_empty()).unwrap_or(true)).collect(),
            transient: Default::default(),
            fail,
            fail_kind: io::ErrorKind::Other,
            reads: 0,
            // every read before the end makes progress, so this many reads mean a hang
            max_reads: total + n + 64,
            pending_mode: false,
            idle_after: false,
            transient_kind: io::ErrorKind::WouldBlock,
        }
    }

    fn serve(&mut self, space: usize) -> io::Result<Vec<u8>> {
        self.reads += 1;
        if self.reads > self.max_reads {
            panic!("too many reads: receive does not terminate");
        }
        match self.chunks.pop_front() {
            None => {
                if self.idle_after {
                    panic!("a read after everything the peer has sent: the peer is silent and the transport open, so this read blocks forever");
                }
                if self.fail {
                    Err(io::Error::new(self.fail_kind, "scripted failure"))
                } else {
                    Ok(Vec::new())
                }
            }
            Some(None) => {
                self.transient.set(true);
                Err(io::Error::new(self.transient_kind, "scripted transient failure"))
            }
            Some(Some(c)) => {
                if c.len() <= space {
                    Ok(c)
                } else {
                    let rest = c[space..].to_vec();
                    self.chunks.push_front(Some(rest));
                    Ok(c[..space].to_vec())
                }
            }
        }
    }
}

/// Writes go nowhere: the scripted peer does not react to them.
impl io::Write for ChunkReader {
    fn write(&mut self, buf: &[u8]) -> io::Result<usize> {
        Ok(buf.len())
    }
    fn flush(&mut self) -> io::Result<()> {
        Ok(())
    }
}

#[cfg(feature = "with_async")]
impl tokio::io::AsyncWrite for ChunkReader {
    fn poll_write(self: Pin<&mut Self>, _cx: &mut Context<'_>, buf: &[u8]) -> Poll<io::Result<usize>> {
        Poll::Ready(Ok(buf.len()))
    }
    fn poll_flush(self: Pin<&mut Self>, _cx: &mut Context<'_>) -> Poll<io::Result<()>> {
        Poll::Ready(Ok(()))
    }
    fn poll_shutdown(self: Pin<&mut Self>, _cx: &mut Context<'_>) -> Poll<io::Result<()>> {
        Poll::Ready(Ok(()))
    }
}

impl Read for ChunkReader {
    fn read(&mut self, buf: &mut [u8]) -> io::Result<usize> {
        let d = self.serve(buf.len())?;
        buf[..d.len()].copy_from_slice(&d);
        Ok(d.len())
    }
}

#[cfg(feature = "with_async")]
impl AsyncRead for ChunkReader {
    fn poll_read(mut self: Pin<&mut Self>, cx: &mut Context<'_>, buf: &mut ReadBuf<'_>) -> Poll<io::Result<()>> {
        if self.pending_mode && matches!(self.chunks.front(), Some(None)) {
            self.chunks.pop_front();
            cx.waker().wake_by_ref();
            return Poll::Pending;
        }
        let space = buf.remaining();
        match self.serve(space) {
            Ok(d) => {
                buf.put_slice(&d);
                Poll::Ready(Ok(()))
            }
            Err(e) => Poll::Ready(Err(e)),
        }
    }
}

pub fn show_response(r: &Response) -> String {
    let mut frames = Vec::new();
    let mut err = "err[none]".to_string();
    for f in r.frames() {
        match f {
            Ok(fr) => {
                let fields: Vec<String> = fr
                    .fields()
                    .map(|(k, v)| format!("{}:{}", hex(k.as_bytes()), hex(v.as_bytes())))
                    .collect();
                let bin = match fr.binary() {
                    Some(b) => hex(b),
                    None => "~".to_string(),
                };
                frames.push(format!("({})bin={}", fields.join(","), bin));
            }
            Err(e) => {
                err = format!(
                    "err[{},{},{},{}]",
                    e.code,
                    e.command_index,
                    match &e.current_command {
                        Some(c) => hex(c.as_bytes()),
                        None => "~".to_string(),
                    },
                    hex(e.message.as_bytes())
                );
            }
        }
    }
    format!("resp[{}]{}", frames.join("/"), err)
}

pub fn show_error(e: &MpdProtocolError) -> String {
    match e {
        MpdProtocolError::InvalidMessage => "invalid".into(),
        // an error of the transport is passed through whatever its kind; only the connection's own "stream ended inside a
        // response" counts as ueof
        MpdProtocolError::Io(e) if e.to_string().contains("scripted") => "io".into(),
        MpdProtocolError::Io(e) if e.kind() == io::ErrorKind::UnexpectedEof => "ueof".into(),
        MpdProtocolError::Io(_) => "io".into(),
    }
}

fn show_outcome(r: Result<Option<Response>, MpdProtocolError>) -> (String, bool) {
    match r {
        // a decoded response is more than what fields() shows right away: its accessors must agree with the wire order too
        Ok(Some(resp)) => match crate::framecases::collections_differ(&resp).or_else(|| crate::framecases::accessors_differ(&resp)) {
            Some(d) => (format!("INCONSISTENT {}", d.replace(' ', "_")), true),
            None => (show_response(&resp), true),
        },
        Ok(None) => ("eof".into(), false),
        Err(e) => (show_error(&e), false),
    }
}

fn ping() -> mpd_protocol::command::Command {
    mpd_protocol::command::Command::new("ping")
}

fn ping_list() -> mpd_protocol::command::CommandList {
    let mut l = mpd_protocol::command::CommandList::new(ping());
    l.add(mpd_protocol::command::Command::new("status"));
    l
}

/// `command()` is "send, then receive": its answer, put back into receive()'s terms (the end of the stream is an error there)
fn as_receive(r: Result<Response, MpdProtocolError>) -> Result<Option<Response>, MpdProtocolError> {
    match r {
        Ok(resp) => Ok(Some(resp)),
        Err(MpdProtocolError::Io(e)) if e.kind() == io::ErrorKind::UnexpectedEof && e.to_string().contains("closed without a response") => Ok(None),
        Err(e) => Err(e),
    }
}

const GREETING: &[u8] = b"OK MPD 0.23.5\n";

fn pattern(n: usize) -> Vec<u8> {
    let block: Vec<u8> = (0..251usize).map(|i| ((i * 7 + 13) % 251) as u8).collect();
    let mut v = Vec::with_capacity(n);
    while v.len() < n {
        let k = (n - v.len()).min(block.len());
        v.extend_from_slice(&block[..k]);
    }
    v
}

fn digest(r: &Response) -> String {
    let mut parts = Vec::new();
    for f in r.frames() {
        match f {
            Ok(fr) => {
                let b = fr.binary();
                let sum: u64 = b.map(|b| b.iter().map(|x| *x as u64).sum()).unwrap_or(0);
                let fields: Vec<String> = fr.fields().map(|(k, v)| format!("{k}={v}")).collect();
                parts.push(format!("({})bin={}", fields.join(","), b.map(|b| format!("{}:{}", b.len(), sum)).unwrap_or_else(|| "~".into())));
            }
            Err(e) => parts.push(format!("err{}", e.code)),
        }
    }
    format!("resp[{}]", parts.join("/"))
}

/// bigbin <flavour> <n> <cap> <shape>: a response with an n-byte payload (generated here, not passed on the command line),
/// then more of the stream, read with at most <cap> bytes per read (0 = no cap); prints a digest of every outcome.
///   shape f = followed by a small response, a binary-only response of 100000 bytes and another small one, then end of stream
///   shape g = followed at once by a binary-only response of 100000 bytes and a small one, then end of stream
///   shape u = followed by "OK" without its line feed, then end of stream (unclean)
///   shape v = the big thing is a field value instead of a payload, followed by a small response
fn run_bigbin(toks: &[&str]) -> String {
    let flavour = toks[1];
    let n: usize = toks[2].parse().unwrap_or(0);
    let cap: usize = toks[3].parse().unwrap_or(0);
    let shape = toks[4];
    let mut stream = GREETING.to_vec();
    if shape == "v" {
        stream.extend_from_slice(b"pre: x\nkey: ");
        stream.extend(pattern(n).iter().map(|b| b'a' + (b % 26)));
        stream.extend_from_slice(b"\nOK\nvolume: 50\nOK\n");
    } else {
        stream.extend_from_slice(format!("size: 1\nbinary: {n}\n").as_bytes());
        stream.extend_from_slice(&pattern(n));
        stream.extend_from_slice(b"\nOK\n");
        if shape == "g" {
            // the next response starts at once and nothing of it can be consumed before all of it has arrived
            stream.extend_from_slice(b"binary: 100000\n");
            stream.extend_from_slice(&pattern(100000));
            stream.extend_from_slice(b"\nOK\nstate: play\nOK\n");
        } else if shape == "f" {
            stream.extend_from_slice(b"volume: 50\nOK\n");
            stream.extend_from_slice(b"binary: 100000\n");
            stream.extend_from_slice(&pattern(100000));
            stream.extend_from_slice(b"\nOK\nstate: play\nOK\n");
        } else {
            stream.extend_from_slice(b"OK");
        }
    }
    let chunks: Vec<Vec<u8>> = if cap == 0 { vec![stream] } else { stream.chunks(cap).map(|c| c.to_vec()).collect() };
    let reader = ChunkReader::new(chunks, false);
    let res = catch(move || {
        let mut out: Vec<String> = Vec::new();
        let show = |r: Result<Option<Response>, MpdProtocolError>| match r {
            Ok(Some(resp)) => (digest(&resp), true),
            Ok(None) => ("eof".to_string(), false),
            Err(e) => (show_error(&e), false),
        };
        if flavour == "b" {
            let mut conn = match Connection::connect(reader) {
                Ok(c) => c,
                Err(e) => return format!("connect:{}", show_error(&e)),
            };
            loop {
                let (s, more) = show(conn.receive());
                out.push(s);
                if !more {
                    break;
                }
            }
        } else {
            #[cfg(not(feature = "with_async"))]
            {
                let _ = reader;
                return "skip no-async".into();
            }
            #[cfg(feature = "with_async")]
            {
            let rt = tokio::runtime::Builder::new_current_thread().build().unwrap();
            let r: Result<(), String> = rt.block_on(async {
                let mut conn = match AsyncConnection::connect(reader).await {
                    Ok(c) => c,
                    Err(e) => return Err(format!("connect:{}", show_error(&e))),
                };
                loop {
                    let (s, more) = show(conn.receive().await);
                    out.push(s);
                    if !more {
                        break;
                    }
                }
                Ok(())
            });
            if let Err(e) = r {
                return e;
            }
            }
        }
        out.join(" | ")
    });
    match res {
        Ok(s) => s,
        Err(p) => format!("PANIC {}", hex(p.as_bytes())),
    }
}

/// <kind> <flavour b|a> <extra> <tail eof|err> <chunk>...
pub fn run(toks: &[&str]) -> String {
    if toks[0] == "bigbin" {
        return run_bigbin(toks);
    }
    let with_greeting = toks[0] == "recv";
    // flavour: b (blocking) / a (async), optionally followed by c or l: every second response is then obtained through
    // command() / command_list() (documented as "send followed by receive") instead of receive()
    let via = toks[1].chars().nth(1);
    let flavour = &toks[1][..1.min(toks[1].len())];
    let extra: usize = toks[2].parse().unwrap_or(0);
    let fail = toks[3].starts_with("err");
    let fail_kind = match toks[3].strip_prefix("err:").unwrap_or("other") {
        "ueof" => io::ErrorKind::UnexpectedEof,
        "reset" => io::ErrorKind::ConnectionReset,
        "aborted" => io::ErrorKind::ConnectionAborted,
        "brokenpipe" => io::ErrorKind::BrokenPipe,
        "timedout" => io::ErrorKind::TimedOut,
        "invaliddata" => io::ErrorKind::InvalidData,
        "notconnected" => io::ErrorKind::NotConnected,
        "interrupted" => io::ErrorKind::Interrupted,
        "oom" => io::ErrorKind::OutOfMemory,
        _ => io::ErrorKind::Other,
    };
    let mut chunks: Vec<Option<Vec<u8>>> = Vec::new();
    if with_greeting {
        chunks.push(Some(GREETING.to_vec()));
    }
    // "!s": after the interrupted receive the application sends a command before it retries
    let send_between = toks[4..].iter().any(|h| *h == "!s");
    for h in &toks[4..] {
        chunks.push(if *h == "!" || *h == "!s" { None } else { Some(unhex(h)) });
    }
    let mut reader = ChunkReader::with_interruptions(chunks, fail);
    reader.fail_kind = fail_kind;
    // "ax": the interrupted receive is a future dropped while it waits for the transport (what select! does), then a new receive
    reader.pending_mode = via == Some('x');
    // which transient failure: derived from the case text, so a replay meets the same one
    let hsum: usize = toks.iter().map(|t| t.bytes().map(|b| b as usize).sum::<usize>()).sum();
    reader.transient_kind = [io::ErrorKind::WouldBlock, io::ErrorKind::Interrupted, io::ErrorKind::TimedOut][hsum % 3];
    // tail "idle": the peer sends the script and then stays silent; receive is called exactly <extra> times
    let idle = toks[3] == "idle";
    reader.idle_after = idle;
    let transient = reader.transient.clone();
    let res = catch(move || {
        let mut out: Vec<String> = Vec::new();
        if flavour == "b" {
            let mut conn = match Connection::connect(reader) {
                Ok(c) => c,
                Err(e) => return format!("connect:{}", show_error(&e)),
            };
            if !with_greeting {
                out.push(format!("connected:{}", hex(conn.protocol_version().as_bytes())));
            }
            let mut left = extra;
            let mut turn = 0usize;
            loop {
                turn += 1;
                if via == Some('s') {
                    // a pipelining client: a command goes out before every receive; what was received and not yet handed out stays
                    let _ = if turn % 3 == 0 { conn.send_list(ping_list()) } else { conn.send(ping()) };
                }
                let got = match via {
                    Some('c') if turn % 2 == 0 => as_receive(conn.command(ping())),
                    Some('l') if turn % 2 == 0 => as_receive(conn.command_list(ping_list())),
                    _ => conn.receive(),
                };
                let (s, more) = show_outcome(got);
                out.push(s);
                if idle {
                    if turn >= extra {
                        break;
                    }
                    continue;
                }
                if !more {
                    if transient.replace(false) {
                        if send_between {
                            let _ = conn.send(mpd_protocol::command::Command::new("ping"));
                        }
                        continue;
                    }
                    if left == 0 {
                        break;
                    }
                    left -= 1;
                }
            }
        } else {
            #[cfg(not(feature = "with_async"))]
            {
                let _ = reader;
                return "skip no-async".into();
            }
            #[cfg(feature = "with_async")]
            {
            let rt = tokio::runtime::Builder::new_current_thread().build().unwrap();
            let r: Result<(), String> = rt.block_on(async {
                let mut conn = match AsyncConnection::connect(reader).await {
                    Ok(c) => c,
                    Err(e) => return Err(format!("connect:{}", show_error(&e))),
                };
                if !with_greeting {
                    out.push(format!("connected:{}", hex(conn.protocol_version().as_bytes())));
                }
                let mut left = extra;
                let mut turn = 0usize;
                loop {
                    turn += 1;
                    if via == Some('s') {
                        let _ = if turn % 3 == 0 { conn.send_list(ping_list()).await } else { conn.send(ping()).await };
                    }
                    let got = match via {
                        Some('c') if turn % 2 == 0 => as_receive(conn.command(ping()).await),
                        Some('l') if turn % 2 == 0 => as_receive(conn.command_list(ping_list()).await),
                        Some('x') => loop {
                            let mut fut = Box::pin(conn.receive());
                            let polled = std::future::poll_fn(|cx| Poll::Ready(fut.as_mut().poll(cx))).await;
                            match polled {
                                Poll::Ready(r) => break r,
                                Poll::Pending => {
                                    drop(fut); // cancelled while suspended in the read
                                    out.push("io".into()); // where the undecorated case shows the transient error
                                }
                            }
                        },
                        _ => conn.receive().await,
                    };
                    let (s, more) = show_outcome(got);
                    out.push(s);
                    if idle {
                        if turn >= extra {
                            break;
                        }
                        continue;
                    }
                    if !more {
                        if transient.replace(false) {
                            if send_between {
                                let _ = conn.send(mpd_protocol::command::Command::new("ping")).await;
                            }
                            continue;
                        }
                        if left == 0 {
                            break;
                        }
                        left -= 1;
                    }
                }
                Ok(())
            });
            if let Err(e) = r {
                return e;
            }
            }
        }
        out.join(" | ")
    });
    match res {
        Ok(s) => s,
        Err(p) => format!("PANIC {}", hex(p.as_bytes())),
    }
}
