//! Correspondence harness: runs the *implementation* (/repo) on a case file and prints one
//! canonical result line per case.  The Coq model prints the same format for the same file.
mod util;
mod tagcases;
mod cmdcases;
mod conncases;
mod framecases;
mod loopcases;
mod songcases;
mod predefcases;
mod filtercases;
mod typedcases;
mod probecases;
mod artcases;

use std::io::{BufRead, Write};

fn main() {
    let args: Vec<String> = std::env::args().collect();
    if args.len() < 2 {
        eprintln!("usage: verif_harness <cases.txt>");
        std::process::exit(2);
    }
    // panics are outcomes, not crashes: keep the default hook quiet
    std::panic::set_hook(Box::new(|_| {
        util::PANIC_COUNT.fetch_add(1, std::sync::atomic::Ordering::SeqCst);
    }));
    let f = std::fs::File::open(&args[1]).expect("open case file");
    let out = std::io::stdout();
    let mut out = std::io::BufWriter::new(out.lock());
    for line in std::io::BufReader::new(f).lines() {
        let line = line.expect("read line");
        if line.is_empty() {
            continue;
        }
        let toks: Vec<&str> = line.split(' ').collect();
        // a panic the case code did not expect is still an outcome of that one case, never the end of the run
        let res = match util::catch(|| dispatch(&toks)) {
            Ok(s) => s,
            Err(p) => format!("PANIC-UNCAUGHT {}", util::hex(p.as_bytes())),
        };
        writeln!(out, "{}", res).unwrap();
    }
}

fn dispatch(toks: &[&str]) -> String {
    match toks[0] {
        "tag_list" | "tag_parse" | "tag_cmp" | "sub" | "sub_cmp" | "sub_list" | "tag_rt" => tagcases::run(toks),
        "cmd_build" | "cmd_args" | "cmd_list" | "cmd_biglist" | "escape" => cmdcases::run(toks),
        "recv" | "conn" | "bigbin" => conncases::run(toks),
        "frame" | "resp" => framecases::run(toks),
        "loop" => loopcases::run(toks),
        "bigart" | "bigreq" | "bigevt" => artcases::run(toks),
        "songs" | "songs_nc" => songcases::run(toks),
        "predef" => predefcases::run(toks),
        "filter" => filtercases::run(toks),
        "typed" | "typedlist" => typedcases::run(toks),
        "probe" => probecases::run(toks),
        other => format!("unknown-kind {}", other),
    }
}
