//! Translator probes (tools/probe.py): the second stage of the table translator.  Where the static
//! reading of the source no longer applies, the tables / character classes / pins of coq/Tables.v
//! are derived from the behaviour of the compiled implementation through its public API.  The kinds
//! here are the ones that need a loop over a complete domain too large for a case file (every
//! `char`, every byte in several contexts, every pair of a finite universe); everything else is
//! probed by tools/probe.py through the ordinary case kinds (`recv`, `cmd_list`, `tag_list`,
//! `tag_parse`, `sub`, `typed`, `songs`, `predef`, `filter`, `typedlist`, `loop`).
//!
//!   probe cmd_charset   Command::build on "a<c>", "a<c>a" (tail class) and "<c>a", "<c>" (head class), every char c
//!   probe tag_charset   Tag::try_from on "<c>", "a<c>", "<c>a", every char c
//!   probe escape        escape_argument on "x<c>y" and "<c>", every char c; and on ""
//!   probe arg_reject    add_argument of a raw renderer emitting [x,b,y], [b], [b,y], every byte b
//!   probe tag_pairs     Eq / Ord / PartialOrd / Hash / render of Tag by protocol name over all variants x Other(name in 4 letter cases)
//!   probe sub_pairs     Eq / Hash of Subsystem by protocol name over all variants x Other(name in 3 letter cases)
//!   probe read_space    the size of the buffer the blocking Connection offers to its first read
//!
//! Bit strings: one character per ASCII char (128) or byte (256): `1` in the class, `0` not, `x`
//! the contexts disagree (the behaviour is not a position-independent class).  `*_na=<count>/<first>`:
//! how many non-ASCII chars are in the class and the first such code point (`-` if none).
use std::collections::hash_map::DefaultHasher;
use std::hash::{Hash, Hasher};

use mpd_client::client::Subsystem;
use mpd_client::tag::Tag;
use mpd_protocol::command::{escape_argument, Command};

use crate::cmdcases::Raw;
use crate::tagcases::{all_subsystems, all_tags, tag_name};
use crate::util::*;

fn all_chars() -> impl Iterator<Item = char> {
    (0u32..=0x10FFFF).filter_map(char::from_u32)
}

/// Classify every char with `f` (None = contexts disagree); ASCII as a bit string, the rest counted.
fn char_class(f: impl Fn(char) -> Option<bool>) -> (String, String) {
    let mut bits = String::with_capacity(128);
    let mut count = 0usize;
    let mut first: Option<u32> = None;
    let mut incons: Option<u32> = None;
    for c in all_chars() {
        let r = f(c);
        if (c as u32) < 128 {
            bits.push(match r {
                Some(true) => '1',
                Some(false) => '0',
                None => 'x',
            });
        } else {
            match r {
                Some(true) => {
                    count += 1;
                    first.get_or_insert(c as u32);
                }
                Some(false) => {}
                None => {
                    incons.get_or_insert(c as u32);
                }
            }
        }
    }
    let na = match (incons, first) {
        (Some(i), _) => format!("x/{:x}", i),
        (None, Some(f)) => format!("{}/{:x}", count, f),
        (None, None) => "0/-".to_string(),
    };
    (bits, na)
}

fn agree(v: &[bool]) -> Option<bool> {
    if v.iter().all(|x| *x == v[0]) {
        Some(v[0])
    } else {
        None
    }
}

fn h<T: Hash + ?Sized>(t: &T) -> u64 {
    let mut s = DefaultHasher::new();
    t.hash(&mut s);
    s.finish()
}

fn mixed(s: &str) -> String {
    s.chars()
        .enumerate()
        .map(|(i, c)| if i % 2 == 1 { c.to_ascii_uppercase() } else { c.to_ascii_lowercase() })
        .collect()
}

fn capitalized(s: &str) -> String {
    let mut it = s.chars();
    match it.next() {
        Some(c) => c.to_ascii_uppercase().to_string() + it.as_str(),
        None => String::new(),
    }
}

struct Verdict {
    ok: bool,
    witness: Option<String>,
}

impl Verdict {
    fn new() -> Self {
        Verdict { ok: true, witness: None }
    }
    fn check(&mut self, cond: bool, w: impl FnOnce() -> String) {
        if !cond {
            self.ok = false;
            if self.witness.is_none() {
                self.witness = Some(w());
            }
        }
    }
    fn show(&self, name: &str) -> String {
        match &self.witness {
            None => format!("{}={}", name, self.ok as u8),
            Some(w) => format!("{}=0:{}", name, hex(w.as_bytes())),
        }
    }
}

pub fn run(toks: &[&str]) -> String {
    if toks.len() < 2 {
        return "bad-case".into();
    }
    let what = toks[1].to_string();
    match catch(move || run_inner(&what)) {
        Ok(s) => s,
        Err(p) => format!("PANIC {}", hex(p.as_bytes())),
    }
}

fn run_inner(what: &str) -> String {
    match what {
        "cmd_charset" => {
            let (tail, tail_na) = char_class(|c| {
                agree(&[Command::build(&format!("a{c}")).is_ok(), Command::build(&format!("a{c}a")).is_ok()])
            });
            let (head, head_na) = char_class(|c| {
                agree(&[Command::build(&format!("{c}a")).is_ok(), Command::build(&format!("{c}")).is_ok()])
            });
            format!("tail={} tail_na={} head={} head_na={}", tail, tail_na, head, head_na)
        }
        "tag_charset" => {
            let (bits, na) = char_class(|c| {
                agree(&[
                    Tag::try_from(&*format!("{c}")).is_ok(),
                    Tag::try_from(&*format!("a{c}")).is_ok(),
                    Tag::try_from(&*format!("{c}a")).is_ok(),
                ])
            });
            format!("class={} class_na={}", bits, na)
        }
        "escape" => {
            // (quoted, escaped) of one rendering, None if it is neither the plain nor the escaped form
            fn classify(s: &str, c: char, pre: &str, post: &str) -> Option<(bool, bool)> {
                let e = escape_argument(s);
                let e: &str = &e;
                let plain = format!("{pre}{c}{post}");
                let esc = format!("{pre}\\{c}{post}");
                if e == plain {
                    Some((false, false))
                } else if e == esc {
                    Some((false, true))
                } else if e == format!("\"{plain}\"") {
                    Some((true, false))
                } else if e == format!("\"{esc}\"") {
                    Some((true, true))
                } else {
                    None
                }
            }
            let both = |c: char| -> Option<(bool, bool)> {
                let a = classify(&format!("x{c}y"), c, "x", "y")?;
                let b = classify(&format!("{c}"), c, "", "")?;
                if a == b {
                    Some(a)
                } else {
                    None
                }
            };
            let (quote, quote_na) = char_class(|c| both(c).map(|r| r.0));
            let (esc, esc_na) = char_class(|c| both(c).map(|r| r.1));
            format!(
                "quote={} quote_na={} esc={} esc_na={} empty={} plain={}",
                quote,
                quote_na,
                esc,
                esc_na,
                hex(escape_argument("").as_bytes()),
                hex(escape_argument("xy").as_bytes())
            )
        }
        "arg_reject" => {
            let mut bits = String::with_capacity(256);
            for b in 0u16..256 {
                let b = b as u8;
                let try_one = |bytes: Vec<u8>| {
                    let mut c = Command::new("a");
                    c.add_argument(Raw(bytes)).is_err()
                };
                bits.push(match agree(&[try_one(vec![b'x', b, b'y']), try_one(vec![b]), try_one(vec![b, b'y'])]) {
                    Some(true) => '1',
                    Some(false) => '0',
                    None => 'x',
                });
            }
            format!("reject={}", bits)
        }
        "tag_pairs" => {
            let mut universe: Vec<Tag> = all_tags();
            let names: Vec<String> = all_tags().iter().map(|t| String::from_utf8(tag_name(t)).unwrap_or_default()).collect();
            let mut seen = std::collections::BTreeSet::new();
            for n in names.iter().map(|s| s.as_str()).chain(["Foo", "x", "any", "a-b_c", "Albumx", "Albu"]) {
                for s in [n.to_string(), n.to_ascii_lowercase(), n.to_ascii_uppercase(), mixed(n)] {
                    if seen.insert(s.clone()) {
                        universe.push(Tag::Other(s.into()));
                    }
                }
            }
            let (mut eq, mut cmp, mut partial, mut hash, mut render) =
                (Verdict::new(), Verdict::new(), Verdict::new(), Verdict::new(), Verdict::new());
            let shown = |t: &Tag| format!("{:?}", t);
            let rendered: Vec<String> = universe.iter().map(|t| String::from_utf8(tag_name(t)).unwrap_or_default()).collect();
            for (i, a) in universe.iter().enumerate() {
                if let Tag::Other(s) = a {
                    render.check(rendered[i] == **s, || shown(a));
                } else {
                    render.check(!rendered[i].is_empty(), || shown(a));
                }
                hash.check(h(a) == h(rendered[i].as_str()), || shown(a));
                for (j, b) in universe.iter().enumerate() {
                    let w = || format!("{} {}", shown(a), shown(b));
                    eq.check((a == b) == (rendered[i] == rendered[j]), w);
                    cmp.check(a.cmp(b) == rendered[i].as_str().cmp(rendered[j].as_str()), w);
                    partial.check(a.partial_cmp(b) == Some(a.cmp(b)), w);
                    hash.check(a != b || h(a) == h(b), w);
                }
            }
            format!(
                "{} {} {} {} {} n={}",
                eq.show("eq"),
                cmp.show("cmp"),
                partial.show("partial"),
                hash.show("hash"),
                render.show("render"),
                universe.len()
            )
        }
        "sub_pairs" => {
            let mut universe: Vec<Subsystem> = all_subsystems();
            let names: Vec<String> = all_subsystems().iter().map(|s| s.as_str().to_string()).collect();
            let mut seen = std::collections::BTreeSet::new();
            for n in names.iter().map(|s| s.as_str()).chain(["foo", "queue", "x-y", "stored_playlis"]) {
                for s in [n.to_string(), n.to_ascii_uppercase(), capitalized(n)] {
                    if seen.insert(s.clone()) {
                        universe.push(Subsystem::Other(s.into()));
                    }
                }
            }
            let (mut eq, mut hash, mut name) = (Verdict::new(), Verdict::new(), Verdict::new());
            let shown = |t: &Subsystem| format!("{:?}", t);
            for a in universe.iter() {
                if let Subsystem::Other(s) = a {
                    name.check(a.as_str() == &**s, || shown(a));
                }
                hash.check(h(a) == h(a.as_str()), || shown(a));
                for b in universe.iter() {
                    let w = || format!("{} {}", shown(a), shown(b));
                    eq.check((a == b) == (a.as_str() == b.as_str()), w);
                    hash.check(a != b || h(a) == h(b), w);
                }
            }
            format!("{} {} {} n={}", eq.show("eq"), hash.show("hash"), name.show("name"), universe.len())
        }
        "read_space" => {
            // the size of the buffer the blocking connection offers to its reads (first and largest)
            struct Spy {
                data: std::io::Cursor<Vec<u8>>,
                first: std::rc::Rc<std::cell::Cell<usize>>,
                max: std::rc::Rc<std::cell::Cell<usize>>,
            }
            impl std::io::Read for Spy {
                fn read(&mut self, buf: &mut [u8]) -> std::io::Result<usize> {
                    if self.first.get() == 0 {
                        self.first.set(buf.len());
                    }
                    self.max.set(self.max.get().max(buf.len()));
                    self.data.read(buf)
                }
            }
            let first = std::rc::Rc::new(std::cell::Cell::new(0));
            let max = std::rc::Rc::new(std::cell::Cell::new(0));
            let spy = Spy { data: std::io::Cursor::new(b"OK MPD 0.23.5\nOK\n".to_vec()), first: first.clone(), max: max.clone() };
            let mut conn = match mpd_protocol::Connection::connect(spy) {
                Ok(c) => c,
                Err(_) => return "connect-failed".into(),
            };
            let _ = conn.receive();
            format!("space={} max={}", first.get(), max.get())
        }
        other => format!("unknown-probe {}", other),
    }
}
