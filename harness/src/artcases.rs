//! C17, large pictures: `bigart <source> <size> <limit> <mime>` runs the real `Client::album_art` against a small server task
//! that lives here (the pictures are generated here: megabytes do not go through the command line or the extracted model).
//!   source  e = embedded picture (readpicture answers), f = cover file (readpicture has nothing, albumart answers),
//!           u = readpicture is an unknown command (ACK 5), albumart answers
//!   size    bytes of the picture; limit: the server's chunk limit (bytes per reply)
//!   mime    1 = the embedded picture has a type, 0 = it has none
//! Prints: a digest of the result (length, byte sum, first difference from the picture if any, mime) and the request lines the
//! server saw, summarised (how many, and whether the offsets were exactly 0, limit, 2*limit, ...).
use mpd_client::Client;
use tokio::io::{AsyncBufReadExt, AsyncWriteExt, BufReader};

use crate::util::*;

fn picture(n: usize) -> Vec<u8> {
    // not periodic in any power of two, contains every byte value, protocol-like text at the start
    let mut v = Vec::with_capacity(n);
    v.extend_from_slice(b"OK\nACK [5@0] {} x\nbinary: 3\nlist_OK\n");
    let mut x: u32 = 0x9E37_79B9;
    while v.len() < n {
        x ^= x << 13;
        x ^= x >> 17;
        x ^= x << 5;
        v.push((x >> 11) as u8);
    }
    v.truncate(n);
    v
}

/// `bigreq <n> <where>`: a request of n bytes (one command) sent through the real Client against the server task of this file, either
/// right after another reply (where = w: inside the re-idle window) or from the idling state (where = i), followed by ordinary
/// requests.  Prints what each request returned (ok / ack / error) and the session as the server saw it.
fn run_bigreq(toks: &[&str]) -> String {
    use mpd_protocol::command::Command as RawCommand;
    let n: usize = toks.get(1).and_then(|x| x.parse().ok()).unwrap_or(0);
    let in_window = toks.get(2) == Some(&"w");
    let rt = tokio::runtime::Builder::new_current_thread().enable_all().build().unwrap();
    rt.block_on(async move {
        let (server_io, client_io) = tokio::io::duplex(1 << 16);
        let server = tokio::spawn(async move {
            let (rd, mut wr) = tokio::io::split(server_io);
            let mut rd = BufReader::new(rd);
            wr.write_all(b"OK MPD 0.23.5\n").await.ok();
            let mut session: Vec<String> = Vec::new();
            let mut line = String::new();
            let mut idle = false;
            loop {
                line.clear();
                match rd.read_line(&mut line).await {
                    Ok(0) | Err(_) => break,
                    Ok(_) => {}
                }
                let l = line.trim_end_matches('\n');
                let word = l.split(' ').next().unwrap_or("").to_string();
                session.push(format!("{}{}", word, if l.len() > 100 { format!("({})", l.len()) } else { String::new() }));
                match word.as_str() {
                    "idle" => idle = true,
                    "noidle" => {
                        if idle {
                            wr.write_all(b"OK\n").await.ok();
                        }
                        idle = false;
                    }
                    _ => {
                        idle = false;
                        wr.write_all(b"OK\n").await.ok();
                    }
                }
            }
            session
        });
        let Ok((client, _events)) = Client::connect(client_io).await else { return "connect-error".to_string() };
        let show = |r: Result<mpd_protocol::response::Frame, mpd_client::client::CommandError>| match r {
            Ok(_) => "ok".to_string(),
            Err(e) => format!("err:{}", format!("{e:?}").chars().take(40).collect::<String>().replace(' ', "_")),
        };
        let mut results = Vec::new();
        let big = RawCommand::new("echo").argument("x".repeat(n.saturating_sub(5)));
        let timeout = std::time::Duration::from_secs(20);
        if in_window {
            results.push(tokio::time::timeout(timeout, client.raw_command(RawCommand::new("ping"))).await.map(show).unwrap_or_else(|_| "timeout".into()));
        } else {
            tokio::time::sleep(std::time::Duration::from_millis(30)).await;
        }
        results.push(tokio::time::timeout(timeout, client.raw_command(big)).await.map(show).unwrap_or_else(|_| "timeout".into()));
        tokio::time::sleep(std::time::Duration::from_millis(250)).await;
        results.push(tokio::time::timeout(timeout, client.raw_command(RawCommand::new("status"))).await.map(show).unwrap_or_else(|_| "timeout".into()));
        tokio::time::sleep(std::time::Duration::from_millis(250)).await;
        drop(client);
        let session = tokio::time::timeout(std::time::Duration::from_secs(10), server).await.ok().and_then(|r| r.ok()).unwrap_or_default();
        format!("results={} session={}", results.join(","), session.join(","))
    })
}

/// `bigevt <n> <cut> <req> <lines>`: the server's reply to `idle` is `changed: <name of n bytes>` (as line number <lines>, after
/// <lines>-1 ordinary `changed: player` lines) and arrives in two parts, the first <cut> bytes at once and the rest 60 ms later; with
/// req = 1 the application issues a `ping` in between (which cancels the receive in progress and makes the loop send `noidle`), with
/// req = 0 nothing happens meanwhile.  Prints the events delivered (long names as their length and byte sum) and the request results.
fn run_bigevt(toks: &[&str]) -> String {
    use mpd_protocol::command::Command as RawCommand;
    let n: usize = toks.get(1).and_then(|x| x.parse().ok()).unwrap_or(0);
    let cut: usize = toks.get(2).and_then(|x| x.parse().ok()).unwrap_or(0);
    let with_req = toks.get(3) == Some(&"1");
    let lines: usize = toks.get(4).and_then(|x| x.parse().ok()).unwrap_or(1).max(1);
    let rt = tokio::runtime::Builder::new_current_thread().enable_all().start_paused(true).build().unwrap();
    rt.block_on(async move {
        let (server_io, client_io) = tokio::io::duplex(1 << 16);
        let server = tokio::spawn(async move {
            let (rd, mut wr) = tokio::io::split(server_io);
            let mut rd = BufReader::new(rd);
            wr.write_all(b"OK MPD 0.23.5\n").await.ok();
            let mut reply: Vec<u8> = Vec::new();
            for _ in 1..lines {
                reply.extend_from_slice(b"changed: player\n");
            }
            reply.extend_from_slice(b"changed: ");
            reply.extend((0..n).map(|i| b'a' + (i % 23) as u8));
            reply.extend_from_slice(b"\nOK\n");
            let cut = cut.min(reply.len());
            let mut line = String::new();
            let mut first = true;
            let mut idle_open = false;
            let mut session: Vec<String> = Vec::new();
            loop {
                line.clear();
                match rd.read_line(&mut line).await {
                    Ok(0) | Err(_) => break,
                    Ok(_) => {}
                }
                let l = line.trim_end_matches('\n').to_string();
                session.push(l.clone());
                if l == "idle" {
                    if first {
                        first = false;
                        wr.write_all(&reply[..cut]).await.ok();
                        wr.flush().await.ok();
                        tokio::time::sleep(std::time::Duration::from_millis(60)).await;
                        wr.write_all(&reply[cut..]).await.ok();
                    } else {
                        idle_open = true;
                    }
                    continue;
                }
                if l == "noidle" {
                    // a noidle that crosses a reply which has already ended the idle is answered with nothing (as MPD does)
                    if idle_open {
                        idle_open = false;
                        wr.write_all(b"OK\n").await.ok();
                    }
                    continue;
                }
                idle_open = false;
                wr.write_all(b"OK\n").await.ok();
            }
            session
        });
        let Ok((client, mut events)) = Client::connect(client_io).await else { return "connect-error".to_string() };
        let mut results = Vec::new();
        if with_req {
            tokio::time::sleep(std::time::Duration::from_millis(25)).await;
            let r = tokio::time::timeout(std::time::Duration::from_secs(20), client.raw_command(RawCommand::new("ping"))).await;
            results.push(match r {
                Ok(Ok(_)) => "ok".to_string(),
                Ok(Err(e)) => format!("err:{}", format!("{e:?}").chars().take(60).collect::<String>().replace(' ', "_")),
                Err(_) => "timeout".to_string(),
            });
        }
        tokio::time::sleep(std::time::Duration::from_millis(300)).await;
        drop(client);
        let mut evs = Vec::new();
        while let Ok(Some(ev)) = tokio::time::timeout(std::time::Duration::from_secs(5), events.next()).await {
            let s = format!("{ev:?}").replace(' ', "_");
            evs.push(if s.len() > 120 { format!("{}..(len={},sum={})", &s[..40], s.len(), s.bytes().map(|b| b as u64).sum::<u64>()) } else { s });
        }
        let session = tokio::time::timeout(std::time::Duration::from_secs(10), server).await.ok().and_then(|r| r.ok()).unwrap_or_default();
        format!("events={} results={} session={}", evs.join(","), results.join(","), session.join(","))
    })
}

pub fn run(toks: &[&str]) -> String {
    if toks[0] == "bigreq" {
        return run_bigreq(toks);
    }
    if toks[0] == "bigevt" {
        return run_bigevt(toks);
    }
    if toks.len() < 5 {
        return "bad-args".into();
    }
    let source = toks[1].to_string();
    let size: usize = toks[2].parse().unwrap_or(0);
    let limit: usize = toks[3].parse().unwrap_or(8192).max(1);
    let with_mime = toks[4] == "1";
    let rt = tokio::runtime::Builder::new_current_thread().enable_all().build().unwrap();
    rt.block_on(async move {
        let pic = picture(size);
        let (server_io, client_io) = tokio::io::duplex(1 << 16);
        let pic_s = pic.clone();
        let src = source.clone();
        let server = tokio::spawn(async move {
            let (rd, mut wr) = tokio::io::split(server_io);
            let mut rd = BufReader::new(rd);
            wr.write_all(b"OK MPD 0.23.5\n").await.ok();
            let mut seen: Vec<(String, usize)> = Vec::new();
            let mut session: Vec<String> = Vec::new();     // every line the client wrote, by its first word
            let mut line = String::new();
            let mut idle = false;
            loop {
                line.clear();
                match rd.read_line(&mut line).await {
                    Ok(0) | Err(_) => break,
                    Ok(_) => {}
                }
                let l = line.trim_end_matches('\n').to_string();
                session.push(l.split(' ').next().unwrap_or("").to_string());
                if l == "idle" {
                    idle = true;
                    continue;
                }
                if l == "noidle" {
                    if idle {
                        wr.write_all(b"OK\n").await.ok();
                    }
                    idle = false;
                    continue;
                }
                idle = false;
                let mut parts = l.splitn(2, ' ');
                let name = parts.next().unwrap_or("").to_string();
                let rest = parts.next().unwrap_or("");
                let offset: usize = rest.rsplit(' ').next().and_then(|o| o.trim_matches('"').parse().ok()).unwrap_or(usize::MAX);
                seen.push((name.clone(), offset));
                let serves = match (name.as_str(), src.as_str()) {
                    ("readpicture", "e") => true,
                    ("albumart", "f") | ("albumart", "u") => true,
                    _ => false,
                };
                if name == "readpicture" && src == "u" {
                    wr.write_all(b"ACK [5@0] {} unknown command \"readpicture\"\n").await.ok();
                } else if name == "readpicture" && src == "f" {
                    wr.write_all(b"OK\n").await.ok();
                } else if serves && offset <= pic_s.len() {
                    let end = (offset + limit).min(pic_s.len());
                    let chunk = &pic_s[offset..end];
                    let mut out = format!("size: {}\n", pic_s.len()).into_bytes();
                    if name == "readpicture" && with_mime {
                        out.extend_from_slice(b"type: image/jpeg\n");
                    }
                    out.extend_from_slice(format!("binary: {}\n", chunk.len()).as_bytes());
                    out.extend_from_slice(chunk);
                    out.extend_from_slice(b"\nOK\n");
                    if wr.write_all(&out).await.is_err() {
                        break;
                    }
                } else {
                    wr.write_all(b"ACK [2@0] {} bad request\n").await.ok();
                }
            }
            (seen, session)
        });
        let connected = Client::connect(client_io).await;
        let (client, _events) = match connected {
            Ok(x) => x,
            Err(e) => return format!("connect-error {}", hex(format!("{e:?}").as_bytes())),
        };
        let res = tokio::time::timeout(std::time::Duration::from_secs(10), client.album_art("song.flac")).await;
        let shown = match res {
            Err(_) => "timeout".to_string(),
            Ok(Err(e)) => format!("error {}", hex(format!("{e:?}").chars().take(120).collect::<String>().as_bytes())),
            Ok(Ok(None)) => "none".to_string(),
            Ok(Ok(Some((data, mime)))) => {
                let sum: u64 = data.iter().map(|b| *b as u64).sum();
                let diff = data.iter().zip(pic.iter()).position(|(a, b)| a != b);
                format!(
                    "some len={} sum={} firstdiff={} mime={}",
                    data.len(),
                    sum,
                    diff.map(|d| d.to_string()).unwrap_or_else(|| if data.len() == pic.len() { "~".into() } else { "length".into() }),
                    mime.map(|m| hex(m.as_bytes())).unwrap_or_else(|| "~".into())
                )
            }
        };
        if toks.get(5) == Some(&"linger") {
            // keep the client for a while after the load: it returns to idle, and whatever it still has buffered shows
            tokio::time::sleep(std::time::Duration::from_millis(350)).await;
        }
        drop(client);
        let (seen, session) = tokio::time::timeout(std::time::Duration::from_secs(10), server).await.ok().and_then(|r| r.ok()).unwrap_or_default();
        // the session as the server saw it, runs of the same word folded: idle,noidle,readpicture*3,idle
        let mut folded: Vec<(String, usize)> = Vec::new();
        for w in session {
            match folded.last_mut() {
                Some((last, n)) if *last == w => *n += 1,
                _ => folded.push((w, 1)),
            }
        }
        let session_txt = folded.iter().map(|(w, n)| if *n == 1 { w.clone() } else { format!("{w}*{n}") }).collect::<Vec<_>>().join(",");
        // the requests: which commands, and were the offsets exactly the multiples of the limit, ascending, each once?
        let art: Vec<&(String, usize)> = seen.iter().filter(|(n, _)| n == "readpicture" || n == "albumart").collect();
        let serving: Vec<usize> = art
            .iter()
            .filter(|(n, _)| (n == "readpicture") == (source == "e"))
            .map(|(_, o)| *o)
            .collect();
        let exact = serving.iter().enumerate().all(|(i, o)| *o == i * limit);
        let first: Vec<String> = art.iter().take(3).map(|(n, o)| format!("{n}@{o}")).collect();
        format!("{shown} requests={} serving={} offsets_exact={} first={} session={}", art.len(), serving.len(), exact as u8, first.join(","), session_txt)
    })
}
