//! Hex helpers shared by all case kinds ("-" is the empty string).
#![allow(dead_code)]

/// Number of panics seen by the process-wide hook (panics inside spawned tasks are swallowed by
/// the runtime; the replayer reports them through this counter).
pub static PANIC_COUNT: std::sync::atomic::AtomicUsize = std::sync::atomic::AtomicUsize::new(0);

pub fn hex(b: &[u8]) -> String {
    if b.is_empty() {
        return "-".to_string();
    }
    let mut s = String::with_capacity(b.len() * 2);
    for x in b {
        s.push_str(&format!("{:02x}", x));
    }
    s
}

pub fn unhex(s: &str) -> Vec<u8> {
    if s == "-" {
        return Vec::new();
    }
    let b = s.as_bytes();
    let mut out = Vec::with_capacity(b.len() / 2);
    let mut i = 0;
    while i + 1 < b.len() {
        let h = (b[i] as char).to_digit(16).unwrap_or(0) as u8;
        let l = (b[i + 1] as char).to_digit(16).unwrap_or(0) as u8;
        out.push(h * 16 + l);
        i += 2;
    }
    out
}

pub fn unhex_str(s: &str) -> Option<String> {
    String::from_utf8(unhex(s)).ok()
}

/// Run `f`, turning a panic into `Err(message)`.
pub fn catch<T>(f: impl FnOnce() -> T) -> Result<T, String> {
    match std::panic::catch_unwind(std::panic::AssertUnwindSafe(f)) {
        Ok(v) => Ok(v),
        Err(e) => {
            let msg = if let Some(s) = e.downcast_ref::<&str>() {
                s.to_string()
            } else if let Some(s) = e.downcast_ref::<String>() {
                s.clone()
            } else {
                "?".to_string()
            };
            Err(msg)
        }
    }
}
