//! C12 / C16: typed responses.  `typed <Ident> <params> <hex wire>` pushes the wire bytes through
//! the real parser, calls the real `Command::response` and walks every public accessor/iterator of
//! the result; `typedlist <vec|tuple> <Ident[/params],...> <hex wire>` does the same through the
//! real `CommandList::responses` impls (Vec and tuples of arity 1..8).  Everything runs under
//! `catch`; a panic prints `PANIC`.
use std::time::Duration;

use mpd_client::commands::{self as cmds, Command, CommandList, SingleMode, SongId, SongPosition};
use mpd_client::filter::Filter;
use mpd_client::responses::{self as res, TypedResponseError};
use mpd_client::tag::Tag;
use mpd_protocol::command::Command as RawCommand;
use mpd_protocol::response::Frame;

use crate::framecases::response_of_wire;
use crate::tagcases::{tag_ident, tag_name, tag_of_spec};
use crate::util::*;

type R = Result<String, TypedResponseError>;

fn show_tag(t: &Tag) -> String {
    format!("{}/{}", tag_ident(t), hex(&tag_name(t)))
}

fn nanos(d: Duration) -> String {
    d.as_nanos().to_string()
}

fn opt<T>(o: Option<T>, f: impl FnOnce(T) -> String) -> String {
    match o {
        None => "none".into(),
        Some(x) => format!("some:{}", f(x)),
    }
}

fn hs(s: &str) -> String {
    hex(s.as_bytes())
}

fn err_kind(e: &TypedResponseError) -> String {
    // ErrorKind is private: classify through Display (and make sure Debug/source do not panic)
    let _ = format!("{:?}", e);
    let _ = std::error::Error::source(e).map(|s| s.to_string());
    let d = e.to_string();
    if let Some(rest) = d.strip_prefix("field \"") {
        if let Some(f) = rest.strip_suffix("\" is required but missing") {
            return format!("err missing {}", f);
        }
    }
    if let Some(rest) = d.strip_prefix("expected field \"") {
        if let Some((e, f)) = rest.split_once("\" but found \"") {
            return format!("err unexpected {} {}", e, f.strip_suffix('"').unwrap_or(f));
        }
    }
    if d.starts_with("invalid value ") {
        if let Some((_, f)) = d.rsplit_once(" for field \"") {
            return format!("err invalid {}", f.strip_suffix('"').unwrap_or(f));
        }
    }
    if d == "invalid response" {
        return "err other".into();
    }
    format!("err ?{}", hs(&d))
}

fn show_status(s: res::Status) -> String {
    let c = s.clone();
    assert!(c == s);
    let pair = |p: (SongPosition, SongId)| format!("{}/{}", p.0 .0, p.1 .0);
    format!(
        "status volume={} state={:?} repeat={} random={} consume={} single={} playlist={} playlistlength={} song={} nextsong={} elapsed={} duration={} bitrate={} xfade={} updating_db={} error={} partition={}",
        s.volume,
        s.state,
        s.repeat as u8,
        s.random as u8,
        s.consume as u8,
        match s.single {
            SingleMode::Enabled => "Enabled",
            SingleMode::Disabled => "Disabled",
            SingleMode::Oneshot => "Oneshot",
        },
        s.playlist_version,
        s.playlist_length,
        opt(s.current_song, pair),
        opt(s.next_song, pair),
        opt(s.elapsed, nanos),
        opt(s.duration, nanos),
        opt(s.bitrate, |b| b.to_string()),
        nanos(s.crossfade),
        opt(s.update_job, |b| b.to_string()),
        opt(s.error.as_deref(), hs),
        opt(s.partition.as_deref(), hs),
    )
}

fn show_stats(s: res::Stats) -> String {
    format!(
        "stats artists={} albums={} songs={} uptime={} playtime={} db_playtime={} db_update={}",
        s.artists,
        s.albums,
        s.songs,
        nanos(s.uptime),
        nanos(s.playtime),
        nanos(s.db_playtime),
        s.db_last_update
    )
}

fn show_list<const N: usize>(l: res::List<N>, values: Option<Vec<String>>) -> String {
    let grouped_by: Vec<String> = l.grouped_by().iter().map(show_tag).collect();
    let mut grouped = Vec::new();
    let it = l.grouped_values();
    let it2 = it.clone();
    let _ = format!("{:?}", it2);
    for (v, gs) in it {
        let g: Vec<String> = gs.iter().map(|s| hs(s)).collect();
        grouped.push(format!("{}({})", hs(v), g.join(";")));
    }
    // a second, independently driven iteration must agree and stay exhausted
    let mut it3 = l.grouped_values();
    let mut n = 0;
    while it3.next().is_some() {
        n += 1;
    }
    assert_eq!(n, grouped.len());
    assert!(it3.next().is_none());
    let c = l.clone();
    assert!(c == l);
    let raw: Vec<String> = l.into_raw_values().iter().map(|(t, v)| format!("{}:{}", show_tag(t), hs(v))).collect();
    format!(
        "list grouped_by=[{}] raw=[{}] values={} grouped=[{}]",
        grouped_by.join(","),
        raw.join(","),
        match values {
            Some(v) => format!("[{}]", v.join(",")),
            None => "na".into(),
        },
        grouped.join(",")
    )
}

/// every method of ListValuesIter / ListValuesIntoIter, cross-checked against plain collection
fn walk_list0(l: &res::List<0>) -> Vec<String> {
    let vals: Vec<String> = l.values().map(hs).collect();
    let n = vals.len();
    let it = l.values();
    assert_eq!(it.size_hint(), (n, Some(n)));
    assert_eq!(it.len(), n);
    assert_eq!(l.values().count(), n);
    assert_eq!(l.values().last().map(hs), vals.last().cloned());
    let rev: Vec<String> = l.values().rev().map(hs).collect();
    assert!(rev.iter().rev().eq(vals.iter()));
    for k in [0usize, 1, n / 2, n, n + 1, usize::MAX] {
        assert_eq!(l.values().nth(k).map(hs), vals.get(k).cloned());
        let back = if k < n { vals.get(n - 1 - k).cloned() } else { None };
        assert_eq!(l.values().nth_back(k).map(hs), back);
    }
    let by_ref: Vec<String> = l.into_iter().map(hs).collect();
    assert_eq!(by_ref, vals);
    let _ = format!("{:?}", l.values().clone());
    // owned iterator
    let owned: Vec<String> = l.clone().into_iter().map(|s| hs(&s)).collect();
    assert_eq!(owned, vals);
    let it = l.clone().into_iter();
    assert_eq!(it.size_hint(), (n, Some(n)));
    assert_eq!(it.len(), n);
    let _ = format!("{:?}", it);
    assert_eq!(l.clone().into_iter().count(), n);
    assert_eq!(l.clone().into_iter().last().map(|s| hs(&s)), vals.last().cloned());
    let rev: Vec<String> = l.clone().into_iter().rev().map(|s| hs(&s)).collect();
    assert!(rev.iter().rev().eq(vals.iter()));
    for k in [0usize, 1, n / 2, n, n + 1, usize::MAX] {
        assert_eq!(l.clone().into_iter().nth(k).map(|s| hs(&s)), vals.get(k).cloned());
        let back = if k < n { vals.get(n - 1 - k).cloned() } else { None };
        assert_eq!(l.clone().into_iter().nth_back(k).map(|s| hs(&s)), back);
    }
    let mut it = l.values();
    let mut mixed = 0;
    loop {
        let a = it.next();
        let b = it.next_back();
        mixed += a.is_some() as usize + b.is_some() as usize;
        if a.is_none() && b.is_none() {
            break;
        }
    }
    assert_eq!(mixed, n);
    vals
}

fn show_song(s: &res::Song) -> usize {
    let mut n = s.url.len();
    n += s.file_path().as_os_str().len();
    n += s.artists().len() + s.album_artists().len();
    n += s.album().map_or(0, str::len) + s.title().map_or(0, str::len);
    let (d, t) = s.number();
    n = n.wrapping_add(d as usize).wrapping_add(t as usize);
    n = n.wrapping_add(s.duration.map_or(0, |d| d.as_nanos() as usize));
    for (t, vs) in &s.tags {
        n = n.wrapping_add(tag_name(t).len() + vs.len());
    }
    n += s.format.as_deref().map_or(0, str::len);
    if let Some(ts) = &s.last_modified {
        n += ts.raw().len();
        #[cfg(feature = "chrono")]
        {
            let _ = ts.chrono_datetime();
        }
    }
    let _ = format!("{:?}", s);
    assert!(s.clone() == *s);
    n
}

fn show_queue_song(s: &res::SongInQueue) -> usize {
    let mut n = s.position.0.wrapping_add(s.id.0 as usize).wrapping_add(s.priority as usize);
    if let Some(r) = s.range {
        n = n.wrapping_add(r.from.as_nanos() as usize).wrapping_add(r.to.map_or(0, |d| d.as_nanos() as usize));
    }
    n.wrapping_add(show_song(&s.song))
}

fn some_filter() -> Filter {
    Filter::tag(Tag::Artist, "x")
}

fn unit(r: Result<(), TypedResponseError>) -> R {
    r.map(|()| "unit".to_string())
}

fn sorted_map(m: std::collections::HashMap<String, String>) -> String {
    let mut v: Vec<(String, String)> = m.into_iter().collect();
    v.sort();
    let items: Vec<String> = v.iter().map(|(k, v)| format!("{}={}", hs(k), hs(v))).collect();
    format!("stickers [{}]", items.join(","))
}

fn show_art(a: Option<res::AlbumArt>) -> String {
    match a {
        None => "albumart none".into(),
        Some(a) => {
            assert!(a.clone() == a);
            format!("albumart size={} mime={} data={}", a.size, opt(a.mime.as_deref(), hs), hex(&a.data))
        }
    }
}

/// The real `Command::response` of the command named `ident`, result printed canonically.
fn respond(ident: &str, params: &str, frame: Frame) -> Option<R> {
    let tags: Vec<Tag> = if params == "-" { Vec::new() } else { params.split('+').filter_map(tag_of_spec).collect() };
    Some(match ident {
        // ---- commands whose response ignores the frame
        "ClearQueue" => unit(cmds::ClearQueue.response(frame)),
        "Next" => unit(cmds::Next.response(frame)),
        "Ping" => unit(cmds::Ping.response(frame)),
        "Previous" => unit(cmds::Previous.response(frame)),
        "Stop" => unit(cmds::Stop.response(frame)),
        "ClearPlaylist" => unit(cmds::ClearPlaylist("p").response(frame)),
        "DeletePlaylist" => unit(cmds::DeletePlaylist("p").response(frame)),
        "SaveQueueAsPlaylist" => unit(cmds::SaveQueueAsPlaylist("p").response(frame)),
        "SetConsume" => unit(cmds::SetConsume(true).response(frame)),
        "SetPause" => unit(cmds::SetPause(true).response(frame)),
        "SetRandom" => unit(cmds::SetRandom(true).response(frame)),
        "SetRepeat" => unit(cmds::SetRepeat(true).response(frame)),
        "SubscribeToChannel" => unit(cmds::SubscribeToChannel("c").response(frame)),
        "UnsubscribeFromChannel" => unit(cmds::UnsubscribeFromChannel("c").response(frame)),
        "SetVolume" => unit(cmds::SetVolume(5).response(frame)),
        "SetSingle" => unit(cmds::SetSingle(SingleMode::Oneshot).response(frame)),
        "SetReplayGainMode" => unit(cmds::SetReplayGainMode(cmds::ReplayGainMode::Auto).response(frame)),
        "Crossfade" => unit(cmds::Crossfade(Duration::from_secs(2)).response(frame)),
        "SeekTo" => unit(cmds::SeekTo(cmds::Song::Id(SongId(1)), Duration::from_secs(2)).response(frame)),
        "Seek" => unit(cmds::Seek(cmds::SeekMode::Absolute(Duration::from_secs(2))).response(frame)),
        "Shuffle" => unit(cmds::Shuffle::all().response(frame)),
        "Play" => unit(cmds::Play::current().response(frame)),
        "Delete" => unit(cmds::Delete::id(SongId(1)).response(frame)),
        "Move" => unit(cmds::Move::id(SongId(1)).to_position(SongPosition(0)).response(frame)),
        "RenamePlaylist" => unit(cmds::RenamePlaylist::new("a", "b").response(frame)),
        "LoadPlaylist" => unit(cmds::LoadPlaylist::name("a").response(frame)),
        "AddToPlaylist" => unit(cmds::AddToPlaylist::new("a", "b").response(frame)),
        "RemoveFromPlaylist" => unit(cmds::RemoveFromPlaylist::position("a", 0).response(frame)),
        "MoveInPlaylist" => unit(cmds::MoveInPlaylist::new("a", 0, 1).response(frame)),
        "SetBinaryLimit" => unit(cmds::SetBinaryLimit(8192).response(frame)),
        "TagTypes" => unit(cmds::TagTypes::enable_all().response(frame)),
        "StickerSet" => unit(cmds::StickerSet::new("u", "n", "v").response(frame)),
        "StickerDelete" => unit(cmds::StickerDelete::new("u", "n").response(frame)),
        "SendChannelMessage" => unit(cmds::SendChannelMessage::new("c", "m").response(frame)),
        // ---- C16 replies
        "Status" => cmds::Status.response(frame).map(show_status),
        "Stats" => cmds::Stats.response(frame).map(|s| {
            let c = s;
            assert!(c == s);
            show_stats(s)
        }),
        "ReplayGainStatus" => cmds::ReplayGainStatus.response(frame).map(|r| format!("replaygain mode={:?}", r.mode)),
        "Count" => cmds::Count::new(some_filter())
            .response(frame)
            .map(|c| format!("count songs={} playtime={}", c.songs, nanos(c.playtime))),
        "CountGrouped" => {
            let g = tags.first()?.clone();
            cmds::CountGrouped::new(g).response(frame).map(|v| {
                let items: Vec<String> =
                    v.iter().map(|(k, c)| format!("{}:{}:{}", hs(k), c.songs, nanos(c.playtime))).collect();
                format!("countgrouped [{}]", items.join(","))
            })
        }
        "List" => {
            let p = tags.first()?.clone();
            let base = cmds::List::new(p);
            match tags.len() {
                1 => base.response(frame).map(|l| {
                    let vals = walk_list0(&l);
                    show_list(l, Some(vals))
                }),
                2 => base.group_by([tags[1].clone()]).response(frame).map(|l| show_list(l, None)),
                3 => base.group_by([tags[1].clone(), tags[2].clone()]).response(frame).map(|l| show_list(l, None)),
                4 => base
                    .group_by([tags[1].clone(), tags[2].clone(), tags[3].clone()])
                    .response(frame)
                    .map(|l| show_list(l, None)),
                _ => return None,
            }
        }
        "GetPlaylists" => cmds::GetPlaylists.response(frame).map(|v| {
            let items: Vec<String> = v
                .iter()
                .map(|p| {
                    #[cfg(feature = "chrono")]
                    {
                        // the parsed value is the text the server sent, read as RFC 3339: same instant AND same offset (what the
                        // server wrote is not normalised away), and text that is not RFC 3339 was not accepted
                        let dt0 = p.last_modified.chrono_datetime();
                        match chrono::DateTime::parse_from_rfc3339(p.last_modified.raw()) {
                            Ok(want) if want == dt0 && want.offset() == dt0.offset() && want.naive_local() == dt0.naive_local() => {}
                            Ok(want) => return format!("INCONSISTENT Last-Modified_{:?}_was_parsed_as_{}_(offset_{}),_RFC_3339_says_{}_(offset_{})",
                                                       p.last_modified.raw(), dt0.to_rfc3339(), dt0.offset(), want.to_rfc3339(), want.offset()),
                            Err(_) => return format!("INCONSISTENT Last-Modified_{:?}_is_not_RFC_3339_but_was_accepted_as_{}", p.last_modified.raw(), dt0.to_rfc3339()),
                        }
                        let dt = p.last_modified.chrono_datetime();
                        let _ = p.last_modified == dt;
                        let _ = p.last_modified.partial_cmp(&dt);
                    }
                    let c = p.clone();
                    assert!(c == *p && c.last_modified.cmp(&p.last_modified) == std::cmp::Ordering::Equal);
                    format!("{}@{}", hs(&p.name), hs(p.last_modified.raw()))
                })
                .collect();
            format!("playlists [{}]", items.join(","))
        }),
        "GetEnabledTagTypes" => cmds::GetEnabledTagTypes.response(frame).map(|v| {
            let items: Vec<String> = v.iter().map(show_tag).collect();
            format!("tags [{}]", items.join(","))
        }),
        "Add" => cmds::Add::uri("x").response(frame).map(|id| format!("id {}", id.0)),
        "Update" => cmds::Update::new().response(frame).map(|id| format!("id {}", id)),
        "Rescan" => cmds::Rescan::new().response(frame).map(|id| format!("id {}", id)),
        "StickerGet" => cmds::StickerGet::new("u", "n").response(frame).map(|s| {
            let v = s.value.clone();
            assert_eq!(String::from(s), v);
            format!("sticker {}", hs(&v))
        }),
        "StickerList" => cmds::StickerList::new("u").response(frame).map(|s| {
            let m = s.value.clone();
            assert!(std::collections::HashMap::from(s) == m);
            sorted_map(m)
        }),
        "StickerFind" => cmds::StickerFind::new("u", "n").response(frame).map(|s| {
            assert!(s.clone() == s);
            sorted_map(s.value)
        }),
        "ReadChannelMessages" => cmds::ReadChannelMessages.response(frame).map(|v| {
            let items: Vec<String> = v.iter().map(|(c, m)| format!("{}:{}", hs(c), hs(m))).collect();
            format!("messages [{}]", items.join(","))
        }),
        "ListChannels" => cmds::ListChannels.response(frame).map(|v| {
            let items: Vec<String> = v.iter().map(|c| hs(c)).collect();
            format!("channels [{}]", items.join(","))
        }),
        // the chunk in the reply is the chunk, whatever offset the request asked for (a picture may have shrunk in the meantime)
        "AlbumArt" => {
            let plain = cmds::AlbumArt::new("u").response(frame.clone()).map(show_art);
            let plain_txt = match &plain { Ok(s) => format!("ok {s}"), Err(e) => err_kind(e) };
            for off in [0usize, 1, 3, 4096, 1 << 20, usize::MAX] {
                let f2 = frame.clone();
                let got = match catch(move || cmds::AlbumArt::new("u").offset(off).response(f2).map(show_art)) {
                    Err(_) => "PANIC".to_string(),
                    Ok(Ok(s)) => format!("ok {s}"),
                    Ok(Err(e)) => err_kind(&e),
                };
                if got != plain_txt {
                    return Some(Ok(format!("INCONSISTENT AlbumArt::new(u).offset({off}).response(reply) = {} but without the offset = {}", got.replace(' ', "_"), plain_txt.replace(' ', "_"))));
                }
            }
            plain
        }
        "AlbumArtEmbedded" => {
            let plain = cmds::AlbumArtEmbedded::new("u").response(frame.clone()).map(show_art);
            let plain_txt = match &plain { Ok(s) => format!("ok {s}"), Err(e) => err_kind(e) };
            for off in [0usize, 1, 3, 4096, 1 << 20, usize::MAX] {
                let f2 = frame.clone();
                let got = match catch(move || cmds::AlbumArtEmbedded::new("u").offset(off).response(f2).map(show_art)) {
                    Err(_) => "PANIC".to_string(),
                    Ok(Ok(s)) => format!("ok {s}"),
                    Ok(Err(e)) => err_kind(&e),
                };
                if got != plain_txt {
                    return Some(Ok(format!("INCONSISTENT AlbumArtEmbedded::new(u).offset({off}).response(reply) = {} but without the offset = {}", got.replace(' ', "_"), plain_txt.replace(' ', "_"))));
                }
            }
            plain
        }
        // ---- song listings (modelled by C14): here only walked for panics
        "Queue" => cmds::Queue.response(frame).map(|v| format!("songs {} {}", v.len(), v.iter().map(show_queue_song).fold(0usize, usize::wrapping_add))),
        "QueueRange" => {
            let show = |r: Result<Vec<mpd_client::responses::SongInQueue>, TypedResponseError>| {
                r.map(|v| format!("songs {} {}", v.len(), v.iter().map(show_queue_song).fold(0usize, usize::wrapping_add)))
            };
            let variants: Vec<(&str, cmds::QueueRange)> = vec![
                ("range(..)", cmds::QueueRange::range(..)),
                ("range(5..2)", cmds::QueueRange::range(SongPosition(5)..SongPosition(2))),
                ("range(..=MAX)", cmds::QueueRange::range(..=SongPosition(usize::MAX))),
                ("range(7..MAX)", cmds::QueueRange::range(SongPosition(7)..SongPosition(usize::MAX))),
                ("song(position)", cmds::QueueRange::song(SongPosition(usize::MAX))),
                ("song(id)", cmds::QueueRange::song(mpd_client::commands::SongId(u64::MAX))),
            ];
            let plain = show(cmds::QueueRange::range(SongPosition(0)..SongPosition(5)).response(frame.clone()));
            let plain_txt = match &plain { Ok(s) => format!("ok {s}"), Err(e) => err_kind(e) };
            for (name, cmd) in variants {
                let f2 = frame.clone();
                let got = match catch(move || show(cmd.response(f2))) {
                    Err(_) => "PANIC".to_string(),
                    Ok(Ok(s)) => format!("ok {s}"),
                    Ok(Err(e)) => err_kind(&e),
                };
                if got != plain_txt {
                    return Some(Ok(format!("INCONSISTENT QueueRange::{name}.response(reply) = {} but QueueRange::range(0..5).response(reply) = {}", got.replace(' ', "_"), plain_txt.replace(' ', "_"))));
                }
            }
            plain
        }
        "CurrentSong" => cmds::CurrentSong
            .response(frame)
            .map(|v| format!("songs {} {}", v.is_some() as u8, v.iter().map(show_queue_song).fold(0usize, usize::wrapping_add))),
        "Find" => {
            // what the reply means does not depend on how the request was configured: every sort / window, the extreme and the
            // inverted ones included, converts the same frame to the same songs
            let show = |r: Result<Vec<mpd_client::responses::Song>, TypedResponseError>| {
                r.map(|v| format!("songs {} {}", v.len(), v.iter().map(show_song).fold(0usize, usize::wrapping_add)))
            };
            let base = || cmds::Find::new(some_filter());
            let variants: Vec<(&str, cmds::Find)> = vec![
                ("window(..)", base().window(..)),
                ("window(0..1)", base().window(0..1)),
                ("window(5..)", base().window(5..)),
                ("window(..=usize::MAX)", base().window(..=usize::MAX)),
                ("window(10..usize::MAX)", base().window(10..usize::MAX)),
                ("window(10..5)", base().window(10..5)),
                ("window(3..3)", base().window(3..3)),
                ("sort(Album)", base().sort(Tag::Album)),
                ("sort(Album).window(2..9)", base().sort(Tag::Album).window(2..9)),
                ("window(2..9).sort(Album)", base().window(2..9).sort(Tag::Album)),
            ];
            let plain = show(base().response(frame.clone()));
            let plain_txt = match &plain { Ok(s) => format!("ok {s}"), Err(e) => err_kind(e) };
            for (name, cmd) in variants {
                let f2 = frame.clone();
                let got = match catch(move || show(cmd.response(f2))) {
                    Err(_) => "PANIC".to_string(),
                    Ok(Ok(s)) => format!("ok {s}"),
                    Ok(Err(e)) => err_kind(&e),
                };
                if got != plain_txt {
                    return Some(Ok(format!("INCONSISTENT Find::new(f).{name}.response(reply) = {} but Find::new(f).response(reply) = {}", got.replace(' ', "_"), plain_txt.replace(' ', "_"))));
                }
            }
            plain
        }
        "GetPlaylist" => cmds::GetPlaylist("p")
            .response(frame)
            .map(|v| format!("songs {} {}", v.len(), v.iter().map(show_song).fold(0usize, usize::wrapping_add))),
        "ListAllIn" => cmds::ListAllIn::root()
            .response(frame)
            .map(|v| format!("songs {} {}", v.len(), v.iter().map(show_song).fold(0usize, usize::wrapping_add))),
        _ => return None,
    })
}

/// One element of a typed command list: dispatches to the real command by name.
struct AnyCmd {
    ident: String,
    params: String,
}

impl Command for AnyCmd {
    type Response = String;

    fn command(&self) -> RawCommand {
        RawCommand::new("ping")
    }

    fn response(self, frame: Frame) -> Result<String, TypedResponseError> {
        match respond(&self.ident, &self.params, frame) {
            Some(r) => r,
            None => Ok("unknown-command".into()),
        }
    }
}

fn show_result(r: Result<R, String>) -> String {
    match r {
        Err(_) => "PANIC".into(),
        Ok(Ok(s)) => format!("ok {}", s),
        Ok(Err(e)) => match catch(|| err_kind(&e)) {
            Ok(s) => s,
            Err(_) => "PANIC".into(),
        },
    }
}

macro_rules! tuple_of {
    ($v:ident, $($i:tt),+) => {{
        let mut it = $v.into_iter();
        ($({ let _ = $i; it.next().unwrap() },)+)
    }};
}

macro_rules! join_tuple {
    ($t:expr, $($i:tt),+) => {{
        let t = $t;
        vec![$(t.$i),+]
    }};
}

pub fn run(toks: &[&str]) -> String {
    match toks[0] {
        "typed" => {
            if toks.len() != 4 {
                return "bad-case".into();
            }
            let (ident, params, wire) = (toks[1], toks[2], unhex(toks[3]));
            let Some(resp) = response_of_wire(&wire) else { return "noresponse".into() };
            let Ok(frame) = resp.into_single_frame() else { return "errresp".into() };
            match catch(|| respond(ident, params, frame)) {
                Err(_) => "PANIC".into(),
                Ok(None) => "unknown-command".into(),
                Ok(Some(r)) => show_result(Ok(r)),
            }
        }
        "typedlist" => {
            if toks.len() != 4 {
                return "bad-case".into();
            }
            let shape = toks[1];
            let specs: Vec<AnyCmd> = if toks[2] == "-" {
                Vec::new()
            } else {
                toks[2]
                    .split(',')
                    .map(|s| {
                        let (i, p) = s.split_once('/').unwrap_or((s, "-"));
                        AnyCmd { ident: i.to_string(), params: p.to_string() }
                    })
                    .collect()
            };
            let Some(resp) = response_of_wire(&unhex(toks[3])) else { return "noresponse".into() };
            // Client::raw_command_list: all frames, or the error
            let mut frames = Vec::with_capacity(resp.successful_frames());
            for f in resp {
                match f {
                    Ok(f) => frames.push(f),
                    Err(_) => return "errresp".into(),
                }
            }
            let join = |v: Vec<String>| format!("[{}]", v.join(" | "));
            let n = specs.len();
            let r = catch(move || -> R {
                match shape {
                    "vec" => {
                        // Client::command_list: no commands, nothing sent, no frames
                        let frames = if specs.command_list().is_none() { Vec::new() } else { frames };
                        specs.responses(frames).map(join)
                    }
                    _ => match n {
                        1 => tuple_of!(specs, 0).responses(frames).map(|t| join(join_tuple!(t, 0))),
                        2 => tuple_of!(specs, 0, 1).responses(frames).map(|t| join(join_tuple!(t, 0, 1))),
                        3 => tuple_of!(specs, 0, 1, 2).responses(frames).map(|t| join(join_tuple!(t, 0, 1, 2))),
                        4 => tuple_of!(specs, 0, 1, 2, 3).responses(frames).map(|t| join(join_tuple!(t, 0, 1, 2, 3))),
                        5 => tuple_of!(specs, 0, 1, 2, 3, 4).responses(frames).map(|t| join(join_tuple!(t, 0, 1, 2, 3, 4))),
                        6 => tuple_of!(specs, 0, 1, 2, 3, 4, 5).responses(frames).map(|t| join(join_tuple!(t, 0, 1, 2, 3, 4, 5))),
                        7 => tuple_of!(specs, 0, 1, 2, 3, 4, 5, 6)
                            .responses(frames)
                            .map(|t| join(join_tuple!(t, 0, 1, 2, 3, 4, 5, 6))),
                        8 => tuple_of!(specs, 0, 1, 2, 3, 4, 5, 6, 7)
                            .responses(frames)
                            .map(|t| join(join_tuple!(t, 0, 1, 2, 3, 4, 5, 6, 7))),
                        _ => Ok("bad-arity".into()),
                    },
                }
            });
            show_result(r)
        }
        _ => "unknown-kind".into(),
    }
}
