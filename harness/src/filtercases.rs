//! C11: filters built through the public API of `mpd_client::filter`, rendered through the
//! predefined commands that take a filter; the wire line is observed as `Connection::send` writes it.
//!
//! Case line: `filter <how> <tree>` (grammar in coq/DriverFilter.v).
use mpd_client::commands::{self, Command as _};
use mpd_client::filter::{Filter, Operator};
use mpd_client::tag::Tag;

use crate::cmdcases::sent_bytes;
use crate::tagcases::tag_of_spec;
use crate::util::*;

fn tag_of(spec: &str) -> Option<Tag> {
    if spec == "any" {
        Some(Tag::any())
    } else {
        tag_of_spec(spec)
    }
}

fn op_of(ident: &str) -> Option<Operator> {
    Some(match ident {
        "Equal" => Operator::Equal,
        "NotEqual" => Operator::NotEqual,
        "Contain" => Operator::Contain,
        "Match" => Operator::Match,
        "NotMatch" => Operator::NotMatch,
        _ => return None,
    })
}

/// Recursive descent over the construction script; performs the same API calls the script names.
fn parse_tree(s: &str) -> Option<(Filter, &str)> {
    let b = s.as_bytes();
    if b.len() >= 2 && b[1] == b'(' {
        match b[0] {
            b'N' | b'!' => {
                let (x, rest) = parse_tree(&s[2..])?;
                let rest = rest.strip_prefix(')')?;
                let f = if b[0] == b'N' { x.negate() } else { !x };
                return Some((f, rest));
            }
            b'R' => {
                // the filter is rendered once by reference at this point of its history (e.g. logged, or sent in an earlier request)
                let (x, rest) = parse_tree(&s[2..])?;
                let rest = rest.strip_prefix(')')?;
                let _ = catch(|| sent_bytes(&mpd_protocol::command::Command::new("count").argument(&x)));
                return Some((x, rest));
            }
            b'&' => {
                let (x, rest) = parse_tree(&s[2..])?;
                let rest = rest.strip_prefix(',')?;
                let (y, rest) = parse_tree(rest)?;
                let rest = rest.strip_prefix(')')?;
                return Some((x.and(y), rest));
            }
            _ => return None,
        }
    }
    let end = s.find(|c| c == '(' || c == ')' || c == ',').unwrap_or(s.len());
    let (tok, rest) = s.split_at(end);
    let fields: Vec<&str> = tok.split('/').collect();
    let f = match fields.as_slice() {
        ["T", t, o, v] => Filter::new(tag_of(t)?, op_of(o)?, unhex_str(v)?),
        ["t", t, v] => Filter::tag(tag_of(t)?, unhex_str(v)?),
        ["E", t] => Filter::tag_exists(tag_of(t)?),
        ["A", t] => Filter::tag_absent(tag_of(t)?),
        _ => return None,
    };
    Some((f, rest))
}

pub fn run(toks: &[&str]) -> String {
    if toks.len() != 3 {
        return "bad-case".into();
    }
    let how = toks[1];
    let Some((f, rest)) = parse_tree(toks[2]) else { return "bad-tree".into() };
    if !rest.is_empty() {
        return "bad-tree".into();
    }
    // a filter is a value: a clone, and a clone written over ANY earlier filter (`clone_from`, also reached through
    // Vec / Option), renders exactly like the original
    {
        let f0 = f.clone();
        let differs = catch(move || {
            let want = sent_bytes(&commands::Find::new(f0.clone()).command());
            if sent_bytes(&commands::Find::new(f0.clone().clone()).command()) != want {
                return Some("clone()".to_string());
            }
            let targets: Vec<(&str, Filter)> = vec![
                ("a == leaf", Filter::new(Tag::Artist, Operator::Equal, "old")),
                ("a != leaf", Filter::new(Tag::Title, Operator::NotEqual, "old")),
                ("a contains leaf", Filter::new(Tag::Album, Operator::Contain, "old")),
                ("a =~ leaf", Filter::new(Tag::Genre, Operator::Match, "o.*")),
                ("a !~ leaf", Filter::new(Tag::Genre, Operator::NotMatch, "o.*")),
                ("tag_exists", Filter::tag_exists(Tag::Date)),
                ("tag_absent", Filter::tag_absent(Tag::Date)),
                ("a negated leaf", Filter::tag(Tag::Artist, "old").negate()),
                ("an AND chain", Filter::tag(Tag::Artist, "o1").and(Filter::tag(Tag::Album, "o2")).and(Filter::tag_exists(Tag::Title))),
                ("a negated AND chain", !Filter::tag(Tag::Artist, "o1").and(Filter::new(Tag::Album, Operator::Contain, "o2"))),
            ];
            for (name, mut t) in targets {
                t.clone_from(&f0);
                if sent_bytes(&commands::Find::new(t).command()) != want {
                    return Some(format!("clone_from over {name}"));
                }
            }
            let mut v = vec![Filter::new(Tag::Title, Operator::Contain, "old"), Filter::tag_absent(Tag::Album)];
            v.clone_from(&vec![f0.clone(), f0.clone()]);
            let mut o = Some(Filter::new(Tag::Title, Operator::NotMatch, "old"));
            o.clone_from(&Some(f0.clone()));
            for t in v.into_iter().chain(o) {
                if sent_bytes(&commands::Find::new(t).command()) != want {
                    return Some("Vec / Option clone_from".to_string());
                }
            }
            None
        });
        match differs {
            Ok(None) => {}
            Ok(Some(d)) => return format!("INCONSISTENT the_filter_obtained_by_{}_renders_differently_from_the_original", d.replace(' ', "_")),
            Err(_) => {}   // a filter that cannot be rendered at all: reported by the case itself below
        }
    }
    let r = catch(move || {
        let raw = match how {
            "find" => commands::Find::new(f).command(),
            "count" => commands::Count::new(f).command(),
            "list" => commands::List::new(Tag::Album).filter(f).command(),
            "countg" => commands::Count::new(f).group_by(Tag::Artist).command(),
            // a prepared command whose filter is replaced: the last filter() call counts
            "list2" => commands::List::new(Tag::Album).filter(!Filter::tag(Tag::Genre, "Audiobook")).filter(f).command(),
            "countg2" => commands::Count::new(Filter::tag(Tag::Artist, "first")).group_by(Tag::Artist).filter(f).command(),
            _ => return None,
        };
        Some(sent_bytes(&raw))
    });
    match r {
        Err(_) => "panic".into(),
        Ok(None) => "bad-case".into(),
        Ok(Some(bytes)) => format!("ok {}", hex(&bytes)),
    }
}
