//! C20: Tag / Subsystem comparisons, hashing, ordering, parsing.
use std::collections::hash_map::DefaultHasher;
use std::collections::{BTreeMap, HashMap};
use std::hash::{Hash, Hasher};

use mpd_client::client::{Client, ConnectionEvent, Subsystem};
use mpd_client::tag::Tag;
use mpd_protocol::command::Argument;

use crate::util::*;

pub fn all_tags() -> Vec<Tag> {
    vec![
        Tag::Album, Tag::AlbumArtist, Tag::AlbumArtistSort, Tag::AlbumSort, Tag::Artist,
        Tag::ArtistSort, Tag::Comment, Tag::Composer, Tag::ComposerSort, Tag::Conductor,
        Tag::Date, Tag::Disc, Tag::Ensemble, Tag::Genre, Tag::Grouping, Tag::Label,
        Tag::Location, Tag::Movement, Tag::MovementNumber, Tag::MusicBrainzArtistId,
        Tag::MusicBrainzRecordingId, Tag::MusicBrainzReleaseArtistId, Tag::MusicBrainzReleaseId,
        Tag::MusicBrainzTrackId, Tag::MusicBrainzWorkId, Tag::Name, Tag::OriginalDate,
        Tag::Performer, Tag::Title, Tag::Track, Tag::Work,
    ]
}

pub fn all_subsystems() -> Vec<Subsystem> {
    vec![
        Subsystem::Database, Subsystem::Message, Subsystem::Mixer, Subsystem::Options,
        Subsystem::Output, Subsystem::Partition, Subsystem::Player, Subsystem::Queue,
        Subsystem::Sticker, Subsystem::StoredPlaylist, Subsystem::Subscription,
        Subsystem::Update, Subsystem::Neighbor, Subsystem::Mount,
    ]
}

pub fn tag_ident(t: &Tag) -> String {
    match t {
        Tag::Other(_) => "Other".to_string(),
        t => format!("{:?}", t),
    }
}

/// The protocol name, obtained through the public `Argument` impl.
pub fn tag_name(t: &Tag) -> Vec<u8> {
    let mut buf = bytes::BytesMut::new();
    t.render(&mut buf);
    buf.to_vec()
}

/// `n:<Ident>` or `o:<hex>`
pub fn tag_of_spec(spec: &str) -> Option<Tag> {
    if let Some(id) = spec.strip_prefix("n:") {
        all_tags().into_iter().find(|t| tag_ident(t) == id)
    } else if let Some(h) = spec.strip_prefix("o:") {
        unhex_str(h).map(|s| Tag::Other(s.into()))
    } else if let Some(h) = spec.strip_prefix("p:") {
        // the way an application gets a tag from a name it was given: the checked, case-insensitive conversion
        unhex_str(h).and_then(|s| Tag::try_from(&*s).ok())
    } else {
        None
    }
}

fn show_tag(t: &Tag) -> String {
    match t {
        Tag::Other(s) => format!("other {}", hex(s.as_bytes())),
        t => format!("named {}", tag_ident(t)),
    }
}

fn h<T: Hash>(t: &T) -> u64 {
    let mut s = DefaultHasher::new();
    t.hash(&mut s);
    s.finish()
}

fn subsystem_via_idle(name: &str) -> Result<Subsystem, String> {
    let rt = tokio::runtime::Builder::new_current_thread()
        .enable_all()
        .build()
        .unwrap();
    rt.block_on(async {
        use tokio::io::AsyncWriteExt;
        let (mut server, client_io) = tokio::io::duplex(1 << 16);
        server.write_all(b"OK MPD 0.23.5\n").await.unwrap();
        let (client, mut events) = Client::connect(client_io).await.map_err(|e| format!("{e:?}"))?;
        server
            .write_all(format!("changed: {}\nOK\n", name).as_bytes())
            .await
            .unwrap();
        let ev = tokio::time::timeout(std::time::Duration::from_secs(5), events.next()).await;
        drop(client);
        match ev {
            Ok(Some(ConnectionEvent::SubsystemChange(s))) => Ok(s),
            other => Err(format!("{:?}", other)),
        }
    })
}

pub fn run(toks: &[&str]) -> String {
    match toks[0] {
        "tag_list" => all_tags()
            .iter()
            .map(|t| format!("{}={}", tag_ident(t), hex(&tag_name(t))))
            .collect::<Vec<_>>()
            .join(" "),
        "sub_list" => all_subsystems()
            .iter()
            .map(|s| format!("{:?}={}", s, hex(s.as_str().as_bytes())))
            .collect::<Vec<_>>()
            .join(" "),
        "tag_parse" => {
            let Some(s) = unhex_str(toks[1]) else { return "skip non-utf8".into() };
            match catch(|| Tag::try_from(&*s)) {
                Err(p) => format!("panic {}", hex(p.as_bytes())),
                Ok(Ok(t)) => format!("ok {}", show_tag(&t)),
                Ok(Err(mpd_client::tag::TagError::Empty)) => "err empty".into(),
                Ok(Err(mpd_client::tag::TagError::InvalidCharacter { pos, .. })) => {
                    format!("err char {}", pos)
                }
            }
        }
        "tag_rt" => {
            let Some(t) = tag_of_spec(toks[1]) else { return "unknown-ident".into() };
            let name = String::from_utf8(tag_name(&t)).unwrap();
            match catch(|| Tag::try_from(&*name)) {
                Err(p) => format!("panic {}", hex(p.as_bytes())),
                Ok(Ok(u)) => format!("parsed=1 eq={}", (u == t) as u8),
                Ok(Err(_)) => "parsed=0 eq=0".into(),
            }
        }
        "tag_cmp" => {
            let (Some(a), Some(b)) = (tag_of_spec(toks[1]), tag_of_spec(toks[2])) else {
                return "unknown-ident".into();
            };
            let eq = a == b;
            // every comparison the type offers is the comparison of the protocol names: symmetric, and the same against a string
            let (na, nb) = (String::from_utf8_lossy(&tag_name(&a)).into_owned(), String::from_utf8_lossy(&tag_name(&b)).into_owned());
            let by_name = na == nb;
            let with_str = [(a == nb.as_str(), by_name), (b == na.as_str(), by_name), (a == na.as_str(), true), (b == nb.as_str(), true),
                            (a != nb.as_str(), !by_name), ((b == a), eq), (a.partial_cmp(&b) == Some(a.cmp(&b)), true), (b.cmp(&a) == a.cmp(&b).reverse(), true),
                            (a.eq(&b), eq), (a.ne(&b), !eq), (a.clone() == a, true)];
            if let Some(i) = with_str.iter().position(|(got, want)| got != want) {
                return format!("INCONSISTENT comparison #{i} of Tag {na:?} with {nb:?} (0,1: tag == other's name; 2,3: tag == own name; 4: !=; 5: b == a; 6: partial_cmp; 7: antisymmetry; 8..: eq/ne/clone)");
            }
            let cmp = match a.cmp(&b) {
                std::cmp::Ordering::Less => "lt",
                std::cmp::Ordering::Equal => "eq",
                std::cmp::Ordering::Greater => "gt",
            };
            let hashcoh = !eq || h(&a) == h(&b);
            let mut hm = HashMap::new();
            hm.insert(a.clone(), 1);
            let mut bm = BTreeMap::new();
            bm.insert(a.clone(), 1);
            format!(
                "eq={} cmp={} hashcoh={} hmap={} bmap={} names={},{}",
                eq as u8,
                cmp,
                hashcoh as u8,
                hm.contains_key(&b) as u8,
                bm.contains_key(&b) as u8,
                hex(&tag_name(&a)),
                hex(&tag_name(&b))
            )
        }
        "sub" => {
            let Some(name) = unhex_str(toks[1]) else { return "skip non-utf8".into() };
            match subsystem_via_idle(&name) {
                Err(e) => format!("error {}", hex(e.as_bytes())),
                Ok(s) => {
                    let other = Subsystem::Other(name.clone().into());
                    let variant = match &s {
                        Subsystem::Other(_) => "Other".to_string(),
                        s => format!("{:?}", s),
                    };
                    format!(
                        "name={} variant={} eq_other={} hashcoh={}",
                        hex(s.as_str().as_bytes()),
                        variant,
                        (s == other) as u8,
                        (h(&s) == h(&other)) as u8
                    )
                }
            }
        }
        "sub_cmp" => {
            let (Some(a), Some(b)) = (unhex_str(toks[1]), unhex_str(toks[2])) else { return "skip non-utf8".into() };
            match (subsystem_via_idle(&a), subsystem_via_idle(&b)) {
                (Ok(x), Ok(y)) => {
                    let eq = x == y;
                    let mut set = std::collections::HashSet::new();
                    set.insert(x.clone());
                    format!(
                        "eq={} hashcoh={} hset={} names={},{}",
                        eq as u8,
                        (!eq || h(&x) == h(&y)) as u8,
                        set.contains(&y) as u8,
                        hex(x.as_str().as_bytes()),
                        hex(y.as_str().as_bytes())
                    )
                }
                (Err(e), _) | (_, Err(e)) => format!("error {}", hex(e.as_bytes())),
            }
        }
        _ => "unknown-kind".into(),
    }
}
